package remote

// C16, failures of the next hop: the REAL conversions that make maddy errors out of what a next hop
// did — smtpconn.(*C).wrapClientErr on every kind of SMTP client error, the MX loop of
// (*remoteDelivery).newConn / connectionForDomain / AddRcpt over scripted MX candidates (policy
// refusals with arbitrary error values, dial failures, greeting / EHLO / MAIL / RCPT replies sent by
// a scripted server over net.Pipe and parsed by the real go-smtp client), multipleErrs — and then
// the real endpoint wrapErr and queue toSMTPErr on the resulting VALUES.
//
//	C16 wce <AddrInSMTPMsg> <server> <client error>        client error: V <tree> | O <key> | L V <tree> | L O <key>
//	C16 nomx <mx> ; <mx> ... then <after>                  mx: U | P <tree> | G <reply> | E <reply> | O <key>
//	                                                       after: ok | M|R|D|B <reply>           reply: code a s d msg
//	                                                       (MAIL / RCPT / DATA command / end of data answered with it)
//	C16 mxlookup <tree>                                    the MX lookup fails with that error
//	C16 merr <tree> ; <tree> ...

import (
	"context"
	"crypto/tls"
	"fmt"
	"net"
	"strings"
	"testing"

	"github.com/emersion/go-message/textproto"
	"github.com/emersion/go-smtp"
	"github.com/foxcpp/go-mockdns"
	"github.com/foxcpp/maddy/framework/buffer"
	"github.com/foxcpp/maddy/framework/exterrors"
	"github.com/foxcpp/maddy/framework/log"
	"github.com/foxcpp/maddy/framework/module"
	smtpep "github.com/foxcpp/maddy/internal/endpoint/smtp"
	"github.com/foxcpp/maddy/internal/smtpconn"
	"github.com/foxcpp/maddy/internal/target/queue"
	"github.com/foxcpp/maddy/internal/verifshim/vc16"
	"github.com/foxcpp/maddy/internal/verifshim/verr"
	"github.com/foxcpp/maddy/internal/verifshim/vh"
)

var c16Conv = vc16.Conv{WrapErr: smtpep.VerifC16WrapErr, ToSMTPErr: queue.VerifC16ToSMTPErr}

var c16Nop = log.Logger{Out: log.NopOutput{}}

// ---------------------------------------------------------------- client errors

type c16CE struct {
	kind  string // V O L
	key   string
	node  *verr.Node
	inner *c16CE
}

func (c *c16CE) String() string {
	switch c.kind {
	case "V":
		return "V " + c.node.String()
	case "O":
		return "O " + c.key
	}
	return "L " + c.inner.String()
}

func c16ParseCE(toks []string) (*c16CE, []string) {
	switch toks[0] {
	case "V":
		n, rest := verr.Parse(toks[1:])
		return &c16CE{kind: "V", node: n}, rest
	case "O":
		return &c16CE{kind: "O", key: toks[1]}, toks[2:]
	case "L":
		in, rest := c16ParseCE(toks[1:])
		return &c16CE{kind: "L", inner: in}, rest
	}
	panic("bad client error " + toks[0])
}

func (c *c16CE) Build() error {
	switch c.kind {
	case "V":
		return c.node.Build()
	case "O":
		return vc16.OpErr(c.key)
	}
	return smtpconn.TLSError{Err: c.inner.Build()}
}

// Ok: what the conversion is given is itself in order (a relayed reply is class-coherent, an
// annotated maddy error is as maddy builds them); nothing is asked of network errors.
func (c *c16CE) Ok() bool {
	switch c.kind {
	case "V":
		return verr.WellFormed(c.node)
	case "O":
		return true
	}
	return c.inner.Ok()
}

func c16WCE(out *vh.Out, op string) {
	toks := strings.Fields(op)
	addr := toks[2] == "1"
	server := vh.UnhexRunes(toks[3])
	x, _ := c16ParseCE(toks[4:])
	c := &smtpconn.C{AddrInSMTPMsg: addr, Log: c16Nop}
	e := c.VerifC16WrapClientErr(x.Build(), server)
	seen := vc16.Run(c16Conv, e)
	out.Corr(op, seen.Canon(nil))
	vc16.Check(out, op, seen, x.Ok())
	k := x.kind
	if k == "V" {
		k += x.node.Kind
	}
	out.Stat("wce.kind." + k)
	if x.Ok() {
		out.Stat("wce.input-ok")
	} else {
		out.Stat("wce.input-malformed")
	}
	if seen.Ep0 != nil {
		out.Stat(fmt.Sprintf("wce.reply-class%d", seen.Ep0.Code/100))
	}
}

var c16Tails = [][2]int{{0, 0}, {1, 1}, {2, 2}, {3, 4}, {4, 2}, {7, 1}}

func c16GenCE(r *vh.Rng) *c16CE {
	switch p := r.Intn(100); {
	case p < 45:
		rp := vc16.GenReply(r, false)
		return &c16CE{kind: "V", node: &verr.Node{Kind: "R", Code: rp.Code, Ench: rp.Ench, Msg: rp.Msg}}
	case p < 60:
		return &c16CE{kind: "O", key: vc16.OpKeys[r.Intn(len(vc16.OpKeys))]}
	case p < 75:
		in := &c16CE{kind: "O", key: vc16.OpKeys[r.Intn(len(vc16.OpKeys))]}
		if r.Chance(60) {
			rp := vc16.GenReply(r, false)
			in = &c16CE{kind: "V", node: &verr.Node{Kind: "R", Code: rp.Code, Ench: rp.Ench, Msg: rp.Msg}}
		} else if r.Chance(40) {
			in = &c16CE{kind: "V", node: verr.Gen(r, r.Intn(3), r.Chance(75))}
		}
		return &c16CE{kind: "L", inner: in}
	default:
		return &c16CE{kind: "V", node: verr.Gen(r, r.Intn(4), r.Chance(75))}
	}
}

// every basic code of the list with no enhanced code and with enhanced codes of its class
func c16SystematicWCE() []string {
	var ops []string
	for i, c := range vc16.Codes {
		for j := -1; j < len(c16Tails); j++ {
			rp := vc16.Reply{Code: c, Msg: "Mailbox full"}
			if j >= 0 {
				rp.Ench = [3]int{c / 100, c16Tails[j][0], c16Tails[j][1]}
			}
			ops = append(ops, fmt.Sprintf("C16 wce %d %s V R %s", (i+j+1)%2, vh.HexRunes("mx.example.org"), rp))
		}
	}
	for _, k := range vc16.OpKeys {
		ops = append(ops, "C16 wce 0 - O "+k, "C16 wce 1 "+vh.HexRunes("mx.example.org")+" L O "+k)
	}
	return ops
}

// ---------------------------------------------------------------- the MX loop

type c16MX struct {
	kind  string // U P G E O
	node  *verr.Node
	reply vc16.Reply
	key   string
}

func (m c16MX) String() string {
	switch m.kind {
	case "U":
		return "U"
	case "P":
		return "P " + m.node.String()
	case "O":
		return "O " + m.key
	}
	return m.kind + " " + m.reply.String()
}

type c16Hist struct {
	mxs       []c16MX
	after     string // ok M R
	afterRepl vc16.Reply
}

func (h c16Hist) Op() string {
	var s []string
	for _, m := range h.mxs {
		s = append(s, m.String())
	}
	a := "ok"
	if h.after != "ok" {
		a = h.after + " " + h.afterRepl.String()
	}
	return "C16 nomx " + strings.Join(s, " ; ") + " then " + a
}

func c16ParseHist(op string) c16Hist {
	toks := strings.Fields(op)[2:]
	var h c16Hist
	for toks[0] != "then" {
		switch k := toks[0]; k {
		case ";":
			toks = toks[1:]
		case "U":
			h.mxs = append(h.mxs, c16MX{kind: "U"})
			toks = toks[1:]
		case "P":
			var n *verr.Node
			n, toks = verr.Parse(toks[1:])
			h.mxs = append(h.mxs, c16MX{kind: "P", node: n})
		case "O":
			h.mxs = append(h.mxs, c16MX{kind: "O", key: toks[1]})
			toks = toks[2:]
		case "G", "E":
			var rp vc16.Reply
			rp, toks = vc16.ParseReply(toks[1:])
			h.mxs = append(h.mxs, c16MX{kind: k, reply: rp})
		default:
			panic("bad mx script " + k)
		}
	}
	toks = toks[1:]
	h.after = toks[0]
	if h.after != "ok" {
		h.afterRepl, _ = vc16.ParseReply(toks[1:])
	}
	return h
}

func c16Idx(host string) int {
	var i int
	if _, err := fmt.Sscanf(host, "mx%d.", &i); err != nil {
		panic("unexpected MX host " + host)
	}
	return i
}

type c16Status func(string, error)

func (f c16Status) SetStatus(rcpt string, err error) { f(rcpt, err) }

type c16Policy struct{ h c16Hist }

func (p *c16Policy) Start(*module.MsgMetadata) module.DeliveryMXAuthPolicy { return p }
func (p *c16Policy) Weight() int                                           { return 10 }
func (p *c16Policy) PrepareDomain(context.Context, string)                 {}
func (p *c16Policy) PrepareConn(context.Context, string)                   {}
func (p *c16Policy) Reset(*module.MsgMetadata)                             {}
func (p *c16Policy) CheckMX(_ context.Context, _ module.MXLevel, _, mx string, _ bool) (module.MXLevel, error) {
	if m := p.h.mxs[c16Idx(mx)]; m.kind == "P" {
		return module.MXNone, m.node.Build()
	}
	return module.MXNone, nil
}
func (p *c16Policy) CheckConn(_ context.Context, _ module.MXLevel, l module.TLSLevel, _, _ string, _ tls.ConnectionState) (module.TLSLevel, error) {
	return l, nil
}

// the script of the server of one MX candidate
func c16Script(m c16MX, h c16Hist) vc16.Script {
	var sc vc16.Script
	switch m.kind {
	case "G":
		sc.Greet = &m.reply
	case "E":
		sc.Hello = &m.reply
	}
	switch h.after {
	case "M":
		sc.Mail = &h.afterRepl
	case "R":
		sc.Rcpt = &h.afterRepl
	case "D":
		sc.Data = &h.afterRepl
	case "B":
		sc.Dot = &h.afterRepl
	}
	return sc
}

const c16NoMXPrefix = "No usable MXs, last err: "

func c16NoMX(t *testing.T, out *vh.Out, op string) {
	h := c16ParseHist(op)
	op = h.Op()
	var mxs []net.MX
	for i := range h.mxs {
		mxs = append(mxs, net.MX{Host: fmt.Sprintf("mx%d.c16.invalid.", i), Pref: uint16(10 * (i + 1))})
	}
	zones := map[string]mockdns.Zone{"c16.invalid.": {MX: mxs}}
	tgt := testTarget(t, zones, nil, []module.MXAuthPolicy{&c16Policy{h}})
	tgt.Log = c16Nop
	tgt.dialer = func(ctx context.Context, network, addr string) (net.Conn, error) {
		host, _, _ := net.SplitHostPort(addr)
		m := h.mxs[c16Idx(host)]
		if m.kind == "O" {
			return nil, vc16.OpErr(m.key)
		}
		c1, c2 := net.Pipe()
		go vc16.Serve(c2, c16Script(m, h))
		return c1, nil
	}
	defer tgt.Close()
	ctx := context.Background()
	d, err := tgt.Start(ctx, &module.MsgMetadata{ID: "verif"}, "sender@example.org")
	if err != nil {
		t.Fatal(err)
	}
	err = d.AddRcpt(ctx, "rcpt@c16.invalid", smtp.RcptOptions{})
	if err == nil && (h.after == "D" || h.after == "B") {
		hdr := textproto.Header{}
		hdr.Add("Subject", "x")
		n := 0
		d.(module.PartialDelivery).BodyNonAtomic(ctx, c16Status(func(rcpt string, e error) { n++; err = e }), hdr, buffer.MemoryBuffer{Slice: []byte("hi\r\n")})
		if n != 1 {
			out.Violation("C16/no-status", op, fmt.Sprintf("%d statuses for one recipient", n))
		}
	}
	d.Abort(ctx)

	connected := -1
	for i, m := range h.mxs {
		if m.kind == "U" {
			connected = i
			break
		}
	}
	if connected < 0 {
		out.Stat(fmt.Sprintf("nomx.all-failed.%d", len(h.mxs)))
	} else {
		out.Stat("nomx.connected.then-" + h.after)
	}
	for i, m := range h.mxs {
		if connected < 0 || i < connected {
			out.Stat("nomx.failure." + m.kind)
		}
	}
	if err == nil {
		out.Corr(op, "ok")
		if connected < 0 {
			out.Violation("C16/no-usable-mx-accepted", op, "recipient accepted although no MX candidate could be used")
		}
		return
	}
	seen := vc16.Run(c16Conv, err)
	subst := map[string]string{}
	inputOk := true
	if se, ok := err.(*exterrors.SMTPError); ok && se.Err != nil && se.Message == c16NoMXPrefix+se.Err.Error() {
		// the Error() text of the kept failure is appended; the model has the constant part
		subst[se.Message] = c16NoMXPrefix
		subst[vc16.Mangle(se.Message)] = c16NoMXPrefix
	}
	if connected >= 0 {
		// the failure is a relayed MAIL / RCPT reply: coherent when the reply is
		inputOk = h.afterRepl.Ok()
	}
	out.Corr(op, seen.Canon(subst))
	vc16.Check(out, op, seen, inputOk)
	out.Stat(fmt.Sprintf("nomx.reply-class%d", seen.Stored.Code/100))
	// the failures seen by the loop, by what the retry logic makes of them: t(emporary) p(ermanent) u(nclassified)
	if connected < 0 && len(h.mxs) > 1 {
		if n := vc16.Describe(err); n.Inner != nil {
			if tl, known := verr.TempOf(n.Inner); !known {
				out.Stat("nomx.kept.unclassified")
			} else if tl {
				out.Stat("nomx.kept.temporary")
			} else {
				out.Stat("nomx.kept.permanent")
			}
		}
	}
}

func c16GenMX(r *vh.Rng, allowUp bool) c16MX {
	switch p := r.Intn(100); {
	case p < 40:
		// refusal by a policy: any error value (annotated 4yz / 5yz, markers, network errors, plain)
		depth := r.Intn(3)
		return c16MX{kind: "P", node: verr.Gen(r, depth, r.Chance(70))}
	case p < 55:
		return c16MX{kind: "G", reply: vc16.GenReply(r, true)}
	case p < 65:
		rp := vc16.GenReply(r, true)
		return c16MX{kind: "E", reply: rp}
	case p < 80 || !allowUp:
		return c16MX{kind: "O", key: vc16.OpKeys[r.Intn(len(vc16.OpKeys))]}
	default:
		return c16MX{kind: "U"}
	}
}

func c16GenHist(r *vh.Rng) c16Hist {
	h := c16Hist{after: "ok"}
	n := 1 + r.Intn(4)
	up := r.Chance(45)
	for i := 0; i < n; i++ {
		h.mxs = append(h.mxs, c16GenMX(r, up))
	}
	for _, m := range h.mxs {
		if m.kind == "U" {
			if k := r.Intn(5); k > 0 {
				h.after, h.afterRepl = []string{"M", "R", "D", "B"}[k-1], vc16.GenReply(r, true)
			}
			break
		}
	}
	return h
}

// every order of temporary / permanent / unclassified / dial / greeting failures over 1-3 candidates
func c16SystematicNoMX() []string {
	alpha := []string{
		"P S 450 4 4 2 " + vh.HexRunes("Try again later"),                // temporary
		"P S 550 5 7 0 " + vh.HexRunes("MX is not listed in the policy"), // permanent
		"P P",       // unclassified
		"P T 1 P",   // marked temporary
		"O refused", // dial failure
		"G 554 5 3 2 " + vh.HexRunes("no service"), // greeting, permanent
	}
	var ops []string
	var rec func(prefix []string, k int)
	rec = func(prefix []string, k int) {
		if len(prefix) > 0 {
			ops = append(ops, "C16 nomx "+strings.Join(prefix, " ; ")+" then ok")
		}
		if k == 0 {
			return
		}
		for _, a := range alpha {
			rec(append(append([]string{}, prefix...), a), k-1)
		}
	}
	rec(nil, 3)
	// replies to MAIL / RCPT on the first usable candidate, 552 with and without enhanced code included
	for _, st := range []string{"M", "R", "D", "B"} {
		for _, rp := range []string{"552 5 2 2", "552 0 0 0", "552 5 3 4", "452 4 2 2", "550 5 1 1", "450 0 0 0", "421 4 4 2", "554 0 0 0"} {
			ops = append(ops, "C16 nomx O refused ; U then "+st+" "+rp+" "+vh.HexRunes("Mailbox full"))
		}
	}
	return ops
}

// ---------------------------------------------------------------- the MX lookup fails

func c16MXLookup(t *testing.T, out *vh.Out, op string) {
	n, _ := verr.Parse(strings.Fields(op)[2:])
	zones := map[string]mockdns.Zone{"c16.invalid.": {Err: n.Build()}}
	tgt := testTarget(t, zones, nil, nil)
	tgt.Log = c16Nop
	defer tgt.Close()
	ctx := context.Background()
	d, err := tgt.Start(ctx, &module.MsgMetadata{ID: "verif"}, "sender@example.org")
	if err != nil {
		t.Fatal(err)
	}
	err = d.AddRcpt(ctx, "rcpt@c16.invalid", smtp.RcptOptions{})
	d.Abort(ctx)
	if err == nil {
		out.Corr(op, "ok")
		out.Violation("C16/no-usable-mx-accepted", op, "recipient accepted although the MX lookup failed")
		return
	}
	seen := vc16.Run(c16Conv, err)
	out.Corr(op, seen.Canon(nil))
	vc16.Check(out, op, seen, true)
	out.Stat(fmt.Sprintf("mxlookup.reply-class%d", seen.Stored.Code/100))
}

// c16Interrupted: 0-3 wrappers (resolver error with a cause, temporariness marker, field wrapper)
// around a cancelled context, an expired deadline or an opaque cause.
func c16Interrupted(r *vh.Rng) *verr.Node {
	n := &verr.Node{Kind: []string{"C", "C", "D", "P", "N"}[r.Intn(5)], Temp: r.Bool()}
	for k := r.Intn(4); k > 0; k-- {
		switch r.Intn(3) {
		case 0:
			n = &verr.Node{Kind: "Q", Temp: r.Bool(), Inner: n}
		case 1:
			n = &verr.Node{Kind: "T", Temp: r.Bool(), Inner: n}
		default:
			n = &verr.Node{Kind: "F", Inner: n}
		}
	}
	return n
}

// ---------------------------------------------------------------- several recipients

func c16MErr(out *vh.Out, op string) {
	toks := strings.Fields(op)[2:]
	merr := &multipleErrs{errs: map[string]error{}}
	anyTemp := false
	for i := 0; len(toks) > 0; i++ {
		if toks[0] == ";" {
			toks = toks[1:]
		}
		var n *verr.Node
		n, toks = verr.Parse(toks)
		e := n.Build()
		merr.errs[fmt.Sprintf("r%d@c16.invalid", i)] = e
		anyTemp = anyTemp || exterrors.IsTemporary(e)
	}
	ep0, _ := c16Conv.WrapErr(false, merr).(*smtp.SMTPError)
	ep1, _ := c16Conv.WrapErr(true, merr).(*smtp.SMTPError)
	if ep0 == nil || ep1 == nil {
		out.Corr(op, "wrapErr-did-not-return-an-smtp-error")
		return
	}
	out.Corr(op, verr.CanonReply(ep0)+" | "+verr.CanonReply(ep1))
	for _, r := range []*smtp.SMTPError{ep0, ep1} {
		cls := r.Code / 100
		we := verr.WireEnch(r.Code, r.EnhancedCode)
		if we == "none" || int(we[0]-'0') != cls || (cls != 4 && cls != 5) {
			out.Violation("C16/endpoint-class-mismatch", op, fmt.Sprintf("reply %d %s", r.Code, we))
			break
		}
	}
	out.Stat(fmt.Sprintf("merr.rcpts.%d", len(merr.errs)))
	out.Stat(fmt.Sprintf("merr.any-temporary.%v", anyTemp))
}

// ---------------------------------------------------------------- entry

func TestVerifC16NextHop(t *testing.T) {
	out := vh.Open("c16_nexthop")
	defer out.Close()
	run := func(op string) {
		switch {
		case strings.HasPrefix(op, "C16 wce "):
			c16WCE(out, op)
		case strings.HasPrefix(op, "C16 nomx "):
			c16NoMX(t, out, op)
		case strings.HasPrefix(op, "C16 mxlookup "):
			c16MXLookup(t, out, op)
		case strings.HasPrefix(op, "C16 merr "):
			c16MErr(out, op)
		}
	}
	if ops := vh.Replay(); ops != nil {
		for _, op := range ops {
			run(op)
		}
		return
	}
	for _, op := range c16SystematicWCE() {
		run(op)
	}
	for _, op := range c16SystematicNoMX() {
		run(op)
	}
	n := vh.N(4000)
	r := vh.NewRng(vh.Seed() + 1616)
	for i := 0; i < n/4; i++ {
		server := []string{"mx.example.org", "mx1.пример.example", ""}[r.Intn(3)]
		run(fmt.Sprintf("C16 wce %d %s %s", r.Intn(2), vh.HexRunes(server), c16GenCE(r)))
	}
	for i := 0; i < n/10; i++ {
		run(c16GenHist(r).Op())
	}
	for _, tr := range []string{"N 0", "N 1", "P", "D", "T 1 P", "T 0 P", "T 0 N 1", "F - - _ N 1"} {
		run("C16 mxlookup " + tr)
	}
	for i := 0; i < n/40; i++ {
		run("C16 mxlookup " + verr.Gen(r, r.Intn(3), r.Chance(50)).String())
	}
	// an interrupted lookup: the cancellation / the deadline of the context as the resolver and the
	// net package hand it on (DNSError with a cause, marker and field wrappers, %w), bare too
	for _, tr := range []string{"C", "Q 0 C", "Q 1 C", "F - - _ C", "T 0 C", "T 1 C", "Q 0 F - - _ C", "F - - _ Q 0 C", "Q 0 D", "Q 1 D", "Q 0 P", "Q 1 P", "Q 0 N 1", "Q 1 N 0", "F - - _ D"} {
		run("C16 mxlookup " + tr)
		run("C16 wce 0 " + vh.HexRunes("mx.example.org") + " V " + tr)
		run("C16 wce 1 " + vh.HexRunes("") + " L V " + tr)
		run("C16 nomx P " + tr + " then ok")
	}
	for i := 0; i < n/40; i++ {
		tr := c16Interrupted(r).String()
		run("C16 mxlookup " + tr)
		run(fmt.Sprintf("C16 wce %d %s V %s", r.Intn(2), vh.HexRunes("mx.example.org"), tr))
	}
	for i := 0; i < n/20; i++ {
		k := 2 + r.Intn(3)
		var parts []string
		for j := 0; j < k; j++ {
			parts = append(parts, verr.Gen(r, r.Intn(3), r.Chance(70)).String())
		}
		run("C16 merr " + strings.Join(parts, " ; "))
	}
}
