package remote

// Overlay-only export (never part of the repository tree): lets the queue harness (package
// queue) run the queue on top of the REAL remote target with a mock resolver.

import (
	"context"
	"crypto/tls"
	"net"

	"github.com/foxcpp/go-mockdns"
	"github.com/foxcpp/maddy/framework/log"
	"github.com/foxcpp/maddy/internal/limits"
	"github.com/foxcpp/maddy/internal/smtpconn/pool"
)

func VerifNewTarget(zones map[string]mockdns.Zone, port string) *Target {
	smtpPort = port
	resolver := &mockdns.Resolver{Zones: zones}
	return &Target{
		name:           "remote",
		hostname:       "mx.example.com",
		resolver:       resolver,
		dialer:         resolver.DialContext,
		tlsConfig:      &tls.Config{},
		Log:            log.Logger{Out: log.NopOutput{}},
		limits:         &limits.Group{},
		connReuseLimit: 10,
		pool: pool.New(pool.Config{
			MaxKeys:             5000,
			MaxConnsPerKey:      5,
			MaxConnLifetimeSec:  150,
			StaleKeyLifetimeSec: 60 * 5,
		}),
	}
}

// VerifSetPort sets the package-level port every MX is contacted on.
func VerifSetPort(port string) { smtpPort = port }

// VerifNewTargetDial is VerifNewTarget with the dial function wrapped (the C01 hop harness uses
// it to make a silent next hop look like a command time-out without waiting for one).  The port
// is the one set with VerifSetPort, so that targets can be used side by side.
func VerifNewTargetDial(zones map[string]mockdns.Zone,
	wrap func(func(ctx context.Context, network, addr string) (net.Conn, error)) func(ctx context.Context, network, addr string) (net.Conn, error)) *Target {
	t := VerifNewTarget(zones, smtpPort)
	t.dialer = wrap(t.dialer)
	return t
}
