package remote

// C06 — the remote target refuses a quarantined message (see /verif/notes/C06.md): the real
// target.remote against a scripted go-smtp next hop, the quarantine flag set before RCPT or between
// RCPT and DATA (where a body-stage verdict or the DMARC policy sets it), over Body and BodyNonAtomic.

import (
	"context"
	"fmt"
	"net"
	"strings"
	"testing"

	"github.com/emersion/go-message/textproto"
	"github.com/emersion/go-smtp"
	"github.com/foxcpp/go-mockdns"
	"github.com/foxcpp/maddy/framework/buffer"
	"github.com/foxcpp/maddy/framework/module"
	"github.com/foxcpp/maddy/internal/verifshim/vh"
	"github.com/foxcpp/maddy/internal/verifshim/vsmtp"
)

type c06Statuses map[string]error

func (m c06Statuses) SetStatus(rcpt string, err error) { m[rcpt] = err }

func c06RemoteOne(t *testing.T, out *vh.Out, op string) {
	toks := strings.Fields(op)
	if len(toks) != 5 {
		t.Fatalf("bad op %q", op)
	}
	qRcpt, qBody, path := toks[2] == "1", toks[3] == "1", toks[4]

	smtpPort = vsmtp.FreePort()
	srv, err := vsmtp.Start("127.0.0.1:"+smtpPort, false, false)
	if err != nil {
		smtpPort = vsmtp.FreePort()
		srv, err = vsmtp.Start("127.0.0.1:"+smtpPort, false, false)
	}
	if err != nil {
		t.Fatal(err)
	}
	defer srv.Close()
	zones := map[string]mockdns.Zone{
		"example.invalid.":    {MX: []net.MX{{Host: "mx.example.invalid.", Pref: 10}}},
		"mx.example.invalid.": {A: []string{"127.0.0.1"}},
	}
	tgt := testTarget(t, zones, nil, nil)
	defer tgt.Close()

	ctx := context.Background()
	meta := &module.MsgMetadata{ID: "verif", Quarantine: qRcpt}
	d, err := tgt.Start(ctx, meta, "sender@example.com")
	if err != nil {
		t.Fatalf("Start: %v", err)
	}
	rcptS, bodyS := "o", "-"
	if err := d.AddRcpt(ctx, "rcpt@example.invalid", smtp.RcptOptions{}); err != nil {
		rcptS = "r"
		d.Abort(ctx)
	} else {
		meta.Quarantine = qBody
		hdr := textproto.Header{}
		hdr.Add("Subject", "verif")
		body := buffer.MemoryBuffer{Slice: []byte("hello\r\n")}
		var berr error
		if path == "body" {
			berr = d.Body(ctx, hdr, body)
		} else {
			st := c06Statuses{}
			d.(module.PartialDelivery).BodyNonAtomic(ctx, st, hdr, body)
			e, ok := st["rcpt@example.invalid"]
			if !ok {
				berr = fmt.Errorf("no status reported")
			} else {
				berr = e
			}
		}
		if berr != nil {
			bodyS = "r"
			d.Abort(ctx)
		} else {
			bodyS = "o"
			d.Commit(ctx)
		}
	}
	relayed := 0
	srv.Script.Set(func(s *vsmtp.Script) {
		for _, tx := range s.Txs {
			if tx.Done {
				relayed++
			}
		}
	})
	out.Corr(op, fmt.Sprintf("rcpt=%s body=%s relayed=%d", rcptS, bodyS, relayed))
	if (qRcpt || (rcptS == "o" && qBody)) && relayed > 0 {
		out.Violation("C06/quarantined-message-relayed", op, "target.remote relayed a message flagged as quarantined")
	}
	if qRcpt && rcptS != "r" {
		out.Violation("C06/quarantined-message-relayed", op, "target.remote accepted a recipient for a message flagged as quarantined")
	}
	if rcptS == "o" && qBody && bodyS != "r" {
		out.Violation("C06/quarantined-message-relayed", op, "target.remote accepted the body of a message flagged as quarantined")
	}
	out.Stat("remote.rcpt." + rcptS + ".body." + bodyS)
}

func TestVerifC06Remote(t *testing.T) {
	out := vh.Open("c06_remote")
	defer out.Close()
	if ops := vh.Replay(); ops != nil {
		for _, op := range ops {
			if strings.HasPrefix(op, "C06 remote ") {
				c06RemoteOne(t, out, op)
			}
		}
		return
	}
	for _, qr := range []int{0, 1} {
		for _, qb := range []int{0, 1} {
			for _, path := range []string{"body", "bna"} {
				c06RemoteOne(t, out, fmt.Sprintf("C06 remote %d %d %s", qr, qb, path))
			}
		}
	}
}
