package remote

// C16, failures of maddy's own limits (strengthening round 7): the errors the REAL limits.Group
// returns when it refuses a message — the wait for a slot of the global / per-IP / per-source /
// per-destination limit (concurrency or rate) ended by the time-out or by the caller's context, the
// bucket table of a keyed scope full — as raw values (what Session.Mail of the SMTP endpoint hands to
// wrapErr), through the real remote.Target.Start (which annotates them) and through the real AddRcpt /
// connectionForDomain (which passes the destination limit's error on), and then through the real
// endpoint wrapErr and queue toSMTPErr, with the C16 monitor on the outcome.
//
//	C16 lim <all>/<ip>/<source>/<destination> <via> <scope> <mode>
//	   limits: "-" or s<N> (concurrency N) / r<N> (rate N 1h), comma separated
//	   via:    take (Group.TakeMsg / TakeDest called directly) | start (Target.Start) | rcpt (AddRcpt)
//	   scope:  all | ip | source | destination — the limit that has no slot left; none = nothing exhausted
//	   mode:   T0 the caller's deadline has passed | T1 it passes during the wait | C cancelled |
//	           F the bucket table of the scope is full | - (scope none)

import (
	"context"
	"fmt"
	"net"
	"strings"
	"testing"

	"github.com/emersion/go-smtp"
	"github.com/foxcpp/go-mockdns"
	"github.com/foxcpp/maddy/framework/module"
	"github.com/foxcpp/maddy/internal/limits"
	"github.com/foxcpp/maddy/internal/verifshim/vc16"
	"github.com/foxcpp/maddy/internal/verifshim/vh"
)

// groups whose bucket table has been filled (20011 buckets in use), by configuration and scope: a
// refused probe leaves such a group as it was, so the cases of one scope share it
var c16FullGroups = map[string]*limits.Group{}

func c16Lim(t *testing.T, out *vh.Out, op string) {
	toks := strings.Fields(op)
	if len(toks) != 6 {
		out.Note("unparsable op: " + op)
		return
	}
	cfg, via, scope, mode := toks[2], toks[3], toks[4], toks[5]
	g := c16FullGroups[cfg+" "+scope]
	if g == nil || mode != "F" {
		var err error
		g, err = vc16.NewLimits(cfg)
		if err != nil {
			out.Note("limits configuration rejected: " + op + ": " + err.Error())
			return
		}
		if scope != "none" {
			if err := vc16.LimExhaust(g, cfg, scope, mode); err != nil {
				out.Violation("C16/harness-limits-setup", op, err.Error())
				return
			}
		}
		if mode == "F" {
			c16FullGroups[cfg+" "+scope] = g
		}
	}
	ctx, cancel := vc16.LimCtx(mode)
	defer cancel()
	bg := context.Background()
	meta := &module.MsgMetadata{ID: "verif", Conn: &module.ConnState{RemoteAddr: &net.TCPAddr{IP: vc16.LimProbeIP, Port: 2525}}}

	var ferr error
	switch via {
	case "take":
		if scope == "destination" {
			ferr = g.TakeDest(ctx, vc16.LimProbeDest)
		} else {
			ferr = g.TakeMsg(ctx, vc16.LimProbeIP, vc16.LimProbeSource)
			if ferr == nil {
				ferr = g.TakeDest(ctx, vc16.LimProbeDest)
			}
		}
	case "start":
		tgt := testTarget(t, nil, nil, nil)
		tgt.Log = c16Nop
		tgt.limits = g
		defer tgt.Close()
		var d module.Delivery
		d, ferr = tgt.Start(ctx, meta, "sender@"+vc16.LimProbeSource)
		if ferr == nil {
			d.Abort(bg)
		}
	case "rcpt":
		zones := map[string]mockdns.Zone{"c16.invalid.": {MX: []net.MX{{Host: "mx0.c16.invalid.", Pref: 10}}}}
		tgt := testTarget(t, zones, nil, nil)
		tgt.Log = c16Nop
		tgt.limits = g
		tgt.dialer = func(context.Context, string, string) (net.Conn, error) {
			c1, c2 := net.Pipe()
			go vc16.Serve(c2, vc16.Script{})
			return c1, nil
		}
		defer tgt.Close()
		d, err := tgt.Start(bg, meta, "sender@"+vc16.LimProbeSource)
		if err != nil {
			out.Violation("C16/harness-limits-setup", op, "Start: "+err.Error())
			return
		}
		ferr = d.AddRcpt(ctx, "rcpt@"+vc16.LimProbeDest, smtp.RcptOptions{})
		d.Abort(bg)
	default:
		out.Note("unparsable op: " + op)
		return
	}

	out.Stat("lim.via." + via)
	out.Stat("lim.scope." + scope)
	out.Stat("lim.mode." + mode)
	if ferr == nil {
		out.Corr(op, "ok")
		out.Stat("lim.outcome.accepted")
		if scope != "none" {
			out.Violation("C16/limit-not-enforced", op, "the message was accepted although the "+scope+" limit has no slot left")
		}
		return
	}
	if scope == "none" {
		out.Violation("C16/limit-refused-without-cause", op, "no limit is exhausted, yet: "+ferr.Error())
	}
	seen := vc16.Run(c16Conv, ferr)
	out.Corr(op, seen.Canon(nil))
	// a failure maddy composes itself: coherence is demanded unconditionally
	vc16.Check(out, op, seen, true)
	if vc16.LimRetryLater(mode) {
		vc16.CheckRetryLater(out, op, seen)
	}
	out.Stat(fmt.Sprintf("lim.outcome.reply-class%d.record-class%d", seen.Ep0.Code/100, seen.Stored.Code/100))
	out.Stat("lim.value." + strings.Fields(vc16.Describe(ferr).String())[0])
}

// c16SystematicLim: every scope x limiter kind x way the wait ends x way the failure reaches the
// conversions, one configuration with only that scope limited and one with every scope limited.
func c16SystematicLim() []string {
	var ops []string
	add := func(cfg, via, scope, mode string) {
		ops = append(ops, fmt.Sprintf("C16 lim %s %s %s %s", cfg, via, scope, mode))
	}
	only := func(scope int, lim string) string {
		p := []string{"-", "-", "-", "-"}
		p[scope] = lim
		return strings.Join(p, "/")
	}
	every := func(scope int, lim string) string {
		p := []string{"s50", "s40,r45", "r30", "s20"}
		p[scope] = lim
		return strings.Join(p, "/")
	}
	for si, scope := range vc16.LimScopes {
		vias := []string{"take", "start"}
		if scope == "destination" {
			vias = []string{"take", "rcpt"}
		}
		for _, via := range vias {
			for _, lim := range []string{"s1", "r1", "s2,r3", "r2,s5"} {
				for _, mode := range []string{"T0", "T1", "C"} {
					add(only(si, lim), via, scope, mode)
					if lim == "s1" || lim == "r1" {
						add(every(si, lim), via, scope, mode)
					}
				}
			}
			if si > 0 {
				add(only(si, "s1"), via, scope, "F")
			}
		}
	}
	for _, via := range []string{"take", "start", "rcpt"} {
		add("-/-/-/-", via, "none", "-")
		add("s2/s2/r2/s2", via, "none", "-")
	}
	return ops
}

func TestVerifC16Limits(t *testing.T) {
	out := vh.Open("c16_limits")
	defer out.Close()
	if ops := vh.Replay(); ops != nil {
		for _, op := range ops {
			if strings.HasPrefix(op, "C16 lim ") {
				c16Lim(t, out, op)
			}
		}
		return
	}
	for _, op := range c16SystematicLim() {
		c16Lim(t, out, op)
	}
	// random configurations: sizes, order of the limiters inside a scope, the other scopes limited or not
	r := vh.NewRng(vh.Seed() + 1677)
	n := vh.N(4000) / 100
	for i := 0; i < n; i++ {
		si := r.Intn(4)
		p := make([]string, 4)
		for j := range p {
			switch {
			case j == si:
				k := 1 + r.Intn(3)
				p[j] = r.Pick("s", "r") + fmt.Sprint(k)
				if r.Chance(40) {
					extra := r.Pick("s", "r") + fmt.Sprint(10+r.Intn(20))
					if r.Bool() {
						p[j] = extra + "," + p[j]
					} else {
						p[j] += "," + extra
					}
				}
			case r.Chance(50):
				p[j] = "-"
			default:
				p[j] = r.Pick("s", "r") + fmt.Sprint(10+r.Intn(40))
			}
		}
		via := r.Pick("take", "start")
		if si == 3 {
			via = r.Pick("take", "rcpt")
		}
		c16Lim(t, out, fmt.Sprintf("C16 lim %s %s %s %s", strings.Join(p, "/"), via, vc16.LimScopes[si], r.Pick("T0", "T1", "T1", "C")))
	}
}
