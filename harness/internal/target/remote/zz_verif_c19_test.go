package remote

// C19 harness, second part: the REAL pooled connection type.  The real remote target (real
// remoteDelivery.Close / connectionForDomain, real mxConn over a real smtpconn.C) delivers to scripted SMTP
// servers on the loopback interface through the real pool; histories are sequential (the interleavings are the
// business of the pool-package harness).  Every time.Now() of pool.go and of the files of this package that
// stamp mxConn.lastUseAt is routed to vcoop's manual clock by the check's overlay (checks/c19.py), so the
// clock only moves when the case says so.
//   correspondence: which delivery got a new connection and which a pooled one (and which), the set of
//   connections closed at the end — the Lean pool model replays the same op line (Driver/C19.lean, `mx`).
//   monitor: independent of the model and of what the connection objects claim — the harness keeps its own
//   record of when and under which key every connection was returned and last used, and the servers
//   record which transactions arrived on which connection.

import (
	"context"
	"crypto/tls"
	"fmt"
	"io"
	"net"
	"sort"
	"strconv"
	"strings"
	"sync"
	"sync/atomic"
	"testing"
	"time"

	"github.com/emersion/go-message/textproto"
	"github.com/emersion/go-smtp"
	"github.com/foxcpp/go-mockdns"
	"github.com/foxcpp/maddy/framework/buffer"
	"github.com/foxcpp/maddy/framework/config"
	"github.com/foxcpp/maddy/framework/log"
	"github.com/foxcpp/maddy/framework/module"
	"github.com/foxcpp/maddy/internal/limits"
	"github.com/foxcpp/maddy/internal/smtpconn/pool"
	"github.com/foxcpp/maddy/internal/verifshim/vcoop"
	"github.com/foxcpp/maddy/internal/verifshim/vh"
)

// ---------------------------------------------------------------- scripted next hops

type c19mxSess struct {
	be      *c19mxBackend
	remote  string
	conn    *smtp.Conn
	closed  bool
	claimed bool // matched with a connection object of the client side
	rsets   int
	rcpts   []string
	// go-smtp resets the session once more after every DATA, after the reply went out (so possibly while the
	// harness is already at the next operation): that call is not a RSET command
	afterData bool
}

type c19mxBackend struct {
	mu       sync.Mutex
	dom      int
	sessions []*c19mxSess
	// the next RSET that arrives is not answered until the harness says so (a slow next hop): holdHit is closed
	// when it arrives, the answer is sent when holdGo is closed
	holdArmed bool
	holdHit   chan struct{}
	holdGo    chan struct{}
}

func (b *c19mxBackend) arm() (hit, rel chan struct{}) {
	b.mu.Lock()
	defer b.mu.Unlock()
	b.holdArmed, b.holdHit, b.holdGo = true, make(chan struct{}), make(chan struct{})
	return b.holdHit, b.holdGo
}

func (b *c19mxBackend) disarm() {
	b.mu.Lock()
	b.holdArmed = false
	b.mu.Unlock()
}

func (b *c19mxBackend) NewSession(c *smtp.Conn) (smtp.Session, error) {
	b.mu.Lock()
	defer b.mu.Unlock()
	s := &c19mxSess{be: b, remote: c.Conn().RemoteAddr().String(), conn: c}
	b.sessions = append(b.sessions, s)
	return s, nil
}

func (s *c19mxSess) Reset() {
	s.be.mu.Lock()
	if s.afterData {
		s.afterData = false
		s.be.mu.Unlock()
		return
	}
	s.rsets++
	armed, hit, rel := s.be.holdArmed, s.be.holdHit, s.be.holdGo
	s.be.holdArmed = false
	s.be.mu.Unlock()
	if armed {
		close(hit)
		<-rel
	}
}

func (s *c19mxSess) Logout() error {
	s.be.mu.Lock()
	s.closed = true
	s.be.mu.Unlock()
	return nil
}

func (s *c19mxSess) Mail(string, *smtp.MailOptions) error { return nil }

func (s *c19mxSess) Rcpt(to string, _ *smtp.RcptOptions) error {
	s.be.mu.Lock()
	s.rcpts = append(s.rcpts, to)
	s.be.mu.Unlock()
	return nil
}

func (s *c19mxSess) Data(r io.Reader) error {
	_, err := io.Copy(io.Discard, r)
	s.be.mu.Lock()
	s.afterData = true
	s.be.mu.Unlock()
	return err
}

type c19mxEnv struct {
	bes   []*c19mxBackend
	srvs  []*smtp.Server
	addrs []string
}

const c19mxDomains = 3

func c19mxDomain(k int) string { return "d" + strconv.Itoa(k) + ".invalid" }

func c19mxStart() (*c19mxEnv, error) {
	e := &c19mxEnv{}
	for k := 0; k < c19mxDomains; k++ {
		l, err := net.Listen("tcp", "127.0.0.1:0")
		if err != nil {
			e.stop()
			return nil, err
		}
		be := &c19mxBackend{dom: k}
		srv := smtp.NewServer(be)
		srv.Domain = "mx." + c19mxDomain(k)
		srv.AllowInsecureAuth = true
		go srv.Serve(l)
		e.bes, e.srvs, e.addrs = append(e.bes, be), append(e.srvs, srv), append(e.addrs, l.Addr().String())
	}
	return e, nil
}

func (e *c19mxEnv) stop() {
	for _, s := range e.srvs {
		s.Close()
	}
}

func (e *c19mxEnv) reset() {
	for _, b := range e.bes {
		b.mu.Lock()
		b.sessions = nil
		b.mu.Unlock()
	}
}

// dial: every MX host name of domain k leads to server k.
func (e *c19mxEnv) dial(ctx context.Context, network, addr string) (net.Conn, error) {
	host, _, err := net.SplitHostPort(addr)
	if err != nil {
		return nil, err
	}
	host = strings.TrimSuffix(host, ".")
	for k := range e.addrs {
		if host == "mx."+c19mxDomain(k) {
			var d net.Dialer
			return d.DialContext(ctx, "tcp", e.addrs[k])
		}
	}
	return nil, fmt.Errorf("c19: no such host %q", host)
}

func (e *c19mxEnv) find(local string) *c19mxSess {
	for _, b := range e.bes {
		b.mu.Lock()
		for _, s := range b.sessions {
			// (the system hands the local port of a closed connection out again)
			if s.remote == local && !s.claimed && !s.closed {
				s.claimed = true
				b.mu.Unlock()
				return s
			}
		}
		b.mu.Unlock()
	}
	return nil
}

func (s *c19mxSess) isClosed() bool {
	s.be.mu.Lock()
	defer s.be.mu.Unlock()
	return s.closed
}

// c19mxCtx is the context of one delivery whose end the history decides (op x<k>): cancelled, or — when it carries
// a deadline — timed out.  The deadline is far away and never fires by itself.
type c19mxCtx struct {
	mu       sync.Mutex
	done     chan struct{}
	err      error
	deadline bool
}

var c19mxFar = time.Unix(1<<36, 0)

func (c *c19mxCtx) Deadline() (time.Time, bool) {
	if c.deadline {
		return c19mxFar, true
	}
	return time.Time{}, false
}
func (c *c19mxCtx) Done() <-chan struct{} { return c.done }
func (c *c19mxCtx) Err() error {
	c.mu.Lock()
	defer c.mu.Unlock()
	return c.err
}
func (c *c19mxCtx) Value(key interface{}) interface{} { return nil }
func (c *c19mxCtx) fire() {
	c.mu.Lock()
	defer c.mu.Unlock()
	if c.err != nil {
		return
	}
	c.err = context.Canceled
	if c.deadline {
		c.err = context.DeadlineExceeded
	}
	close(c.done)
}

// how long a delivery whose context is done gets to come back while the answer to its RSET probe is still
// withheld (the unchanged code never does: Get waits for the answer; the verdict on it does not depend on this)
const c19mxGrace = 25 * time.Millisecond

// ---------------------------------------------------------------- one case

type c19mxCase struct {
	maxKeys, maxConns int
	maxLife, stale    int64
	ops               []string // o<k> x<k> r<j> c a t<d> b<id> k s
	style             string
}

type c19mxConn struct {
	id       int
	c        *mxConn
	sess     *c19mxSess
	held     bool
	broken   bool  // the harness made the server drop it
	retKey   int   // the monitor's own records: key and clock of the last Return, clock of the last use
	retAt    int64 //
	usedAt   int64 //
	useStamp time.Time
}

type c19mxOpen struct {
	d module.Delivery
	k int
	c *c19mxConn
}

var c19mxSlow int32 // cases in which connections stayed open past the patience

// c19mxAsync: what the hooks in the instrumented code report while a case runs (from any goroutine): the calls of
// mxConn.Close() per connection object, and panics of goroutines the pool started for itself (`go conn.Close()`).
var c19mxAsync struct {
	sync.Mutex
	closes map[*mxConn]int
	panics []string
}

func c19mxHooks() {
	vcoop.SetHooks(vcoop.Hooks{
		Panic: func(v interface{}) {
			c19mxAsync.Lock()
			c19mxAsync.panics = append(c19mxAsync.panics, fmt.Sprint(v))
			c19mxAsync.Unlock()
		},
		Event: func(kind string, arg interface{}) {
			if mc, ok := arg.(*mxConn); ok && kind == "mxclose" {
				c19mxAsync.Lock()
				if c19mxAsync.closes != nil {
					c19mxAsync.closes[mc]++
				}
				c19mxAsync.Unlock()
			}
		},
	})
}

// c19mxRec buffers the output of one case: it is written out only when the case came back (the code under
// test may block for ever; the goroutine of such a case is abandoned and must not write any more).
type c19mxRec struct {
	emit []func(*vh.Out)
	at   atomic.Value // the operation being executed (string)
}

func (r *c19mxRec) Stat(k string) { r.emit = append(r.emit, func(o *vh.Out) { o.Stat(k) }) }
func (r *c19mxRec) Corr(op, obs string) {
	r.emit = append(r.emit, func(o *vh.Out) { o.Corr(op, obs) })
}
func (r *c19mxRec) Violation(sig, op, detail string) {
	r.emit = append(r.emit, func(o *vh.Out) { o.Violation(sig, op, detail) })
}

var c19mxStuck int32 // cases that did not come back

// c19mxGuard runs one case with a watchdog.
func c19mxGuard(out *vh.Out, op string, f func(rec *c19mxRec)) {
	if atomic.LoadInt32(&c19mxStuck) >= 3 {
		out.Stat("mx.case skipped: the code under test blocked in 3 cases")
		return
	}
	patience := 30 * time.Second
	if atomic.LoadInt32(&c19mxStuck) >= 1 {
		patience = 3 * time.Second
	}
	rec := &c19mxRec{}
	rec.at.Store("-")
	done := make(chan struct{})
	vcoop.SetManual(true, time.Now().Truncate(time.Second))
	go func() {
		defer close(done)
		f(rec)
	}()
	select {
	case <-done:
		for _, e := range rec.emit {
			e(out)
		}
	case <-time.After(patience):
		atomic.AddInt32(&c19mxStuck, 1)
		out.Violation("C19/blocked", op, fmt.Sprintf("operation %v of the history did not return within %v", rec.at.Load(), patience))
		out.Stat("mx.case abandoned: blocked")
	}
	vcoop.SetManual(false, time.Time{})
}

// The target runs with a real limits.Group: `all concurrency 64`, `ip concurrency 64`, `source concurrency 1` (no
// destination limit: with one, a delivery whose context ends during the probe of pool.Get — op x<k> — is refused or
// not by the toss of a select between a free slot and the dead context).  Every delivery has a sender domain of its own, so ordinary deliveries never wait for a
// limit.  The one slot of the sender domain c19mxBusy is taken by the harness for the whole case: a Start with a
// sender of that domain waits for the source limit and is refused when its context ends (op r<j>, j/4 = 0); for
// j/4 = 1 the harness fills the global limit for the duration of the Start instead.
const (
	c19mxGlobal = 64
	c19mxBusy   = "busy.invalid"
)

var c19mxIP = net.IPv4(127, 0, 0, 1)

func c19mxLimits() *limits.Group {
	m, err := limits.New("limits", "verif_c19", nil, nil)
	if err != nil {
		panic(err)
	}
	g := m.(*limits.Group)
	node := func(scope, n string) config.Node {
		return config.Node{Name: scope, Args: []string{"concurrency", n}}
	}
	if err := g.Init(config.NewMap(nil, config.Node{Children: []config.Node{
		node("all", strconv.Itoa(c19mxGlobal)), node("ip", strconv.Itoa(c19mxGlobal)), node("source", "1"),
	}})); err != nil {
		panic(err)
	}
	if err := g.TakeMsg(context.Background(), c19mxIP, c19mxBusy); err != nil {
		panic(err)
	}
	return g
}

// c19mxShutBlocked counts the cases in which Target.Close did not come back.
var c19mxShutBlocked int32

// c19mxClose: the liveness obligation of the shutdown.  Every operation of the history has returned, every delivery
// has been ended (Commit / Abort) and no next hop withholds an answer: Target.Close() has nothing left to wait
// for and must come back.  The real-time guard is generous (10 s for something that takes microseconds; shorter
// once the tree under test has shown that it blocks for good).  A Close that does not come back is abandoned.
func c19mxClose(tgt *Target) (returned bool, panicked string, patience time.Duration) {
	patience = 10 * time.Second
	if n := atomic.LoadInt32(&c19mxShutBlocked); n >= 3 {
		patience = 60 * time.Millisecond
	} else if n >= 1 {
		patience = time.Second
	}
	done := make(chan string, 1)
	go func() {
		defer func() {
			if p := recover(); p != nil {
				done <- fmt.Sprint(p)
				return
			}
			done <- ""
		}()
		tgt.Close()
	}()
	select {
	case p := <-done:
		return true, p, patience
	case <-time.After(patience):
		atomic.AddInt32(&c19mxShutBlocked, 1)
		return false, "", patience
	}
}

func c19mxTarget(env *c19mxEnv, cs *c19mxCase) *Target {
	zones := map[string]mockdns.Zone{}
	for k := 0; k < c19mxDomains; k++ {
		zones[c19mxDomain(k)+"."] = mockdns.Zone{MX: []net.MX{{Host: "mx." + c19mxDomain(k) + ".", Pref: 10}}}
		zones["mx."+c19mxDomain(k)+"."] = mockdns.Zone{A: []string{"127.0.0.1"}}
	}
	return &Target{
		name:           "remote",
		hostname:       "mx.example.com",
		resolver:       &mockdns.Resolver{Zones: zones},
		dialer:         env.dial,
		tlsConfig:      &tls.Config{},
		Log:            log.Logger{Out: log.NopOutput{}},
		limits:         c19mxLimits(),
		connReuseLimit: 1000,
		pool: pool.New(pool.Config{
			MaxKeys:             cs.maxKeys,
			MaxConnsPerKey:      cs.maxConns,
			MaxConnLifetimeSec:  cs.maxLife,
			StaleKeyLifetimeSec: cs.stale,
		}),
	}
}

func c19mxOp(cs *c19mxCase) string {
	return fmt.Sprintf("C19 mx %d %d %d %d %s", cs.maxKeys, cs.maxConns, cs.maxLife, cs.stale, strings.Join(cs.ops, ","))
}

func c19mxRun(env *c19mxEnv, cs *c19mxCase, out *vh.Out) {
	c19mxGuard(out, c19mxOp(cs), func(rec *c19mxRec) { c19mxRun1(env, cs, rec) })
}

func c19mxRun1(env *c19mxEnv, cs *c19mxCase, out *c19mxRec) {
	env.reset()
	c19mxAsync.Lock()
	c19mxAsync.closes, c19mxAsync.panics = map[*mxConn]int{}, nil
	c19mxAsync.Unlock()
	tgt := c19mxTarget(env, cs)
	ctx := context.Background()
	op := c19mxOp(cs)

	viol := map[string]string{}
	violate := func(sig, detail string) {
		if _, ok := viol[sig]; !ok {
			viol[sig] = detail
		}
	}
	// closed exactly once / no crash, from the hooks: Close() calls per connection object, panics of pool goroutines
	async := func(conns []*c19mxConn) {
		c19mxAsync.Lock()
		defer c19mxAsync.Unlock()
		for _, m := range conns {
			if n := c19mxAsync.closes[m.c]; n > 1 {
				violate("C19/closed-twice", fmt.Sprintf("connection %d (last returned under %s): Close() was called %d times (conn_max_idle_count %d)", m.id, c19mxDomain(m.retKey), n, cs.maxConns))
			}
		}
		if len(c19mxAsync.panics) > 0 {
			violate("C19/panic", "a goroutine started by the pool panicked: "+c19mxAsync.panics[0])
		}
	}
	var (
		conns []*c19mxConn
		byPtr = map[*mxConn]*c19mxConn{}
		open  []*c19mxOpen
		clock int64
		shut  bool
		toks  []string
		nmsg  int
		// shutdown requested and Target.Close() did not come back
		shutBlocked bool
		refused     int
	)
	shutdown := func() {
		ok, pan, patience := c19mxClose(tgt)
		shut = true
		if pan != "" {
			violate("C19/panic", "Target.Close panicked: "+pan)
		}
		if !ok {
			shutBlocked = true
			violate("C19/shutdown-blocked", fmt.Sprintf("Target.Close() did not return within %v (10 s in the first such case of the run): every operation of the history had returned, no delivery was open (%d committed/aborted, %d Start(s) refused by the limits), no next hop was withholding an answer",
				patience, nmsg-refused-len(open), refused))
		}
	}
	step := func(o string) {
		switch o[0] {
		case 'o', 'x':
			k, _ := strconv.Atoi(o[1:])
			dom := c19mxDomain(k)
			nmsg++
			var ctx context.Context = ctx
			var cctx *c19mxCtx
			if o[0] == 'x' {
				cctx = &c19mxCtx{done: make(chan struct{}), deadline: nmsg%2 == 1}
				ctx = cctx
			}
			d, err := tgt.Start(ctx, &module.MsgMetadata{ID: "c19-" + strconv.Itoa(nmsg)}, "sender@s"+strconv.Itoa(nmsg)+".example.org")
			if err != nil {
				toks = append(toks, "E")
				out.Stat("mx.Start failed (not asked for)")
				return
			}
			rcpt := "rcpt" + strconv.Itoa(nmsg) + "@" + dom
			if cctx == nil {
				err = d.AddRcpt(ctx, rcpt, smtp.RcptOptions{})
			} else {
				// x<k>: the next hop is slow to answer the RSET by which pool.Get probes a pooled connection, and the
				// context of the delivery is cancelled / times out while Get waits for the answer.  (No pooled
				// connection is probed: an ordinary delivery.)
				hit, rel := env.bes[k].arm()
				res := make(chan interface{}, 1)
				go func() {
					defer func() {
						if p := recover(); p != nil {
							res <- fmt.Sprintf("panic: %v", p)
						}
					}()
					res <- d.AddRcpt(ctx, rcpt, smtp.RcptOptions{})
				}()
				var got interface{}
				select {
				case got = <-res:
					out.Stat("mx.x: no pooled connection was probed")
				case <-hit:
					cctx.fire()
					out.Stat("mx.x: context done while Get waits for the answer to its probe")
					early := false
					select {
					case got = <-res:
						early = true
						out.Stat("mx.x: the delivery came back while the probe was in flight")
					case <-time.After(c19mxGrace):
					}
					close(rel)
					if !early {
						got = <-res
					}
				}
				env.bes[k].disarm()
				switch g := got.(type) {
				case string:
					panic(g)
				case error:
					err = g
				}
			}
			if err != nil {
				toks = append(toks, "E")
				out.Stat("mx.delivery failed: " + map[bool]string{true: "context done", false: "other"}[cctx != nil && cctx.Err() != nil])
				d.Abort(ctx)
				return
			}
			mc := d.(*remoteDelivery).connections[dom]
			if mc == nil {
				toks = append(toks, "E")
				d.Abort(ctx)
				return
			}
			m := byPtr[mc]
			if m == nil {
				m = &c19mxConn{id: len(conns), c: mc, retKey: -1}
				if la := mc.LocalAddr(); la != nil {
					m.sess = env.find(la.String())
				}
				conns = append(conns, m)
				byPtr[mc] = m
				toks = append(toks, "n"+strconv.Itoa(m.id))
				if m.sess == nil {
					violate("C19/get-failed", fmt.Sprintf("delivery to %s got connection %d which no server knows", dom, m.id))
				} else if m.sess.be.dom != k {
					violate("C19/handed-out-wrong-key", fmt.Sprintf("the new connection %d for %s leads to the server of %s", m.id, dom, c19mxDomain(m.sess.be.dom)))
				}
			} else {
				// ---- a pooled connection was handed out: the property's hand-out clauses ----
				toks = append(toks, "p"+strconv.Itoa(m.id))
				out.Stat("mx.pooled hand-out")
				if m.held {
					violate("C19/two-owners", fmt.Sprintf("connection %d handed to a delivery while another delivery uses it", m.id))
				}
				if m.broken {
					violate("C19/handed-out-unusable", fmt.Sprintf("connection %d handed out after the server had dropped it", m.id))
				} else if m.sess != nil && m.sess.isClosed() {
					violate("C19/handed-out-closed", fmt.Sprintf("connection %d handed out after it was closed", m.id))
				}
				if m.retKey != k || mc.domain != dom {
					violate("C19/handed-out-wrong-key", fmt.Sprintf("delivery to %s was handed connection %d which was last returned under %s (mxConn.domain %s)",
						dom, m.id, c19mxDomain(m.retKey), mc.domain))
				}
				if clock-m.retAt > cs.maxLife {
					violate("C19/handed-out-idle-too-long", fmt.Sprintf("connection %d returned at %d handed out at %d, conn_max_idle_time %d", m.id, m.retAt, clock, cs.maxLife))
				}
				if clock-m.usedAt > cs.maxLife {
					violate("C19/handed-out-expired", fmt.Sprintf("connection %d last used at %d (returned at %d) handed out at %d, conn_max_idle_time %d",
						m.id, m.usedAt, m.retAt, clock, cs.maxLife))
				}
				if shut {
					violate("C19/handed-out-after-shutdown", fmt.Sprintf("connection %d handed out after the target was closed", m.id))
				}
			}
			hdr := textproto.Header{}
			hdr.Add("Subject", "c19")
			if err := d.Body(ctx, hdr, buffer.MemoryBuffer{Slice: []byte("hello\r\n")}); err != nil {
				toks[len(toks)-1] += "!"
			}
			m.held, m.usedAt, m.useStamp = true, clock, mc.LastUseAt()
			open = append(open, &c19mxOpen{d: d, k: k, c: m})
		case 'r':
			// a Start that the message limits refuse: the context of the caller ends (j%4: cancelled before the call,
			// deadline already past, cancelled while Start waits, timed out while Start waits) while TakeMsg waits for
			// the source limit (j/4 = 0: the slot of the sender's domain is taken) or for the global limit (j/4 = 1:
			// filled by the harness for the duration of the call).  Nothing is delivered, nothing touches the pool.
			j, _ := strconv.Atoi(o[1:])
			nmsg++
			refused++
			sender := "sender@" + c19mxBusy
			var fills []string
			if j/4%2 == 1 {
				sender = "sender@s" + strconv.Itoa(nmsg) + ".example.org"
				for i := 0; i < c19mxGlobal-1-len(open); i++ {
					fctx, fcancel := context.WithTimeout(ctx, time.Second)
					src := "fill" + strconv.Itoa(i) + ".invalid"
					err := tgt.limits.TakeMsg(fctx, c19mxIP, src)
					fcancel()
					if err != nil {
						break // (a changed tree that holds more slots than deliveries are open)
					}
					fills = append(fills, src)
				}
			}
			var rctx context.Context
			var cancel context.CancelFunc
			switch j % 4 {
			case 0:
				rctx, cancel = context.WithCancel(ctx)
				cancel()
			case 1:
				rctx, cancel = context.WithDeadline(ctx, time.Now().Add(-time.Second))
			case 2:
				rctx, cancel = context.WithCancel(ctx)
				tm := time.AfterFunc(2*time.Millisecond, cancel)
				defer tm.Stop()
			default:
				rctx, cancel = context.WithTimeout(ctx, 2*time.Millisecond)
			}
			d, err := tgt.Start(rctx, &module.MsgMetadata{ID: "c19-" + strconv.Itoa(nmsg)}, sender)
			cancel()
			for _, src := range fills {
				tgt.limits.ReleaseMsg(c19mxIP, src)
			}
			if err == nil {
				// (not the unchanged code: the limit was not enforced) the delivery is ended at once
				toks = append(toks, "R!")
				out.Stat("mx.Start was to be refused by the limits and was accepted")
				d.Abort(ctx)
				return
			}
			toks = append(toks, "R")
			out.Stat(fmt.Sprintf("mx.Start refused by the %s limit, context %s", []string{"source", "global"}[j/4%2],
				[]string{"cancelled before", "past its deadline before", "cancelled during", "timed out during"}[j%4]))
			if len(open) > 0 {
				out.Stat("mx.Start refused while other deliveries are open")
			}
			if !shut {
				pooledNow := 0
				for _, m := range conns {
					if !m.held && m.sess != nil && !m.sess.isClosed() {
						pooledNow++
					}
				}
				if pooledNow > 0 {
					out.Stat("mx.Start refused while connections sit in the pool")
				}
			}
		case 'c', 'a':
			if len(open) == 0 {
				toks = append(toks, "-")
				return
			}
			od := open[0]
			open = open[1:]
			od.c.held, od.c.retKey, od.c.retAt = false, od.k, clock
			if o[0] == 'a' {
				od.d.Abort(ctx)
				out.Stat("mx.delivery aborted after its message was sent")
			} else {
				od.d.Commit(ctx)
			}
			toks = append(toks, o[:1])
			// nothing but MAIL/RCPT/DATA of a delivery moves the idle stamp of a connection (the model: only `use`)
			if st := od.c.c.LastUseAt(); !st.Equal(od.c.useStamp) {
				violate("C19/usable-moved-idle-stamp", fmt.Sprintf("connection %d: LastUseAt moved by %v while the delivery ended (Usable / Return), no command of a transaction was sent",
					od.c.id, st.Sub(od.c.useStamp)))
			}
		case 't':
			d, _ := strconv.Atoi(o[1:])
			vcoop.Advance(int64(d))
			clock += int64(d)
			toks = append(toks, "t")
		case 'b':
			id, _ := strconv.Atoi(o[1:])
			if id < len(conns) && !conns[id].held && conns[id].sess != nil {
				conns[id].broken = true
				conns[id].sess.conn.Close()
				toks = append(toks, "b")
			} else {
				toks = append(toks, "-")
			}
		case 'k':
			tgt.pool.CleanUp(ctx)
			toks = append(toks, "k")
		case 's':
			if !shut {
				shutdown()
			}
			toks = append(toks, "s")
		}
	}
	panicked := false
	func() {
		defer func() {
			if p := recover(); p != nil {
				panicked = true
				violate("C19/panic", fmt.Sprintf("the code under test panicked: %v", p))
			}
		}()
		for i, o := range cs.ops {
			out.at.Store(fmt.Sprintf("%d (%s)", i, o))
			step(o)
		}
	}()
	if panicked {
		// the pool may be left with its lock held: record what was seen and leave the target alone
		time.Sleep(5 * time.Millisecond)
		async(conns)
		sigs := make([]string, 0, len(viol))
		for s := range viol {
			sigs = append(sigs, s)
		}
		sort.Strings(sigs)
		for _, s := range sigs {
			out.Violation(s, op, viol[s])
		}
		out.Stat("mx.case abandoned after a panic")
		return
	}
	// ---- quiescence: the `go conn.Close()` goroutines of the pool finish; what is open now stays open ----
	patience := 10 * time.Second
	if n := atomic.LoadInt32(&c19mxSlow); n >= 6 {
		// the tree under test loses connections: the verdict is on record several times over, with generous patience
		patience = 100 * time.Millisecond
	} else if n >= 2 {
		patience = time.Second
	}
	if shutBlocked {
		// pool.Close() was never reached: nobody is going to close what sits in the pool
		patience = 30 * time.Millisecond
	}
	deadline := time.Now().Add(patience)
	for {
		pending := false
		for _, m := range conns {
			if !m.held && m.sess != nil && !m.sess.isClosed() && shut {
				pending = true
			}
		}
		if !pending || time.Now().After(deadline) {
			if pending && !shutBlocked {
				atomic.AddInt32(&c19mxSlow, 1)
			}
			break
		}
		time.Sleep(2 * time.Millisecond)
	}
	if !shut {
		// the op line has no shutdown: let the closers of the last operations finish (bounded), then look
		time.Sleep(20 * time.Millisecond)
	}
	var closed []int
	for _, m := range conns {
		if m.sess != nil && m.sess.isClosed() {
			closed = append(closed, m.id)
		} else if shut && !m.held {
			violate("C19/conn-lost", fmt.Sprintf("connection %d (last returned under %s at %d) is still open after the target was closed: neither handed out nor closed",
				m.id, c19mxDomain(m.retKey), m.retAt))
			if m.retKey >= 0 {
				// what the next hop saw: a connection that was given back to the live pool, no further transaction, and after
				// the shutdown of the target no QUIT and no close
				violate("C19/returned-conn-never-closed", fmt.Sprintf("connection %d was returned to the live pool (under %s at %d) and after the shutdown of the target (Target.Close returned: %v) the server has seen neither QUIT nor close on it",
					m.id, c19mxDomain(m.retKey), m.retAt, !shutBlocked))
			}
		}
	}
	sort.Ints(closed)
	async(conns)
	// what the servers saw: every transaction on the connection of its own domain
	for _, b := range env.bes {
		b.mu.Lock()
		for _, s := range b.sessions {
			for _, r := range s.rcpts {
				if !strings.HasSuffix(r, "@"+c19mxDomain(b.dom)) {
					violate("C19/handed-out-wrong-key", fmt.Sprintf("the message for %s was sent over a connection to the server of %s", r, c19mxDomain(b.dom)))
				}
			}
		}
		b.mu.Unlock()
	}
	obs := strings.Join(toks, " ") + fmt.Sprintf(" | X=%s F=%d L=-", c19mxInts(closed), len(conns))

	sigs := make([]string, 0, len(viol))
	for s := range viol {
		sigs = append(sigs, s)
	}
	sort.Strings(sigs)
	for _, s := range sigs {
		out.Violation(s, op, viol[s])
	}
	out.Corr(op, obs)
	out.Stat("mx.style " + cs.style)
	nopenNow, maxOpen := map[int]int{}, 0
	for _, o := range cs.ops {
		switch o[0] {
		case 'o', 'x':
			k, _ := strconv.Atoi(o[1:])
			nopenNow[k]++
			if nopenNow[k] > maxOpen {
				maxOpen = nopenNow[k]
			}
		case 'c', 'a':
			for k := range nopenNow { // (an approximation: the oldest open delivery ends)
				if nopenNow[k] > 0 {
					nopenNow[k]--
					break
				}
			}
		}
	}
	if maxOpen > cs.maxConns {
		out.Stat("mx.more overlapping deliveries to one domain than conn_max_idle_count")
	}
	out.Stat(fmt.Sprintf("mx.connections %d", len(conns)))
	out.Stat(fmt.Sprintf("mx.maxKeys %d", cs.maxKeys))
	for _, tk := range toks {
		switch tk[0] {
		case 'n':
			out.Stat("mx.delivery on a new connection")
		case 'p':
			out.Stat("mx.delivery on a pooled connection")
		case 'E':
			out.Stat("mx.delivery failed")
		case 'R':
			out.Stat("mx.Start refused by the limits")
		case 'b':
			out.Stat("mx.server drops an idle connection")
		}
	}
	// clean up whatever the case left behind
	for _, od := range open {
		od.d.Abort(ctx)
	}
	if !shut && !shutBlocked {
		c19mxClose(tgt)
	}
}

func c19mxInts(l []int) string {
	if len(l) == 0 {
		return "-"
	}
	s := make([]string, len(l))
	for i, v := range l {
		s[i] = strconv.Itoa(v)
	}
	return strings.Join(s, ",")
}

// ---------------------------------------------------------------- generators

func c19mxGen(r *vh.Rng) *c19mxCase {
	cs := &c19mxCase{}
	cs.maxLife = []int64{1, 2, 3, 5, 150}[r.Intn(5)]
	L := int(cs.maxLife)
	cs.maxConns = []int{0, 1, 2, 2, 3}[r.Intn(5)]
	cs.maxKeys = []int{1, 2, 2, 5000}[r.Intn(4)]
	cs.stale = int64([]int{0, L, L + 1, 2 * L, 2*L + 1, 300}[r.Intn(6)])
	nd := 1 + r.Intn(c19mxDomains)
	tick := func() string {
		return "t" + strconv.Itoa([]int{1, 1, 2, L, L, L + 1, L - 1 + 2*(r.Intn(2)), L/2 + 1, 2*L + 1}[r.Intn(9)])
	}
	nopen, nconn := 0, 0
	emitOpen := func() {
		cs.ops = append(cs.ops, "o"+strconv.Itoa(r.Intn(nd)))
		nopen++
		nconn++
	}
	emitCommit := func() {
		if nopen > 0 {
			cs.ops = append(cs.ops, "c")
			nopen--
		}
	}
	style := r.Intn(3)
	if r.Chance(14) {
		style = 3
	}
	if r.Chance(16) {
		style = 4
	}
	switch style {
	case 4:
		// more overlapping deliveries to one destination than conn_max_idle_count: when they end, the idle bound is hit
		// on Return — the surplus connections are closed by the pool, once each, by nobody else; the kept ones are
		// handed out again
		cs.style = "overflow"
		k := r.Intn(nd)
		n := cs.maxConns + 1 + r.Intn(3)
		for i := 0; i < n; i++ {
			cs.ops = append(cs.ops, "o"+strconv.Itoa(k))
			nopen++
			if r.Chance(15) {
				cs.ops = append(cs.ops, "o"+strconv.Itoa(r.Intn(nd)))
				nopen++
			}
		}
		if r.Chance(30) {
			cs.ops = append(cs.ops, "t1")
		}
		for nopen > 0 {
			emitCommit()
		}
		if r.Chance(70) {
			for i, m := 0, 1+r.Intn(n); i < m; i++ {
				cs.ops = append(cs.ops, "o"+strconv.Itoa(k))
				nopen++
			}
			for nopen > 0 {
				emitCommit()
			}
		}
		if r.Chance(30) {
			cs.ops = append(cs.ops, "k")
		}
	case 3:
		// the context of a delivery is cancelled / times out while pool.Get waits for the answer of a slow next hop to
		// the RSET by which it probes a pooled connection (some of the pooled ones are past their lifetime or were
		// dropped by the server): whatever the delivery is told, the connection is handed out, pooled, or closed
		cs.style = "cancel"
		if cs.maxConns == 0 {
			cs.maxConns = 1 + r.Intn(3)
		}
		k := r.Intn(nd)
		n := 1 + r.Intn(cs.maxConns)
		for i := 0; i < n; i++ {
			cs.ops = append(cs.ops, "o"+strconv.Itoa(k))
		}
		if r.Chance(30) {
			cs.ops = append(cs.ops, "t"+strconv.Itoa(1+r.Intn(L)))
		}
		for i := 0; i < n; i++ {
			cs.ops = append(cs.ops, "c")
		}
		if r.Chance(25) {
			cs.ops = append(cs.ops, "b"+strconv.Itoa(r.Intn(n)))
		}
		if r.Chance(40) {
			cs.ops = append(cs.ops, "t"+strconv.Itoa([]int{1, L, L, L + 1}[r.Intn(4)]))
		}
		cs.ops = append(cs.ops, "x"+strconv.Itoa(k))
		nopen++
		for i := r.Intn(3); i > 0; i-- {
			cs.ops = append(cs.ops, r.Pick("o", "o", "x")+strconv.Itoa(k))
			nopen++
			if r.Chance(40) {
				emitCommit()
			}
		}
		if r.Chance(30) {
			cs.ops = append(cs.ops, "k")
		}
		for nopen > 0 {
			emitCommit()
		}
	case 0:
		// a connection is returned well after its last use, then asked for inside the lifetime of its bucket:
		// the bucket is alive, the connection is (or is not) over its idle lifetime
		cs.style = "late-return"
		if cs.maxConns == 0 {
			cs.maxConns = 2
		}
		k := r.Intn(nd)
		n := 1 + r.Intn(cs.maxConns)
		a := 1 + r.Intn(L+1)
		b := r.Intn(L + 1)
		for i := 0; i < n; i++ {
			cs.ops = append(cs.ops, "o"+strconv.Itoa(k))
			if r.Chance(40) {
				cs.ops = append(cs.ops, "t"+strconv.Itoa(1+r.Intn(L)))
			}
		}
		cs.ops = append(cs.ops, "t"+strconv.Itoa(a))
		for i := 0; i < n; i++ {
			cs.ops = append(cs.ops, "c")
		}
		if b > 0 {
			cs.ops = append(cs.ops, "t"+strconv.Itoa(b))
		}
		for i := 0; i < n+r.Intn(2); i++ {
			cs.ops = append(cs.ops, "o"+strconv.Itoa(k))
			nopen++
		}
		for nopen > 0 {
			if r.Chance(30) {
				cs.ops = append(cs.ops, tick())
			}
			emitCommit()
		}
	case 1:
		// more domains than keys: Return on a full map, then every domain again inside the lifetime
		cs.style = "full-map"
		cs.maxKeys = 1 + r.Intn(2)
		if cs.maxConns == 0 {
			cs.maxConns = 2
		}
		nd = c19mxDomains
		cs.stale = int64([]int{2 * L, 300}[r.Intn(2)])
		for _, k := range []int{0, 1, 2} {
			n := 1 + r.Intn(cs.maxConns)
			for i := 0; i < n; i++ {
				cs.ops = append(cs.ops, "o"+strconv.Itoa(k))
			}
			for i := 0; i < n; i++ {
				cs.ops = append(cs.ops, "c")
			}
		}
		if r.Chance(30) {
			cs.ops = append(cs.ops, "t1")
		}
		for i := 0; i < 3+r.Intn(4); i++ {
			cs.ops = append(cs.ops, "o"+strconv.Itoa(r.Intn(nd)))
			nopen++
			if r.Chance(50) {
				emitCommit()
			}
		}
		for nopen > 0 {
			emitCommit()
		}
	default:
		cs.style = "random"
		n := 5 + r.Intn(12)
		for i := 0; i < n; i++ {
			switch x := r.Intn(100); {
			case x < 3:
				cs.ops = append(cs.ops, "x"+strconv.Itoa(r.Intn(nd)))
				nopen++
				nconn++
			case x < 35:
				emitOpen()
			case x < 65:
				emitCommit()
			case x < 85:
				cs.ops = append(cs.ops, tick())
			case x < 92:
				if nconn > 0 {
					cs.ops = append(cs.ops, "b"+strconv.Itoa(r.Intn(nconn)))
				}
			default:
				cs.ops = append(cs.ops, "k")
			}
		}
		for nopen > 0 {
			emitCommit()
		}
	}
	// some deliveries are aborted instead of committed (remoteDelivery.Abort: the same duties towards the pool)
	for i, o := range cs.ops {
		if o == "c" && r.Chance(8) {
			cs.ops[i] = "a"
		}
	}
	// Starts refused by the message limits, at any point of the history (also as the very last thing before shutdown)
	if r.Chance(30) {
		for i, m := 0, 1+r.Intn(2); i < m; i++ {
			at := r.Intn(len(cs.ops) + 1)
			if r.Chance(40) {
				at = len(cs.ops)
			}
			cs.ops = append(cs.ops[:at:at], append([]string{"r" + strconv.Itoa(r.Intn(8))}, cs.ops[at:]...)...)
		}
		cs.style += "+refused"
	}
	cs.ops = append(cs.ops, "s")
	return cs
}

func c19mxParse(line string) (*c19mxCase, error) {
	f := strings.Fields(line)
	if len(f) != 7 || f[0] != "C19" || f[1] != "mx" {
		return nil, fmt.Errorf("bad op line")
	}
	cs := &c19mxCase{style: "replay"}
	var err error
	n := func(s string) int {
		v, e := strconv.Atoi(s)
		if e != nil {
			err = e
		}
		return v
	}
	cs.maxKeys, cs.maxConns, cs.maxLife, cs.stale = n(f[2]), n(f[3]), int64(n(f[4])), int64(n(f[5]))
	for _, o := range strings.Split(f[6], ",") {
		if o == "" {
			return nil, fmt.Errorf("empty op")
		}
		switch o[0] {
		case 'o', 'x':
			if k := n(o[1:]); k < 0 || k >= c19mxDomains {
				return nil, fmt.Errorf("no such domain")
			}
		case 't', 'b', 'r':
			n(o[1:])
		case 'c', 'a', 'k', 's':
		default:
			return nil, fmt.Errorf("bad op %q", o)
		}
		cs.ops = append(cs.ops, o)
	}
	return cs, err
}

func TestVerifC19Mx(t *testing.T) {
	out := vh.Open("c19_mx")
	defer out.Close()
	env, err := c19mxStart()
	if err != nil {
		t.Fatal(err)
	}
	defer env.stop()
	c19mxHooks()
	defer vcoop.SetHooks(vcoop.Hooks{})
	if rp := vh.Replay(); rp != nil {
		for _, line := range rp {
			switch {
			case strings.HasPrefix(line, "C19 mx "):
				cs, err := c19mxParse(line)
				if err != nil {
					t.Fatalf("replay: %v: %s", err, line)
				}
				c19mxRun(env, cs, out)
			case strings.HasPrefix(line, "C19 mxusable "):
				c19mxUsable(env, line, out)
			}
		}
		return
	}
	// the usability probe of the real connection type
	for _, l := range []int{1, 5, 150} {
		for _, d := range []int{0, 1, l} {
			c19mxUsable(env, fmt.Sprintf("C19 mxusable %d %d", l, d), out)
		}
	}
	n := vh.N(8000) / 25
	if n < 40 {
		n = 40
	}
	if n > 3000 {
		n = 3000
	}
	for i := 0; i < n; i++ {
		r := vh.NewRng(vh.Seed()*1000033 + 77 + uint64(i))
		c19mxRun(env, c19mxGen(r), out)
	}
}

// c19mxUsable: `C19 mxusable <lifetime> <d>` — a delivery leaves its connection in the pool; d seconds later the
// harness takes it out as a delivery would (pool.Get), one more second passes, and it asks the REAL connection
// whether it is usable, as remoteDelivery.Close does: the answer must not move the idle stamp (in the model
// Usable() cannot: C19_usable_keeps_idle_stamp).
func c19mxUsable(env *c19mxEnv, line string, out *vh.Out) {
	c19mxGuard(out, line, func(rec *c19mxRec) { c19mxUsable1(env, line, rec) })
}

func c19mxUsable1(env *c19mxEnv, line string, out *c19mxRec) {
	f := strings.Fields(line)
	if len(f) != 4 {
		return
	}
	l, _ := strconv.Atoi(f[2])
	d, _ := strconv.Atoi(f[3])
	env.reset()
	tgt := c19mxTarget(env, &c19mxCase{maxKeys: 5000, maxConns: 5, maxLife: int64(l), stale: 300})
	defer tgt.Close()
	ctx := context.Background()
	dom := c19mxDomain(0)
	dl, err := tgt.Start(ctx, &module.MsgMetadata{ID: "c19-u"}, "sender@example.org")
	if err != nil {
		return
	}
	if err := dl.AddRcpt(ctx, "rcpt@"+dom, smtp.RcptOptions{}); err != nil {
		dl.Abort(ctx)
		return
	}
	hdr := textproto.Header{}
	hdr.Add("Subject", "c19")
	dl.Body(ctx, hdr, buffer.MemoryBuffer{Slice: []byte("hello\r\n")})
	dl.Commit(ctx)
	vcoop.Advance(int64(d))
	pc, err := tgt.pool.Get(ctx, dom)
	if err != nil || pc == nil {
		out.Stat("mx.usable probe: nothing pooled")
		return
	}
	mc := pc.(*mxConn)
	vcoop.Advance(1)
	before := mc.LastUseAt()
	ok := mc.Usable()
	after := mc.LastUseAt()
	out.Stat(fmt.Sprintf("mx.usable probe: usable=%v", ok))
	if !after.Equal(before) {
		out.Violation("C19/usable-moved-idle-stamp", line, fmt.Sprintf("mxConn.Usable() = %v moved LastUseAt() by %v: the pool compares the stamp with the idle lifetime after it has called Usable()", ok, after.Sub(before)))
	}
	mc.Close()
}
