package remote

// C05 — outbound mail is only sent over connections that satisfy the security policy.
//
// One case = one HISTORY: a fixed configuration (policies built by the real PolicyGroup.Init
// from a config block, override / relaxed switches, reuse limit), fixed per-domain / per-MX
// facts (scripted go-smtp servers on 127.0.0.1-3 with generated certificate chains, a DNS
// server on loopback with AD control and TLSA RRsets, an injected MTA-STS fetcher) and 1-3
// consecutive messages through ONE real remote.Target (one connection pool).
//
//   op line:  C05 hist <cfg> <dom0> <dom1> <msgs>
//     cfg  = <mtasts><preload><dane><dnssec>.<local: - | <minTLS><minMX>>.<override><relaxed>.<reuseLimit>
//     dom  = <mxAD><sts a|n|t|e>:<mx>[;<mx>]     (MX candidates in preference order)
//     mx   = <srv>.<up>[<fam 6|b|x>].<starttls o|s|h|c>.<cert v|u|w>[<chain 1-6>].<stsMatch>.<aAD>.<tlsaAD>.<tlsa n|e|t|m|u|f|p|i|a>.<reqtls>.<slow TLSA answer>[.<alias>]
//     fam  = address records of the MX host (of the canonical name when it is an alias): none = an A record, 6 = an AAAA
//            record only (IPv6-only host), b = both.  IPv6 addresses are
//            fd00:c05::<n>; the harness's dialer (which stands for the network) carries them to 127.0.0.<n>.
//     chain = shape of the certificate chain the server presents: none = [leaf, issuer]; 1 [leaf, G], 2 [leaf, issuer, G],
//            3 [leaf, G, issuer] with G = the GENUINE MX's end-entity certificate (trusted issuer, right names; the server
//            does not hold its key); 4-6 the same with F = a foreign self-signed CA certificate in the place of G.
//            The verdict v|u|w is about the leaf.  TLSA kinds p = DANE-EE (3 1 1) record of the extra certificate G/F,
//            i = DANE-EE (3 0 1) record of the presented issuer certificate, a = DANE-TA (2 1 1) record of the extra
//            certificate; p/a need a chain with an extra certificate, t/i one that contains the issuer.
//     slow  = <0|1>[<crash a|c|t>]: the TLSA answers are delayed; the lookups of TLSA discovery for this MX CRASH (a panic inside the
//            extended resolver, in the goroutine PrepareConn started) at the address lookups / the CNAME-type query / the first
//            TLSA lookup.  Only for the single MX of a domain in `hist` cases; the recipient's AddRcpt call has a context of its
//            own, which ends (deadline exceeded) once the crashed discovery has left the delivery waiting in CheckConn.
//     alias = <s|i><tlsa at the initial name n|e|t|m|u|f|p|i|a><its AD bit><CNAME-type query fails>
//            the MX host name is a CNAME (s: signed CNAME RRset, i: unsigned) to a canonical name; aAD/tlsaAD/tlsa
//            then describe the canonical name (address RRset, TLSA RRset), the alias field the TLSA RRset published
//            at _25._tcp.<MX name> itself.  The AD bit of the canonical TLSA answer is aAD && tlsaAD (an RRset below an
//            unsigned name is never reported authenticated).
//     msgs = <msg>[/<msg>…]   msg = <requireTLS><tlsRequiredNo><quarantine 0|1|2>:<dom>[,<dom>…]
//
//   observation (one line): per message  r:<dom>=<ok|temp|perm>,… d:<srv>.<tls>.<requiretls param>.<reused>,…
//
//   op line:  C05 conc <cfg> <dom0> <dom1> <script> <msgs>        OVERLAPPING deliveries on one target
//     script = <gate s|t|m><c|d><k><victim>: the first k (1-3) messages are deliveries that overlap in time: they are
//            started one after the other while a lookup for domain 0 is held back (s: the MTA-STS policy fetch, t: the
//            TLSA answers, m: the MX answer), then the context of delivery <victim> ends (c: cancelled, d: deadline
//            exceeded) while the lookups are in flight (9: nobody), the victim's AddRcpt returns, the lookups are
//            released, the other deliveries run to completion (body, commit in order; the victim is aborted).
//            The remaining messages follow one after the other as in a `hist` case.  The victim's observation is `x`.
//
//   op line:  C05 via <front q|p> <cfg> <dom0> <dom1> <vmsgs>     the messages reach the remote target THROUGH the real queue
//     front = q: the harness is the message source and drives the real queue.Queue (Target = the remote target) in the
//            call order of msgpipeline: Start, AddRcpt…, [the meta-data object is updated: body stage], Body, Commit;
//            p: the real msgpipeline (one scripted check, deliver_to the queue) is driven in the call order of an SMTP endpoint
//            (Start, AddRcpt…, [the endpoint updates the object after it has read the header], Body, Commit).
//     vmsg  = <init>><final>[@<stage c|s|r|b>]:<dom>[,<dom>…]     init / final = <requireTLS><tlsRequiredNo><quarantine><smtputf8>:
//            the content of the source's MsgMetadata object when the delivery starts and when the body stage ends.  With
//            front p the quarantine flag is raised by the scripted check at <stage> (connection / sender / recipient / body;
//            msgpipeline applies check results at the body stage).  The queue attempts the delivery after Commit; what it
//            hands to the remote target must be the FINAL content.  Every server implements SMTPUTF8 here.
//   observation: as for `hist`, every DATA item has a 5th field: SMTPUTF8 parameter of the MAIL command.
//
//   op line:  C05 retry <front q|p><mode r|s|b> <cfg> <dom0> <dom1> <dom0'> <dom1'> <vmsgs>     several attempts
//     As `via`, but the queue is configured with max_tries 2 and the world CHANGES after the first attempts: <dom0> <dom1>
//     is the world of the first attempt of every message, <dom0'> <dom1'> (new servers, new DNS content, a remote target
//     with an empty connection pool) the world in which the recipients that failed temporarily are tried again from the
//     spool.  mode r: the same queue instance retries (initialRetryTime 0; the attempt is held in front of the target until
//     the world has changed); s: the queue is closed after the first attempts, a new instance is started on the same spool
//     (initialRetryTime / postInitDelay 0); b: the queue is closed between Body and Commit of the messages — before any
//     attempt —, the new instance makes the FIRST attempt from the spool in the second world (max_tries 1).
//   observation: per message `<attempt 1> >> <attempt 2>`, each as for `via` (recipients of that attempt) or `-`.
//   cfg: the local field may carry the arguments of min_tls_level / min_mx_level as written: <t><m>~<hex|_>~<hex|_>
//     (`_`: the directive is left out); <t><m> are then the levels the words document.  A configuration that Init refuses
//     has the observation `refused`.
//
// The monitor (c05Monitor) evaluates the property from the scripted ground truth and what the
// servers received; it does not look at the model or at the levels the code computed.

import (
	"context"
	"crypto/ecdsa"
	"crypto/elliptic"
	"crypto/rand"
	"crypto/sha256"
	"crypto/tls"
	"crypto/x509"
	"crypto/x509/pkix"
	"encoding/hex"
	"errors"
	"fmt"
	"io"
	"math/big"
	"net"
	"os"
	"reflect"
	"sort"
	"strconv"
	"strings"
	"sync"
	"sync/atomic"
	"runtime"
	"testing"
	"time"
	"unsafe"

	"github.com/emersion/go-message/textproto"
	"github.com/emersion/go-smtp"
	"github.com/foxcpp/go-mockdns"
	"github.com/foxcpp/go-mtasts"
	"github.com/foxcpp/maddy/framework/buffer"
	parser "github.com/foxcpp/maddy/framework/cfgparser"
	"github.com/foxcpp/maddy/framework/config"
	"github.com/foxcpp/maddy/framework/dns"
	"github.com/foxcpp/maddy/framework/exterrors"
	"github.com/foxcpp/maddy/framework/log"
	"github.com/foxcpp/maddy/framework/module"
	"github.com/foxcpp/maddy/internal/msgpipeline"
	"github.com/foxcpp/maddy/internal/target/queue"
	"github.com/foxcpp/maddy/internal/verifshim/vh"
	miekgdns "github.com/miekg/dns"
)

// ---------------------------------------------------------------- scenario

type c05MX struct {
	srv      int  // 1,2 (domain 0), 3 (domain 1)
	up       bool // something listens on the address the A record names
	starttls byte // o offered, s stripped, h handshake fails (not a verification error), c STARTTLS command refused
	cert     byte // v valid chain+name, u untrusted issuer, w trusted issuer but wrong name
	stsMatch bool // listed in the MTA-STS policy
	aAD      bool // AD on the A lookup of the MX host
	tlsaAD   bool // AD on the TLSA lookup
	chain    byte // 0: [leaf, issuer]; '1'..'6': a further certificate in the chain (see the op line description)
	tlsa     byte // n none, e EE matching, t TA matching, m mismatching, u unusable only, f SERVFAIL,
	// R / N / F: the TLSA query is answered with RCODE REFUSED / NOTIMP / FORMERR, G: with a datagram that is no DNS message
	// (round 10: a lookup can fail in more than one way),
	// p EE record of the extra certificate, i EE record of the issuer, a TA record of the extra certificate
	reqtls   bool // server implements REQUIRETLS
	slow     bool // the TLSA answers for this host are delayed (fault sequence: lookup latency)
	// the MX host name is an alias (CNAME): 0 no, 's' the CNAME RRset is DNSSEC-signed, 'i' it is not.
	// With an alias aAD / tlsaAD / tlsa describe the canonical name and the next three fields the initial name.
	alias    byte
	tlsaI    byte // TLSA RRset at _25._tcp.<MX name>: n none (NXDOMAIN), e, t, m, u, f as for tlsa
	tlsaIAD  bool // AD on that lookup
	cnameErr bool // the CNAME-type query for the MX name fails (SERVFAIL, or the RCODE cnameRc names)
	cnameRc  byte // 0 SERVFAIL, else R / N / F as for tlsa (only with cnameErr)
	// the ADDRESS queries (A and AAAA) of the DNSSEC-aware resolver for the MX host are answered with an RCODE: 0 no, f / R / N / F
	// as for tlsa (field aAD of the op line: the letter instead of the bit).  The plain resolver the connection is made with
	// still knows the address: whether DANE applies to the host cannot be determined.
	addrRc byte
	// address families of the (canonical) host name: 0 an A record only, '6' an AAAA record only, 'b' both.  One zone, one AD bit: aAD is the AD bit of
	// whichever address RRsets exist.
	fam byte
	// the lookups of TLSA discovery for this MX CRASH (a panic inside the extended resolver's code, in the goroutine
	// PrepareConn started): 0 no, 'a' at the address lookups (CheckCNAMEAD), 'c' at the CNAME-type query
	// (AuthLookupCNAME), 't' at the first TLSA lookup (AuthLookupTLSA).  Only for the single candidate of a domain, in
	// `hist` cases (see c05CrashCtx).
	crash byte
}

type c05Dom struct {
	mxAD bool
	sts  byte // a absent (fetch fails), n none, t testing, e enforce
	mxs  []c05MX
}

type c05Cfg struct {
	mtasts, preload, dane, dnssec bool
	local                         bool
	minTLS, minMX                 int
	override, relaxed             bool
	reuse                         int
	// the arguments of min_tls_level / min_mx_level as the administrator wrote them (nil: the documented lower-case words).
	// minTLS / minMX are then the levels these words DOCUMENT (the word without surrounding junk, in lower case; a
	// directive that is left out documents the default: encrypted / none) — the monitor's ground truth.
	words *c05Words
}

type c05Words struct {
	tls, mx         string
	tlsOmit, mxOmit bool // the directive is not written at all
}

var c05TLSWords = []string{"none", "encrypted", "authenticated"}
var c05MXWords = []string{"none", "mtasts", "dnssec"}

const c05DefaultMinTLS, c05DefaultMinMX = 1, 0

func c05EncWord(w string, omit bool) string {
	if omit {
		return "_"
	}
	return vh.HexBytes([]byte(w))
}

func c05DecWord(s string) (string, bool, error) {
	if s == "_" {
		return "", true, nil
	}
	if s == "-" || len(s)%2 != 0 || strings.Trim(s, "0123456789abcdef") != "" {
		return "", false, errors.New("bad word " + s)
	}
	return string(vh.UnhexBytes(s)), false, nil
}

// the letters of a word, in lower case (what is left when the junk around it is taken away)
func c05WordCore(w string) string {
	var b []byte
	for i := 0; i < len(w); i++ {
		ch := w[i]
		if ch >= 'A' && ch <= 'Z' {
			ch += 'a' - 'A'
		}
		if ch >= 'a' && ch <= 'z' {
			b = append(b, ch)
		}
	}
	return string(b)
}

// how a word is spelled, relative to the documented one (distribution keys)
func c05Spelling(w string, omit bool) string {
	core := c05WordCore(w)
	switch {
	case omit:
		return "omitted"
	case w == core:
		return "lower"
	case len(w) != len(core):
		return "junk"
	case w == strings.ToUpper(core):
		return "UPPER"
	case w == strings.ToUpper(core[:1])+core[1:]:
		return "Capitalised"
	}
	return "mIxed"
}

type c05Msg struct {
	requireTLS, tlsNo bool
	quarantine        int // 0 no, 1 set before the first recipient, 2 set after the recipients, before the body
	rcpts             []int
	// `via` cases only.  The fields above are then the FINAL content of the source's meta-data object (the remote target
	// starts after the body stage: a quarantined message has quarantine == 1); via.init is its content at Start.
	utf8 bool
	via  *c05MsgVia
}

type c05Flags struct{ requireTLS, tlsNo, quarantine, utf8 bool }

func (f c05Flags) String() string {
	return c05b(f.requireTLS) + c05b(f.tlsNo) + c05b(f.quarantine) + c05b(f.utf8)
}

type c05MsgVia struct {
	init  c05Flags
	stage byte // front p: the stage at which the scripted check asks for quarantine (0: it does not)
}

func (m c05Msg) final() c05Flags {
	return c05Flags{m.requireTLS, m.tlsNo, m.quarantine != 0, m.utf8}
}

type c05Hist struct {
	cfg  c05Cfg
	doms [2]c05Dom
	msgs []c05Msg
	conc *c05Conc // nil: consecutive messages
	front byte    // 0: the remote target is driven directly; q / p: through the real queue / msgpipeline + queue
	// `retry` cases (front != 0): r the queue retries from its spool, s the queue is restarted between the attempts,
	// b it is restarted before the first attempt; doms is the world of the first attempt, domsB the world afterwards
	retry byte
	domsB [2]c05Dom
	// set on the per-attempt views of a `retry` case: the op line of the whole case
	opLine string
}

// overlapping deliveries: see the op line description
type c05Conc struct {
	gate   byte // s MTA-STS fetch, t TLSA answers, m MX answer (domain 0)
	kind   byte // c cancel, d deadline exceeded
	k      int
	victim int // index < k, or 9
}

func (c c05Conc) String() string { return fmt.Sprintf("%c%c%d%d", c.gate, c.kind, c.k, c.victim) }

func c05b(b bool) string {
	if b {
		return "1"
	}
	return "0"
}

func (m c05MX) String() string {
	cert := string(m.cert)
	if m.chain != 0 {
		cert += string(m.chain)
	}
	up := c05b(m.up)
	if m.fam != 0 {
		up += string(m.fam)
	}
	slow := c05b(m.slow)
	if m.crash != 0 {
		slow += string(m.crash)
	}
	aAD := c05b(m.aAD)
	if m.addrRc != 0 {
		aAD = string(m.addrRc)
	}
	s := fmt.Sprintf("%d.%s.%c.%s.%s.%s.%s.%c.%s.%s", m.srv, up, m.starttls, cert, c05b(m.stsMatch), aAD, c05b(m.tlsaAD), m.tlsa, c05b(m.reqtls), slow)
	if m.alias != 0 {
		ce := c05b(m.cnameErr)
		if m.cnameErr && m.cnameRc != 0 {
			ce = string(m.cnameRc)
		}
		s += fmt.Sprintf(".%c%c%s%s", m.alias, m.tlsaI, c05b(m.tlsaIAD), ce)
	}
	return s
}

func (d c05Dom) String() string {
	var ms []string
	for _, m := range d.mxs {
		ms = append(ms, m.String())
	}
	return fmt.Sprintf("%s%c:%s", c05b(d.mxAD), d.sts, strings.Join(ms, ";"))
}

func (c c05Cfg) String() string {
	l := "-"
	if c.local {
		l = fmt.Sprintf("%d%d", c.minTLS, c.minMX)
		if w := c.words; w != nil {
			l += "~" + c05EncWord(w.tls, w.tlsOmit) + "~" + c05EncWord(w.mx, w.mxOmit)
		}
	}
	return fmt.Sprintf("%s%s%s%s.%s.%s%s.%d", c05b(c.mtasts), c05b(c.preload), c05b(c.dane), c05b(c.dnssec), l, c05b(c.override), c05b(c.relaxed), c.reuse)
}

func (m c05Msg) String() string {
	var rs []string
	for _, r := range m.rcpts {
		rs = append(rs, strconv.Itoa(r))
	}
	if m.via != nil {
		st := ""
		if m.via.stage != 0 {
			st = "@" + string(m.via.stage)
		}
		return fmt.Sprintf("%s>%s%s:%s", m.via.init, m.final(), st, strings.Join(rs, ","))
	}
	return fmt.Sprintf("%s%s%d:%s", c05b(m.requireTLS), c05b(m.tlsNo), m.quarantine, strings.Join(rs, ","))
}

func (h c05Hist) Op() string {
	if h.opLine != "" {
		return h.opLine
	}
	var ms []string
	for _, m := range h.msgs {
		ms = append(ms, m.String())
	}
	if h.retry != 0 {
		return fmt.Sprintf("C05 retry %c%c %s %s %s %s %s %s", h.front, h.retry, h.cfg, h.doms[0], h.doms[1], h.domsB[0], h.domsB[1], strings.Join(ms, "/"))
	}
	if h.front != 0 {
		return fmt.Sprintf("C05 via %c %s %s %s %s", h.front, h.cfg, h.doms[0], h.doms[1], strings.Join(ms, "/"))
	}
	if h.conc != nil {
		return fmt.Sprintf("C05 conc %s %s %s %s %s", h.cfg, h.doms[0], h.doms[1], *h.conc, strings.Join(ms, "/"))
	}
	return fmt.Sprintf("C05 hist %s %s %s %s", h.cfg, h.doms[0], h.doms[1], strings.Join(ms, "/"))
}

const c05TLSAKinds = "netmufpiaRNFG"

// lookups that FAIL: the kind letter says how.  'f' is the failure the scripted zone itself produces (mockdns answers
// SERVFAIL); R, N, F are answers with another RCODE, given by the DNS front end.  A failure is a failure: which RCODE a
// resolver chooses to say "I cannot tell you" with (cf. maddy issue #287: resolvers that answer TLSA queries with NOTIMP)
// changes nothing about the fact that it is unknown whether the MX requires DANE authentication.
// G is not an RCODE at all: the answer is a datagram too short to be a DNS message — the exchange itself fails (an I/O error
// of the resolver, at once: no time-out involved).
const c05FailKinds = "fRNFG"

const c05Garbled = -1

var c05FailRcode = map[byte]int{'f': miekgdns.RcodeServerFailure, 'R': miekgdns.RcodeRefused, 'N': miekgdns.RcodeNotImplemented, 'F': miekgdns.RcodeFormatError, 'G': c05Garbled}

func c05KindFails(kind byte) bool { return strings.IndexByte(c05FailKinds, kind) >= 0 }

// a record kind needs the certificate it refers to in the presented chain
func c05KindOK(kind, chain byte) bool {
	switch kind {
	case 'p', 'a':
		return chain != 0
	case 't', 'i':
		return chain != '1' && chain != '4'
	}
	return true
}

func c05ParseMX(s string) (c05MX, error) {
	f := strings.Split(s, ".")
	if (len(f) != 10 && len(f) != 11) || (len(f[1]) != 1 && len(f[1]) != 2) || len(f[2]) != 1 || (len(f[3]) != 1 && len(f[3]) != 2) || len(f[7]) != 1 {
		return c05MX{}, errors.New("bad mx " + s)
	}
	srv, err := strconv.Atoi(f[0])
	if err != nil {
		return c05MX{}, err
	}
	m := c05MX{srv: srv, up: f[1][0] == '1', starttls: f[2][0], cert: f[3][0], stsMatch: f[4] == "1", aAD: f[5] == "1",
		tlsaAD: f[6] == "1", tlsa: f[7][0], reqtls: f[8] == "1", slow: strings.HasPrefix(f[9], "1")}
	if len(f[5]) == 1 && c05KindFails(f[5][0]) {
		m.addrRc, m.aAD = f[5][0], true
	} else if f[5] != "0" && f[5] != "1" {
		return c05MX{}, errors.New("bad aAD field " + s)
	}
	if len(f[9]) == 2 {
		if m.crash = f[9][1]; !strings.ContainsRune("act", rune(m.crash)) {
			return c05MX{}, errors.New("bad crash stage " + s)
		}
	} else if len(f[9]) != 1 {
		return c05MX{}, errors.New("bad slow field " + s)
	}
	if len(f[1]) == 2 {
		if m.fam = f[1][1]; m.fam != '6' && m.fam != 'b' {
			return c05MX{}, errors.New("bad address family " + s)
		}
	}
	if len(f[3]) == 2 {
		if m.chain = f[3][1]; m.chain < '1' || m.chain > '6' {
			return c05MX{}, errors.New("bad chain " + s)
		}
	}
	if !strings.ContainsRune("vuw", rune(m.cert)) || !strings.ContainsRune(c05TLSAKinds, rune(m.tlsa)) || !c05KindOK(m.tlsa, m.chain) {
		return c05MX{}, errors.New("bad cert / tlsa " + s)
	}
	if len(f) == 11 {
		a := f[10]
		if len(a) != 4 || (a[0] != 's' && a[0] != 'i') || !strings.ContainsRune(c05TLSAKinds, rune(a[1])) || !c05KindOK(a[1], m.chain) {
			return c05MX{}, errors.New("bad alias " + s)
		}
		m.alias, m.tlsaI, m.tlsaIAD, m.cnameErr = a[0], a[1], a[2] == '1', a[3] != '0'
		if !strings.ContainsRune("01RNFG", rune(a[3])) {
			return c05MX{}, errors.New("bad alias (CNAME query) " + s)
		}
		if a[3] != '0' && a[3] != '1' {
			m.cnameRc = a[3]
		}
	}
	return m, nil
}

func c05ParseDom(s string) (c05Dom, error) {
	parts := strings.SplitN(s, ":", 2)
	if len(parts) != 2 || len(parts[0]) != 2 {
		return c05Dom{}, errors.New("bad dom " + s)
	}
	d := c05Dom{mxAD: parts[0][0] == '1', sts: parts[0][1]}
	for _, ms := range strings.Split(parts[1], ";") {
		m, err := c05ParseMX(ms)
		if err != nil {
			return d, err
		}
		d.mxs = append(d.mxs, m)
	}
	return d, nil
}

func c05ParseOp(op string) (c05Hist, error) {
	var h c05Hist
	t := strings.Fields(op)
	if len(t) == 7 && t[0] == "C05" && t[1] == "conc" {
		sc := t[5]
		if len(sc) != 4 || !strings.ContainsRune("stm", rune(sc[0])) || !strings.ContainsRune("cd", rune(sc[1])) {
			return h, errors.New("bad script")
		}
		h.conc = &c05Conc{gate: sc[0], kind: sc[1], k: int(sc[2] - '0'), victim: int(sc[3] - '0')}
		if h.conc.k < 1 || h.conc.k > 3 || !(h.conc.victim < h.conc.k || h.conc.victim == 9) || h.conc.victim < 0 {
			return h, errors.New("bad script")
		}
		t = append(t[:5:5], t[6])
	} else if len(t) == 9 && t[0] == "C05" && t[1] == "retry" {
		if len(t[2]) != 2 || !strings.ContainsRune("qp", rune(t[2][0])) || !strings.ContainsRune("rsb", rune(t[2][1])) {
			return h, errors.New("bad front / mode")
		}
		h.front, h.retry = t[2][0], t[2][1]
		for i := 0; i < 2; i++ {
			var err error
			if h.domsB[i], err = c05ParseDom(t[6+i]); err != nil {
				return h, err
			}
		}
		t = []string{t[0], t[1], t[3], t[4], t[5], t[8]}
	} else if len(t) == 7 && t[0] == "C05" && t[1] == "via" {
		if t[2] != "q" && t[2] != "p" {
			return h, errors.New("bad front")
		}
		h.front = t[2][0]
		t = append(t[:2:2], t[3:]...)
	} else if len(t) != 6 || t[0] != "C05" || t[1] != "hist" {
		return h, errors.New("bad op")
	}
	cf := strings.Split(t[2], ".")
	if len(cf) != 4 || len(cf[0]) != 4 || len(cf[2]) != 2 {
		return h, errors.New("bad cfg")
	}
	h.cfg.mtasts, h.cfg.preload, h.cfg.dane, h.cfg.dnssec = cf[0][0] == '1', cf[0][1] == '1', cf[0][2] == '1', cf[0][3] == '1'
	if cf[1] != "-" {
		lf := strings.Split(cf[1], "~")
		if len(lf[0]) != 2 || (len(lf) != 1 && len(lf) != 3) {
			return h, errors.New("bad local")
		}
		h.cfg.local = true
		h.cfg.minTLS, h.cfg.minMX = int(lf[0][0]-'0'), int(lf[0][1]-'0')
		if h.cfg.minTLS < 0 || h.cfg.minTLS > 2 || h.cfg.minMX < 0 || h.cfg.minMX > 2 {
			return h, errors.New("bad local levels")
		}
		if len(lf) == 3 {
			w := &c05Words{}
			var e1, e2 error
			w.tls, w.tlsOmit, e1 = c05DecWord(lf[1])
			w.mx, w.mxOmit, e2 = c05DecWord(lf[2])
			if e1 != nil || e2 != nil {
				return h, errors.New("bad local words")
			}
			// the levels are the ones the words document
			if (w.tlsOmit && h.cfg.minTLS != c05DefaultMinTLS) || (!w.tlsOmit && c05WordCore(w.tls) != c05TLSWords[h.cfg.minTLS]) ||
				(w.mxOmit && h.cfg.minMX != c05DefaultMinMX) || (!w.mxOmit && c05WordCore(w.mx) != c05MXWords[h.cfg.minMX]) {
				return h, errors.New("local words do not document the given levels")
			}
			h.cfg.words = w
		}
	}
	h.cfg.override, h.cfg.relaxed = cf[2][0] == '1', cf[2][1] == '1'
	var err error
	if h.cfg.reuse, err = strconv.Atoi(cf[3]); err != nil {
		return h, err
	}
	for i := 0; i < 2; i++ {
		if h.doms[i], err = c05ParseDom(t[3+i]); err != nil {
			return h, err
		}
	}
	for _, ms := range strings.Split(t[5], "/") {
		parts := strings.SplitN(ms, ":", 2)
		var m c05Msg
		if h.front != 0 {
			if m, err = c05ParseVia(parts, h.front); err != nil {
				return h, err
			}
		} else {
			if len(parts) != 2 || len(parts[0]) != 3 {
				return h, errors.New("bad msg " + ms)
			}
			m = c05Msg{requireTLS: parts[0][0] == '1', tlsNo: parts[0][1] == '1', quarantine: int(parts[0][2] - '0')}
		}
		for _, rs := range strings.Split(parts[1], ",") {
			r, err := strconv.Atoi(rs)
			if err != nil || r < 0 || r > 1 {
				return h, errors.New("bad rcpt " + rs)
			}
			m.rcpts = append(m.rcpts, r)
		}
		h.msgs = append(h.msgs, m)
	}
	if h.conc != nil && !c05ConcOK(h) {
		return h, errors.New("ill-formed batch")
	}
	for _, ds := range [][2]c05Dom{h.doms, h.domsB} {
		for _, d := range ds {
			for _, m := range d.mxs {
				if m.crash != 0 && (len(d.mxs) != 1 || h.front != 0 || h.conc != nil) {
					return h, errors.New("a crashing discovery is only driven for the single MX of a domain, in hist cases")
				}
			}
		}
	}
	return h, nil
}

// <init>><final>[@<stage>] of a `via` message (the same rules as `parseVMsg` of the Lean driver): the quarantine flag is
// never taken back; with front p it is raised by the check (a stage is given) or not at all
func c05ParseVia(parts []string, front byte) (c05Msg, error) {
	bad := errors.New("bad via msg " + strings.Join(parts, ":"))
	if len(parts) != 2 {
		return c05Msg{}, bad
	}
	fl, stage := parts[0], byte(0)
	if i := strings.IndexByte(fl, '@'); i >= 0 {
		if front != 'p' || len(fl) != i+2 || !strings.ContainsRune("csrb", rune(fl[i+1])) {
			return c05Msg{}, bad
		}
		fl, stage = fl[:i], fl[i+1]
	}
	if len(fl) != 9 || fl[4] != '>' || strings.Trim(fl[:4]+fl[5:], "01") != "" {
		return c05Msg{}, bad
	}
	bit := func(i int) bool { return fl[i] == '1' }
	init := c05Flags{bit(0), bit(1), bit(2), bit(3)}
	m := c05Msg{requireTLS: bit(5), tlsNo: bit(6), utf8: bit(8), via: &c05MsgVia{init: init, stage: stage}}
	if bit(7) {
		m.quarantine = 1
	}
	if init.quarantine && !bit(7) {
		return c05Msg{}, bad
	}
	if front == 'p' && bit(7) != (init.quarantine || stage != 0) {
		return c05Msg{}, bad
	}
	return m, nil
}

// well-formed batch (the same rule as `concOK` of the Lean driver): at least k messages; every overlapping delivery
// starts with a recipient in domain 0 and is not refused before it looks anything up; the victim is held at the gate
// for certain (gate s: MTA-STS applies to it); later messages only where the victim's effect on the pool is
// determined (not with the TLSA gate)
func c05ConcOK(h c05Hist) bool {
	c := h.conc
	if len(h.msgs) < c.k {
		return false
	}
	for _, m := range h.msgs[:c.k] {
		if m.rcpts[0] != 0 || m.quarantine == 1 {
			return false
		}
	}
	if c.victim == 9 {
		return true
	}
	v := h.msgs[c.victim]
	if c.gate == 's' && !c05PoliciesInForce(h.cfg, v).mtasts {
		return false
	}
	return c.gate != 't' || len(h.msgs) == c.k
}

// ---------------------------------------------------------------- certificates

type c05PKI struct {
	roots *x509.CertPool
	// per certificate kind: the chain the server presents (leaf, issuer) and the TLSA data
	chain map[byte]tls.Certificate
	leaf  map[byte]*x509.Certificate
	ca    map[byte]*x509.Certificate
	// certificates that servers replay without holding the key: the genuine MX's end-entity certificate (trusted
	// issuer, right names) and a foreign self-signed CA certificate
	genuine, foreignCA *x509.Certificate
}

// the certificate that a chain of shape '1'..'6' contains besides the leaf and its issuer
func (p *c05PKI) extra(chain byte) *x509.Certificate {
	switch chain {
	case '1', '2', '3':
		return p.genuine
	case '4', '5', '6':
		return p.foreignCA
	}
	return nil
}

// the certificates a server of kind cert with chain shape `chain` presents, in order
func (p *c05PKI) presented(cert, chain byte) []*x509.Certificate {
	leaf, iss, x := p.leaf[cert], p.ca[cert], p.extra(chain)
	switch chain {
	case '1', '4':
		return []*x509.Certificate{leaf, x}
	case '2', '5':
		return []*x509.Certificate{leaf, iss, x}
	case '3', '6':
		return []*x509.Certificate{leaf, x, iss}
	}
	return []*x509.Certificate{leaf, iss}
}

func (p *c05PKI) tlsCert(cert, chain byte) tls.Certificate {
	c := p.chain[cert]
	out := tls.Certificate{PrivateKey: c.PrivateKey, Leaf: c.Leaf}
	for _, x := range p.presented(cert, chain) {
		out.Certificate = append(out.Certificate, x.Raw)
	}
	return out
}

func c05MkCert(tmpl, parent *x509.Certificate, pub *ecdsa.PublicKey, signer *ecdsa.PrivateKey) *x509.Certificate {
	der, err := x509.CreateCertificate(rand.Reader, tmpl, parent, pub, signer)
	if err != nil {
		panic(err)
	}
	c, err := x509.ParseCertificate(der)
	if err != nil {
		panic(err)
	}
	return c
}

func c05NewPKI() *c05PKI {
	serial := int64(100)
	mkCA := func(cn string) (*x509.Certificate, *ecdsa.PrivateKey) {
		k, _ := ecdsa.GenerateKey(elliptic.P256(), rand.Reader)
		serial++
		t := &x509.Certificate{SerialNumber: big.NewInt(serial), Subject: pkix.Name{CommonName: cn},
			NotBefore: time.Now().Add(-24 * time.Hour), NotAfter: time.Now().Add(240 * time.Hour),
			IsCA: true, BasicConstraintsValid: true, KeyUsage: x509.KeyUsageCertSign | x509.KeyUsageDigitalSignature}
		return c05MkCert(t, t, &k.PublicKey, k), k
	}
	mkLeaf := func(ca *x509.Certificate, cak *ecdsa.PrivateKey, names []string) tls.Certificate {
		k, _ := ecdsa.GenerateKey(elliptic.P256(), rand.Reader)
		serial++
		t := &x509.Certificate{SerialNumber: big.NewInt(serial), Subject: pkix.Name{CommonName: names[0]},
			NotBefore: time.Now().Add(-24 * time.Hour), NotAfter: time.Now().Add(240 * time.Hour),
			DNSNames: names, KeyUsage: x509.KeyUsageDigitalSignature, ExtKeyUsage: []x509.ExtKeyUsage{x509.ExtKeyUsageServerAuth}}
		c := c05MkCert(t, ca, &k.PublicKey, cak)
		return tls.Certificate{Certificate: [][]byte{c.Raw, ca.Raw}, PrivateKey: k, Leaf: c}
	}
	good, goodK := mkCA("c05 trusted root")
	evil, evilK := mkCA("c05 unknown root")
	p := &c05PKI{roots: x509.NewCertPool(), chain: map[byte]tls.Certificate{}, leaf: map[byte]*x509.Certificate{}, ca: map[byte]*x509.Certificate{}}
	p.roots.AddCert(good)
	names := []string{"*.d0.invalid", "*.d1.invalid"}
	p.chain['v'] = mkLeaf(good, goodK, names)
	p.chain['u'] = mkLeaf(evil, evilK, names)
	p.chain['w'] = mkLeaf(good, goodK, []string{"elsewhere.invalid"})
	for k, c := range p.chain {
		p.leaf[k] = c.Leaf
	}
	p.ca['v'], p.ca['u'], p.ca['w'] = good, evil, good
	p.genuine = mkLeaf(good, goodK, names).Leaf
	p.foreignCA, _ = mkCA("c05 foreign CA")
	return p
}

func c05SPKIHash(c *x509.Certificate) string {
	h := sha256.Sum256(c.RawSubjectPublicKeyInfo)
	return hex.EncodeToString(h[:])
}

func c05CertHash(c *x509.Certificate) string {
	h := sha256.Sum256(c.Raw)
	return hex.EncodeToString(h[:])
}

// one published TLSA record
type c05Rec struct {
	usage, selector, mtype uint8
	data                   string
}

// the RRset of the given kind for a server with this certificate / chain
func c05TLSARecs(pki *c05PKI, kind, cert, chain byte) []c05Rec {
	switch kind {
	case 'e':
		return []c05Rec{{3, 1, 1, c05SPKIHash(pki.leaf[cert])}}
	case 't':
		return []c05Rec{{2, 1, 1, c05SPKIHash(pki.ca[cert])}}
	case 'm':
		return []c05Rec{{3, 1, 1, strings.Repeat("ab", 32)}}
	case 'u':
		return []c05Rec{{1, 1, 1, c05SPKIHash(pki.leaf[cert])}}
	case 'p':
		return []c05Rec{{3, 1, 1, c05SPKIHash(pki.extra(chain))}}
	case 'i':
		return []c05Rec{{3, 0, 1, c05CertHash(pki.ca[cert])}}
	case 'a':
		return []c05Rec{{2, 1, 1, c05SPKIHash(pki.extra(chain))}}
	}
	return nil
}

// ---------------------------------------------------------------- scripted servers

type c05Event struct {
	msg    int
	srv    int
	kind   string // mail | data
	tls    bool
	rtParm bool
	reused bool
	utf8   bool // SMTPUTF8 parameter of the MAIL command
}

type c05World struct {
	mu     sync.Mutex
	events []c05Event
	mails  map[string]int // connection (server id + client address) -> MAIL commands so far
}

// the sender address carries the index of the message in the history (deliveries may overlap)
func c05Sender(mi int) string { return fmt.Sprintf("s%d@src.invalid", mi) }

func c05MsgOfSender(from string) int {
	from = strings.TrimPrefix(from, "s")
	if i := strings.IndexByte(from, '@'); i > 0 {
		if n, err := strconv.Atoi(from[:i]); err == nil {
			return n
		}
	}
	return -1
}

type c05Backend struct {
	w   *c05World
	srv int
}

type c05Session struct {
	b      *c05Backend
	conn   *smtp.Conn
	rt     bool
	reused bool
	utf8   bool
	msg    int
}

func (b *c05Backend) NewSession(c *smtp.Conn) (smtp.Session, error) {
	return &c05Session{b: b, conn: c}, nil
}

func (s *c05Session) Reset()        {}
func (s *c05Session) Logout() error { return nil }

func (s *c05Session) Mail(from string, opts *smtp.MailOptions) error {
	w := s.b.w
	w.mu.Lock()
	defer w.mu.Unlock()
	key := fmt.Sprintf("%d/%s", s.b.srv, s.conn.Conn().RemoteAddr())
	s.rt = opts != nil && opts.RequireTLS
	s.utf8 = opts != nil && opts.UTF8
	s.reused = w.mails[key] > 0
	s.msg = c05MsgOfSender(from)
	w.mails[key]++
	_, isTLS := s.conn.TLSConnectionState()
	w.events = append(w.events, c05Event{msg: s.msg, srv: s.b.srv, kind: "mail", tls: isTLS, rtParm: s.rt, reused: s.reused, utf8: s.utf8})
	return nil
}

func (s *c05Session) Rcpt(to string, _ *smtp.RcptOptions) error { return nil }

func (s *c05Session) Data(r io.Reader) error {
	if _, err := io.ReadAll(r); err != nil {
		return err
	}
	w := s.b.w
	w.mu.Lock()
	defer w.mu.Unlock()
	_, isTLS := s.conn.TLSConnectionState()
	w.events = append(w.events, c05Event{msg: s.msg, srv: s.b.srv, kind: "data", tls: isTLS, rtParm: s.rt, reused: s.reused, utf8: s.utf8})
	return nil
}

// listener whose connections answer the STARTTLS command with 454 (the server advertises the
// extension but refuses to start TLS); everything else reaches go-smtp.  The client is lock-step.
type c05RefuseTLSListener struct{ net.Listener }

type c05RefuseTLSConn struct{ net.Conn }

func (l c05RefuseTLSListener) Accept() (net.Conn, error) {
	c, err := l.Listener.Accept()
	if err != nil {
		return nil, err
	}
	return c05RefuseTLSConn{c}, nil
}

func (c c05RefuseTLSConn) Read(p []byte) (int, error) {
	for {
		n, err := c.Conn.Read(p)
		if n > 0 && strings.EqualFold(strings.TrimSpace(string(p[:n])), "STARTTLS") {
			if _, werr := c.Conn.Write([]byte("454 4.7.0 TLS not available due to temporary reason\r\n")); werr != nil {
				return 0, werr
			}
			if err != nil {
				return 0, err
			}
			continue
		}
		return n, err
	}
}

func c05StartServer(t *testing.T, w *c05World, pki *c05PKI, mx c05MX) (*smtp.Server, net.Listener) {
	addr := fmt.Sprintf("127.0.0.%d:%s", mx.srv, smtpPort)
	var l net.Listener
	var err error
	for i := 0; i < 50; i++ {
		if l, err = net.Listen("tcp", addr); err == nil {
			break
		}
		time.Sleep(20 * time.Millisecond)
	}
	if err != nil {
		t.Fatal(err)
	}
	s := smtp.NewServer(&c05Backend{w: w, srv: mx.srv})
	s.Domain = "localhost"
	s.AllowInsecureAuth = true
	s.EnableREQUIRETLS = mx.reqtls
	s.EnableSMTPUTF8 = true
	s.ErrorLog = c05NopLog{}
	if mx.starttls != 's' {
		s.TLSConfig = &tls.Config{Certificates: []tls.Certificate{pki.tlsCert(mx.cert, mx.chain)}}
		if mx.starttls == 'h' {
			s.TLSConfig.MinVersion = tls.VersionTLS11
			s.TLSConfig.MaxVersion = tls.VersionTLS11
		}
	}
	if mx.starttls == 'c' {
		l = c05RefuseTLSListener{l}
	}
	go s.Serve(l)
	// make sure Serve registered the listener before anybody can call Close: wait for a greeting
	if c, err := net.Dial("tcp", addr); err == nil {
		c.SetReadDeadline(time.Now().Add(10 * time.Second))
		c.Read(make([]byte, 64))
		c.Close()
	}
	return s, l
}

// ---------------------------------------------------------------- world set-up

func c05MXHost(m c05MX) string {
	if m.srv == 3 {
		return "mx1.d1.invalid."
	}
	return fmt.Sprintf("mx%d.d0.invalid.", m.srv)
}

// the canonical name an aliased MX host name points to (outside the names the certificates cover:
// the name that is verified is the MX name)
func c05CanonHost(m c05MX) string {
	return fmt.Sprintf("h%d.canon.invalid.", m.srv)
}

// the names TLSA records can be published at for this MX, in the order RFC 7672 prefers them
func c05TLSANames(m c05MX) []string {
	if m.alias != 0 {
		return []string{"_25._tcp." + c05CanonHost(m), "_25._tcp." + c05MXHost(m)}
	}
	return []string{"_25._tcp." + c05MXHost(m)}
}

// c05TLSAZone publishes an RRset of the given kind (relative to the chain the server presents) at tn.
func c05TLSAZone(z map[string]mockdns.Zone, pki *c05PKI, tn string, kind byte, m c05MX, ad bool) {
	if kind == 'f' {
		z[tn] = mockdns.Zone{AD: ad, Err: &net.DNSError{Err: "scripted failure"}}
		return
	}
	if c05KindFails(kind) {
		return // answered by the DNS front end (c05FailRcodes); nothing is published
	}
	var rrs []miekgdns.RR
	for _, r := range c05TLSARecs(pki, kind, m.cert, m.chain) {
		rrs = append(rrs, tlsaRecord(tn, r.usage, r.mtype, r.selector, r.data)[miekgdns.Type(miekgdns.TypeTLSA)]...)
	}
	if len(rrs) > 0 {
		z[tn] = mockdns.Zone{AD: ad, Misc: map[miekgdns.Type][]miekgdns.RR{miekgdns.Type(miekgdns.TypeTLSA): rrs}}
	}
	// 'n': no such name (NXDOMAIN)
}

// the address RRsets of an MX host: 127.0.0.<srv> / fd00:c05::<srv> (10+srv when the server is down: nothing listens there)
func c05AddrZone(m c05MX, ad bool) mockdns.Zone {
	n := m.srv
	if !m.up {
		n += 10
	}
	z := mockdns.Zone{AD: ad}
	if m.fam == 0 || m.fam == 'b' {
		z.A = []string{fmt.Sprintf("127.0.0.%d", n)}
	}
	if m.fam == '6' || m.fam == 'b' {
		z.AAAA = []string{fmt.Sprintf("fd00:c05::%d", n)}
	}
	return z
}

// The network of the scripted world: host names are resolved in the zones (IPv6 addresses first, as the repo's mockdns
// test dialer does), fd00:c05::<n> is the same machine as 127.0.0.<n>.
func c05Dialer(zones map[string]mockdns.Zone) func(ctx context.Context, network, addr string) (net.Conn, error) {
	res := &mockdns.Resolver{Zones: zones}
	return func(ctx context.Context, network, addr string) (net.Conn, error) {
		host, port, err := net.SplitHostPort(addr)
		if err != nil {
			return nil, err
		}
		addrs := []string{host}
		if net.ParseIP(host) == nil {
			all, err := res.LookupHost(ctx, host)
			if err != nil {
				return nil, err
			}
			addrs = nil
			for _, pass := range []bool{true, false} {
				for _, a := range all {
					if strings.Contains(a, ":") == pass {
						addrs = append(addrs, a)
					}
				}
			}
		}
		var lastErr error
		for _, a := range addrs {
			if strings.HasPrefix(a, "fd00:c05::") {
				a = "127.0.0." + strings.TrimPrefix(a, "fd00:c05::")
			}
			conn, err := net.Dial(network, net.JoinHostPort(a, port))
			if err == nil {
				return conn, nil
			}
			lastErr = err
		}
		return nil, lastErr
	}
}

func c05Zones(h c05Hist, pki *c05PKI) map[string]mockdns.Zone {
	z := map[string]mockdns.Zone{}
	for di, d := range h.doms {
		var mxs []net.MX
		for i, m := range d.mxs {
			host := c05MXHost(m)
			mxs = append(mxs, net.MX{Host: host, Pref: uint16(10 * (i + 1))})
			if m.alias == 0 {
				z[host] = c05AddrZone(m, m.aAD)
				c05TLSAZone(z, pki, "_25._tcp."+host, m.tlsa, m, m.tlsaAD)
				continue
			}
			// alias: the address answer carries AD only if the CNAME RRset AND the address RRset are
			// signed (mockdns conjoins along the chain); the CNAME-type query reports the alias zone alone
			canon := c05CanonHost(m)
			z[host] = mockdns.Zone{AD: m.alias == 's', CNAME: canon}
			z[canon] = c05AddrZone(m, m.aAD)
			c05TLSAZone(z, pki, "_25._tcp."+canon, m.tlsa, m, m.aAD && m.tlsaAD)
			c05TLSAZone(z, pki, "_25._tcp."+host, m.tlsaI, m, m.tlsaIAD)
		}
		z[fmt.Sprintf("d%d.invalid.", di)] = mockdns.Zone{AD: d.mxAD, MX: mxs}
	}
	return z
}

// the queries of this world that the DNS front end answers with an RCODE of its own
func c05FailRcodes(h c05Hist) map[string]int {
	rcs := map[string]int{}
	for _, d := range h.doms {
		for _, m := range d.mxs {
			names := c05TLSANames(m)
			kinds := []byte{m.tlsa}
			if m.alias != 0 {
				kinds = []byte{m.tlsa, m.tlsaI}
			}
			for i, k := range kinds {
				if k != 'f' && c05KindFails(k) {
					rcs["TLSA/"+names[i]] = c05FailRcode[k]
				}
			}
			if m.alias != 0 && m.cnameErr && m.cnameRc != 0 {
				rcs["CNAME/"+c05MXHost(m)] = c05FailRcode[m.cnameRc]
			}
			if m.addrRc != 0 {
				rcs["A/"+c05MXHost(m)] = c05FailRcode[m.addrRc]
				rcs["AAAA/"+c05MXHost(m)] = c05FailRcode[m.addrRc]
			}
		}
	}
	return rcs
}

// c05Gate holds back one kind of lookup for domain 0 until it is released, and counts what arrives.
type c05Gate struct {
	kind    byte // s MTA-STS fetch, t TLSA answers, m MX answer; 0: nothing is held back
	mu      sync.Mutex
	open    bool
	release chan struct{}
	held    int // lookups that arrived while the gate was closed
	mxSeen  int // MX queries for domain 0 seen by the DNS front end (every new connection attempt makes one)
}

func (g *c05Gate) counts() (held, mxSeen int) {
	g.mu.Lock()
	defer g.mu.Unlock()
	return g.held, g.mxSeen
}

func (g *c05Gate) Release() {
	g.mu.Lock()
	defer g.mu.Unlock()
	if !g.open {
		g.open = true
		close(g.release)
	}
}

// wait blocks a lookup of the gated kind until the gate opens or ctx is done (nil ctx: until it opens; the
// harness always releases the gate, at the latest when the case ends)
func (g *c05Gate) wait(ctx context.Context) error {
	g.mu.Lock()
	if g.open {
		g.mu.Unlock()
		return nil
	}
	g.held++
	g.mu.Unlock()
	if ctx == nil {
		<-g.release
		return nil
	}
	select {
	case <-g.release:
		return nil
	case <-ctx.Done():
		return ctx.Err()
	}
}

type c05Env struct {
	gate     *c05Gate
	tgt      *Target
	dnsSrv   *mockdns.Server
	servers  []*smtp.Server
	lns      []net.Listener
	dnsFront *miekgdns.Server
	sts      *mtastsPolicy
	world    *c05World
	pg       *PolicyGroup
	cfgText  string
	// PolicyGroup.Init returned an error: the configuration is refused at start-up, nothing runs
	refused    bool
	refusedWhy string
	closed     bool
}

func (e *c05Env) Close() {
	if e.closed || e.refused {
		return
	}
	e.closed = true
	if e.gate != nil {
		e.gate.Release()
	}
	e.tgt.Close()
	if e.sts != nil {
		e.sts.Close()
	}
	for _, s := range e.servers {
		s.Close()
	}
	for _, l := range e.lns {
		l.Close()
	}
	if e.dnsFront != nil {
		e.dnsFront.Shutdown()
	}
	e.dnsSrv.Close()
}

var c05Quiet = log.Logger{Out: log.NopOutput{}, Name: "c05"}

// c05PolicyText writes the mx_auth block of the case as an administrator would: the policy blocks in a seeded order (Init
// is what puts them into application order), the two directives of local_policy in a seeded order with the arguments
// spelled as the op line says (quoted where the lexer needs it, and sometimes where it does not).
func c05PolicyText(c c05Cfg, rng *vh.Rng) string {
	quote := func(w string) string {
		bare := w != ""
		for i := 0; i < len(w); i++ {
			ch := w[i]
			if !(ch >= 'a' && ch <= 'z' || ch >= 'A' && ch <= 'Z' || ch >= '0' && ch <= '9' || ch == '_') {
				bare = false
			}
		}
		if bare && !rng.Chance(20) {
			return w
		}
		return `"` + strings.ReplaceAll(w, `"`, `\"`) + `"`
	}
	var blocks []string
	if c.mtasts {
		blocks = append(blocks, "    mtasts {\n        cache ram\n    }\n")
	}
	if c.preload {
		blocks = append(blocks, "    sts_preload\n")
	}
	if c.dane {
		blocks = append(blocks, "    dane\n")
	}
	if c.dnssec {
		blocks = append(blocks, "    dnssec\n")
	}
	if c.local {
		w := c.words
		if w == nil {
			w = &c05Words{tls: c05TLSWords[c.minTLS], mx: c05MXWords[c.minMX]}
		}
		var ds []string
		if !w.tlsOmit {
			ds = append(ds, "        min_tls_level "+quote(w.tls)+"\n")
		}
		if !w.mxOmit {
			ds = append(ds, "        min_mx_level "+quote(w.mx)+"\n")
		}
		if len(ds) == 2 && rng.Chance(50) {
			ds[0], ds[1] = ds[1], ds[0]
		}
		if len(ds) == 0 && rng.Chance(50) {
			blocks = append(blocks, "    local_policy\n")
		} else {
			blocks = append(blocks, "    local_policy {\n"+strings.Join(ds, "")+"    }\n")
		}
	}
	for i := len(blocks) - 1; i > 0; i-- {
		j := rng.Intn(i + 1)
		blocks[i], blocks[j] = blocks[j], blocks[i]
	}
	return "mx_auth {\n" + strings.Join(blocks, "") + "}\n"
}

// The policy list is produced by the REAL configuration path: directive text -> cfgparser.Read -> config.Map ->
// PolicyGroup.Init -> Init of every policy module.  An error of Init is the refusal of the configuration at start-up.
func c05BuildPolicies(t *testing.T, c c05Cfg, rng *vh.Rng) (*PolicyGroup, string, error) {
	text := c05PolicyText(c, rng)
	nodes, err := parser.Read(strings.NewReader(text), "c05.conf")
	if err != nil || len(nodes) != 1 || nodes[0].Name != "mx_auth" {
		t.Fatalf("c05: generated configuration text does not parse (%v):\n%s", err, text)
	}
	pg := &PolicyGroup{pols: map[string]module.MXAuthPolicy{}}
	if err := pg.Init(config.NewMap(nil, nodes[0])); err != nil {
		return nil, text, err
	}
	return pg, text, nil
}

func c05Setup(t *testing.T, h c05Hist, pki *c05PKI, rng *vh.Rng, verbose bool) *c05Env {
	prePG, text, err := c05BuildPolicies(t, h.cfg, rng)
	if err != nil {
		return &c05Env{refused: true, refusedWhy: err.Error(), cfgText: text}
	}
	zones := c05Zones(h, pki)
	dnsSrv, tgt := c05TargetWithExtResolver(t, zones)
	env := &c05Env{tgt: tgt, dnsSrv: dnsSrv, world: &c05World{mails: map[string]int{}}, pg: prePG, cfgText: text}
	if !verbose {
		tgt.Log = c05Quiet
	}
	if h.conc != nil {
		env.gate = &c05Gate{kind: h.conc.gate, release: make(chan struct{})}
		// answers are held back for as long as the schedule needs: no resolver time-out may fire meanwhile
		c05LongDNSTimeouts(tgt.extResolver)
	}
	slow := map[string]bool{}
	failCNAME := map[string]bool{}
	failRc := c05FailRcodes(h)
	for _, d := range h.doms {
		for _, m := range d.mxs {
			if m.slow {
				for _, tn := range c05TLSANames(m) {
					slow[tn] = true
				}
			}
			if m.alias != 0 && m.cnameErr {
				failCNAME[c05MXHost(m)] = true
			}
		}
	}
	if len(slow) > 0 || len(failCNAME) > 0 || len(failRc) > 0 || env.gate != nil {
		pc, err := net.ListenPacket("udp4", "127.0.0.1:0")
		if err != nil {
			t.Fatal(err)
		}
		started := make(chan struct{})
		env.dnsFront = &miekgdns.Server{PacketConn: pc, Handler: c05SlowDNS{inner: dnsSrv, slow: slow, failCNAME: failCNAME, failRc: failRc, gate: env.gate}, NotifyStartedFunc: func() { close(started) }}
		go env.dnsFront.ActivateAndServe()
		<-started
		tgt.extResolver.Cfg.Port = strconv.Itoa(pc.LocalAddr().(*net.UDPAddr).Port)
	}
	// The production dialer ((&net.Dialer{}).DialContext) does not dial on a context that is done; the mockdns dialer
	// of the repo's test helper ignores its context.
	mockDial := c05Dialer(zones)
	tgt.dialer = func(ctx context.Context, network, addr string) (net.Conn, error) {
		if err := ctx.Err(); err != nil {
			return nil, &net.OpError{Op: "dial", Net: network, Err: err}
		}
		// contexts derived from the harness's own context type learn of its end through a goroutine, i.e. a little
		// later; for the decision to dial the end of the root counts (as if the whole tree ended at one instant,
		// which is what the standard library's contexts give up to a few instructions)
		if root, ok := ctx.Value(c05RootKey{}).(*c05ManualCtx); ok {
			if err := root.Err(); err != nil {
				return nil, &net.OpError{Op: "dial", Net: network, Err: err}
			}
		}
		return mockDial(ctx, network, addr)
	}
	tgt.tlsConfig = &tls.Config{RootCAs: pki.roots}
	tgt.connReuseLimit = h.cfg.reuse
	tgt.allowSecOverride = h.cfg.override
	tgt.relaxedREQUIRETLS = h.cfg.relaxed

	pg := prePG
	for _, p := range pg.L {
		switch p := p.(type) {
		case *mtastsPolicy:
			doms := h.doms
			gate := env.gate
			p.mtastsGet = func(ctx context.Context, domain string) (*mtasts.Policy, error) {
				// a fetcher that blocks until released and honours the context of its caller
				if gate != nil && gate.kind == 's' && domain == "d0.invalid" {
					if err := gate.wait(ctx); err != nil {
						return nil, err
					}
				}
				var d c05Dom
				switch domain {
				case "d0.invalid":
					d = doms[0]
				case "d1.invalid":
					d = doms[1]
				default:
					return nil, errors.New("unexpected domain in MTA-STS lookup: " + domain)
				}
				if d.sts == 'a' {
					return nil, errors.New("no MTA-STS policy")
				}
				pol := &mtasts.Policy{MaxAge: 86400, Mode: map[byte]mtasts.Mode{'n': mtasts.ModeNone, 't': mtasts.ModeTesting, 'e': mtasts.ModeEnforce}[d.sts]}
				for _, m := range d.mxs {
					if m.stsMatch {
						pol.MX = append(pol.MX, strings.TrimSuffix(c05MXHost(m), "."))
					}
				}
				if len(pol.MX) == 0 {
					pol.MX = []string{"unlisted.invalid"}
				}
				return pol, nil
			}
			if !verbose {
				p.log = c05Quiet
			}
			env.sts = p
		case *danePolicy:
			p.extResolver = tgt.extResolver
			if !verbose {
				p.log = c05Quiet
			}
		}
	}
	tgt.policies = pg.L

	seen := map[int]bool{}
	for _, d := range h.doms {
		for _, m := range d.mxs {
			if m.up && !seen[m.srv] {
				seen[m.srv] = true
				s, l := c05StartServer(t, env.world, pki, m)
				env.servers = append(env.servers, s)
				env.lns = append(env.lns, l)
			}
		}
	}
	return env
}

// targetWithExtResolver of dane_delivery_test.go, except that the DNS server start is retried:
// mockdns binds UDP on the port the kernel chose for TCP and gives up if that one is taken,
// which does happen once in a few thousand starts.
func c05TargetWithExtResolver(t *testing.T, zones map[string]mockdns.Zone) (*mockdns.Server, *Target) {
	var dnsSrv *mockdns.Server
	var err error
	for i := 0; i < 50; i++ {
		if dnsSrv, err = mockdns.NewServerWithLogger(zones, c05NopLog{}, false); err == nil {
			break
		}
	}
	if err != nil {
		t.Fatal(err)
	}
	addr := dnsSrv.LocalAddr().(*net.UDPAddr)
	extResolver, err := dns.NewExtResolver()
	if err != nil {
		t.Fatal(err)
	}
	extResolver.Cfg.Servers = []string{addr.IP.String()}
	extResolver.Cfg.Port = strconv.Itoa(addr.Port)
	return dnsSrv, testTarget(t, zones, extResolver, nil)
}

type c05NopLog struct{}

func (c05NopLog) Printf(string, ...interface{}) {}
func (c05NopLog) Println(...interface{})        {}

// DNS front end that delays the TLSA answers of selected hosts and otherwise hands the query
// to the mockdns server (lookup latency is part of the fault sequence).
const c05SlowDelay = 60 * time.Millisecond

type c05SlowDNS struct {
	inner     miekgdns.Handler
	slow      map[string]bool // TLSA owner names whose answers are delayed
	failCNAME map[string]bool // names whose CNAME-type query is answered SERVFAIL
	failRc    map[string]int  // "<qtype>/<owner name>" -> RCODE the query is answered with (REFUSED, NOTIMP, FORMERR)
	gate      *c05Gate        // overlapping deliveries: answers held back until released
}

// The resolver's UDP client gives up after 2 s (miekg/dns default) or the time-out of resolv.conf; answers that
// the schedule of a `conc` case holds back must not run into that on a loaded machine.
func c05LongDNSTimeouts(r *dns.ExtResolver) {
	f := reflect.ValueOf(r).Elem().FieldByName("cl")
	if !f.IsValid() || f.Kind() != reflect.Ptr || f.IsNil() {
		panic("c05: ExtResolver.cl not found")
	}
	cl := (*miekgdns.Client)(unsafe.Pointer(f.Pointer()))
	cl.Timeout = 120 * time.Second
	if d := cl.Dialer; d != nil {
		d.Timeout = 120 * time.Second
	}
}

func (h c05SlowDNS) ServeDNS(w miekgdns.ResponseWriter, m *miekgdns.Msg) {
	if len(m.Question) == 1 {
		q := m.Question[0]
		name := strings.ToLower(q.Name)
		if q.Qtype == miekgdns.TypeTLSA && h.slow[name] {
			time.Sleep(c05SlowDelay)
		}
		if g := h.gate; g != nil {
			if q.Qtype == miekgdns.TypeMX && name == "d0.invalid." {
				g.mu.Lock()
				g.mxSeen++
				g.mu.Unlock()
				if g.kind == 'm' {
					g.wait(nil)
				}
			}
			if q.Qtype == miekgdns.TypeTLSA && g.kind == 't' && (strings.HasSuffix(name, ".d0.invalid.") || name == "_25._tcp.h1.canon.invalid." || name == "_25._tcp.h2.canon.invalid.") {
				g.wait(nil)
			}
		}
		if rc, ok := h.failRc[miekgdns.TypeToString[q.Qtype]+"/"+name]; ok {
			if rc == c05Garbled {
				w.Write([]byte{0xde, 0xad, 0xbe, 0xef, 0x00})
				return
			}
			reply := new(miekgdns.Msg)
			reply.SetRcode(m, rc)
			reply.RecursionAvailable = true
			w.WriteMsg(reply)
			return
		}
		if q.Qtype == miekgdns.TypeCNAME && h.failCNAME[name] {
			reply := new(miekgdns.Msg)
			reply.SetRcode(m, miekgdns.RcodeServerFailure)
			w.WriteMsg(reply)
			return
		}
	}
	h.inner.ServeDNS(w, m)
}

// ---------------------------------------------------------------- running a history

type c05Collector struct {
	mu sync.Mutex
	st map[string]error
}

func (c *c05Collector) SetStatus(rcpt string, err error) {
	c.mu.Lock()
	c.st[rcpt] = err
	c.mu.Unlock()
}

func c05Cls(err error) string {
	if err == nil {
		return "ok"
	}
	if exterrors.IsTemporaryOrUnspec(err) {
		return "temp"
	}
	return "perm"
}

type c05MsgObs struct {
	rcpt   []string // per recipient, in order: ok|temp|perm (after the body stage)
	errs   []string
	victim bool // the delivery was cancelled and aborted: its recipient results are not part of the observation
	handed *c05Flags // `via` cases: the meta-data the queue started the remote target with
	crashFired bool  // an injected crash of a lookup happened during this message (distribution only)
}

// one delivery through the target, in the three stages its caller drives
type c05Delivery struct {
	mi       int
	m        c05Msg
	meta     *module.MsgMetadata
	d        module.Delivery
	addrs    []string
	accepted int
	o        c05MsgObs
	crashFired bool
}

func c05Begin(t *testing.T, env *c05Env, mi int, m c05Msg) *c05Delivery {
	dl := &c05Delivery{mi: mi, m: m}
	dl.meta = &module.MsgMetadata{
		ID:                 fmt.Sprintf("c05msg%d", mi),
		OriginalFrom:       c05Sender(mi),
		DontTraceSender:    true,
		SMTPOpts:           smtp.MailOptions{RequireTLS: m.requireTLS},
		TLSRequireOverride: m.tlsNo,
		Quarantine:         m.quarantine == 1,
	}
	dl.o = c05MsgObs{rcpt: make([]string, len(m.rcpts)), errs: make([]string, len(m.rcpts))}
	var err error
	if dl.d, err = env.tgt.Start(context.Background(), dl.meta, c05Sender(mi)); err != nil {
		t.Fatal("Start: ", err)
	}
	dl.addrs = make([]string, len(m.rcpts))
	return dl
}

func (dl *c05Delivery) addRcpts(ctx context.Context) {
	for i, d := range dl.m.rcpts {
		dl.addrs[i] = fmt.Sprintf("u%d@d%d.invalid", i, d)
		err := dl.d.AddRcpt(ctx, dl.addrs[i], smtp.RcptOptions{})
		dl.o.rcpt[i] = c05Cls(err)
		if err != nil {
			dl.o.errs[i] = err.Error()
		} else {
			dl.accepted++
		}
	}
}

// ---- a TLSA discovery that crashes
//
// The context handed to AddRcpt reaches PrepareConn and from there every exchange of the extended resolver; the miekg
// client reads ctx.Deadline() for every exchange, in the goroutine that makes it.  c05CrashCtx panics there when that
// goroutine is inside discoverTLSA at the stage of the case (its own stack tells: no counting, no dependence on what other
// goroutines do) — a crash inside the resolver library, in the place the recover() of PrepareConn exists for.  One
// context per AddRcpt call, so the crash belongs to the MX of that recipient's domain (crash cases have one candidate).
//
// On the unchanged tree the future of a crashed lookup is never completed and CheckConn waits for the END OF THE CONTEXT.
// The harness ends the context of the call (deadline exceeded) once the crash has fired and the delivery is parked in
// daneDelivery.CheckConn -> Future.GetContext (seen in three consecutive goroutine dumps; hist cases run one delivery at a
// time; lookups abandoned by EARLIER cases may linger for the resolver's 2 s time-out and are not waited for): the
// call then fails temporarily; nothing else uses that context (the next call gets a new one).
type c05CrashCtx struct {
	*c05ManualCtx
	stage byte
	fired int32
}

var c05CrashFrames = map[byte]string{'a': ".CheckCNAMEAD(", 'c': ".AuthLookupCNAME(", 't': ".AuthLookupTLSA("}

func (c *c05CrashCtx) Deadline() (time.Time, bool) {
	if atomic.LoadInt32(&c.fired) == 0 {
		buf := make([]byte, 32<<10)
		st := string(buf[:runtime.Stack(buf, false)])
		if strings.Contains(st, "(*daneDelivery).discoverTLSA(") && strings.Contains(st, c05CrashFrames[c.stage]) {
			atomic.StoreInt32(&c.fired, 1)
			panic("c05: injected crash inside the extended resolver's lookup")
		}
	}
	return time.Time{}, false
}

func c05AllStacks() string {
	buf := make([]byte, 1<<20)
	return string(buf[:runtime.Stack(buf, true)])
}

// AddRcpt for a recipient whose MX has a crashing discovery
func (dl *c05Delivery) addRcptCrash(t *testing.T, stage byte, addr string) (error, bool) {
	cc := &c05CrashCtx{c05ManualCtx: c05NewManualCtx(), stage: stage}
	done := make(chan error, 1)
	go func() { done <- dl.d.AddRcpt(cc, addr, smtp.RcptOptions{}) }()
	deadline := time.Now().Add(c05WaitMax)
	parked, ended := 0, false
	for i := 0; ; i++ {
		select {
		case err := <-done:
			return err, atomic.LoadInt32(&cc.fired) == 1
		default:
		}
		if !ended && atomic.LoadInt32(&cc.fired) == 1 {
			st := c05AllStacks()
			if strings.Contains(st, "(*daneDelivery).CheckConn(") && strings.Contains(st, "(*Future).GetContext(") {
				parked++
			} else {
				parked = 0
			}
			if parked >= 3 {
				cc.end(context.DeadlineExceeded)
				ended = true
			}
		}
		if time.Now().After(deadline) {
			t.Errorf("c05 crash: AddRcpt did not return within %v", c05WaitMax)
			cc.end(context.DeadlineExceeded)
			return <-done, true
		}
		if i < 50 {
			runtime.Gosched()
		} else {
			time.Sleep(300 * time.Microsecond)
		}
	}
}

// the recipients of a `hist` message: a context of its own for a recipient whose MX has a crashing discovery
func (dl *c05Delivery) addRcptsHist(t *testing.T, h c05Hist) {
	for i, d := range dl.m.rcpts {
		dl.addrs[i] = fmt.Sprintf("u%d@d%d.invalid", i, d)
		var err error
		if mx := h.doms[d].mxs[0]; mx.crash != 0 {
			var fired bool
			err, fired = dl.addRcptCrash(t, mx.crash, dl.addrs[i])
			dl.crashFired = dl.crashFired || fired
		} else {
			err = dl.d.AddRcpt(context.Background(), dl.addrs[i], smtp.RcptOptions{})
		}
		dl.o.rcpt[i] = c05Cls(err)
		if err != nil {
			dl.o.errs[i] = err.Error()
		} else {
			dl.accepted++
		}
	}
}

// body stage and commit (or abort when no recipient was accepted)
func (dl *c05Delivery) finish(t *testing.T, ctx context.Context) {
	m, o := dl.m, &dl.o
	if dl.accepted > 0 {
		if m.quarantine == 2 {
			dl.meta.Quarantine = true
		}
		col := &c05Collector{st: map[string]error{}}
		hdr := textproto.Header{}
		hdr.Add("Subject", "c05")
		dl.d.(module.PartialDelivery).BodyNonAtomic(ctx, col, hdr, buffer.MemoryBuffer{Slice: []byte("secret content\r\n")})
		for i := range m.rcpts {
			if o.rcpt[i] != "ok" {
				continue
			}
			err, ok := col.st[dl.addrs[i]]
			if !ok {
				o.rcpt[i] = "nostatus"
				continue
			}
			o.rcpt[i] = c05Cls(err)
			if err != nil {
				o.errs[i] = err.Error()
			}
		}
		if err := dl.d.Commit(ctx); err != nil {
			t.Fatal("Commit: ", err)
		}
	} else if err := dl.d.Abort(ctx); err != nil {
		t.Fatal("Abort: ", err)
	}
}

func c05Run(t *testing.T, h c05Hist, env *c05Env) []c05MsgObs {
	ctx := context.Background()
	var obs []c05MsgObs
	first := 0
	if h.front != 0 {
		return c05RunVia(t, h, env)
	}
	if h.conc != nil {
		obs = c05RunConc(t, h, env)
		first = h.conc.k
	}
	for mi := first; mi < len(h.msgs); mi++ {
		dl := c05Begin(t, env, mi, h.msgs[mi])
		if h.conc == nil {
			dl.addRcptsHist(t, h)
		} else {
			dl.addRcpts(ctx)
		}
		dl.finish(t, ctx)
		dl.o.crashFired = dl.crashFired
		obs = append(obs, dl.o)
	}
	return obs
}

// ---------------------------------------------------------------- through the real queue / msgpipeline

// c05Proxy stands between the queue and the remote target of the case: it forwards every call unchanged and records what
// the queue handed over (the meta-data at Start) and what the remote target answered per recipient.
type c05Proxy struct {
	mu      sync.Mutex
	cond    *sync.Cond
	inner   module.DeliveryTarget
	runs    map[[2]int]*c05ProxyRun // by message index (sender address) and attempt
	started map[int]int             // attempts of the message that have arrived so far
	// `retry` cases: number of attempts of the message that may go on; a further attempt waits in Start until the
	// harness has changed the world and lets it through (nil: nothing is held)
	allow map[int]int
}

func c05NewProxy(inner module.DeliveryTarget) *c05Proxy {
	p := &c05Proxy{inner: inner, runs: map[[2]int]*c05ProxyRun{}, started: map[int]int{}}
	p.cond = sync.NewCond(&p.mu)
	return p
}

type c05ProxyRun struct {
	mu      sync.Mutex
	started bool
	handed  c05Flags         // the meta-data the remote target was started with
	order   []string         // recipients in the order of the AddRcpt calls
	rcpt    map[string]error // AddRcpt results
	status  map[string]error // BodyNonAtomic statuses
	hasSt   map[string]bool
	done    chan struct{} // closed when the attempt is over (Commit / Abort returned, or Start failed)
	over    bool
}

func (p *c05Proxy) runLocked(mi, att int) *c05ProxyRun {
	r := p.runs[[2]int{mi, att}]
	if r == nil {
		r = &c05ProxyRun{rcpt: map[string]error{}, status: map[string]error{}, hasSt: map[string]bool{}, done: make(chan struct{})}
		p.runs[[2]int{mi, att}] = r
	}
	return r
}

func (p *c05Proxy) run(mi, att int) *c05ProxyRun {
	p.mu.Lock()
	defer p.mu.Unlock()
	return p.runLocked(mi, att)
}

// letThrough allows one more attempt of message mi, to be made on target inner
func (p *c05Proxy) letThrough(mi int, inner module.DeliveryTarget) {
	p.mu.Lock()
	p.inner = inner
	p.allow[mi]++
	p.mu.Unlock()
	p.cond.Broadcast()
}

func (p *c05Proxy) arrived(mi int) int {
	p.mu.Lock()
	defer p.mu.Unlock()
	return p.started[mi]
}

func (r *c05ProxyRun) end() {
	r.mu.Lock()
	defer r.mu.Unlock()
	if !r.over {
		r.over = true
		close(r.done)
	}
}

func (p *c05Proxy) Start(ctx context.Context, meta *module.MsgMetadata, from string) (module.Delivery, error) {
	mi := c05MsgOfSender(from)
	p.mu.Lock()
	att := p.started[mi]
	p.started[mi]++
	for p.allow != nil && p.allow[mi] <= att {
		p.cond.Wait()
	}
	inner := p.inner
	r := p.runLocked(mi, att)
	p.mu.Unlock()
	r.mu.Lock()
	r.started = true
	r.handed = c05Flags{meta.SMTPOpts.RequireTLS, meta.TLSRequireOverride, meta.Quarantine, meta.SMTPOpts.UTF8}
	r.mu.Unlock()
	d, err := inner.Start(ctx, meta, from)
	if err != nil {
		r.end()
		return nil, err
	}
	return &c05ProxyDelivery{r: r, d: d}, nil
}

type c05ProxyDelivery struct {
	r *c05ProxyRun
	d module.Delivery
}

func (pd *c05ProxyDelivery) AddRcpt(ctx context.Context, to string, opts smtp.RcptOptions) error {
	err := pd.d.AddRcpt(ctx, to, opts)
	pd.r.mu.Lock()
	pd.r.order = append(pd.r.order, to)
	pd.r.rcpt[to] = err
	pd.r.mu.Unlock()
	return err
}

func (pd *c05ProxyDelivery) SetStatus(to string, err error) {
	pd.r.mu.Lock()
	pd.r.status[to], pd.r.hasSt[to] = err, true
	pd.r.mu.Unlock()
}

type c05Tee struct {
	pd *c05ProxyDelivery
	sc module.StatusCollector
}

func (t c05Tee) SetStatus(to string, err error) {
	t.pd.SetStatus(to, err)
	t.sc.SetStatus(to, err)
}

func (pd *c05ProxyDelivery) BodyNonAtomic(ctx context.Context, sc module.StatusCollector, hdr textproto.Header, b buffer.Buffer) {
	pd.d.(module.PartialDelivery).BodyNonAtomic(ctx, c05Tee{pd, sc}, hdr, b)
}

func (pd *c05ProxyDelivery) Body(ctx context.Context, hdr textproto.Header, b buffer.Buffer) error {
	return pd.d.Body(ctx, hdr, b)
}

func (pd *c05ProxyDelivery) Abort(ctx context.Context) error {
	defer pd.r.end()
	return pd.d.Abort(ctx)
}

func (pd *c05ProxyDelivery) Commit(ctx context.Context) error {
	defer pd.r.end()
	return pd.d.Commit(ctx)
}

// what the configuration names resolve to; the case that is running is in c05Cur (cases run one after the other)
var c05Cur struct {
	proxy *c05Proxy
	q     *queue.Queue
	stage byte // the stage at which the scripted check asks for quarantine
}

type c05RemoteRef struct{}

func (c05RemoteRef) Init(*config.Map) error { return nil }
func (c05RemoteRef) Name() string           { return "verif_c05_remote" }
func (c05RemoteRef) InstanceName() string   { return "verif_c05_remote" }
func (c05RemoteRef) Start(ctx context.Context, meta *module.MsgMetadata, from string) (module.Delivery, error) {
	return c05Cur.proxy.Start(ctx, meta, from)
}

type c05QueueRef struct{}

func (c05QueueRef) Init(*config.Map) error { return nil }
func (c05QueueRef) Name() string           { return "verif_c05_queue" }
func (c05QueueRef) InstanceName() string   { return "verif_c05_queue" }
func (c05QueueRef) Start(ctx context.Context, meta *module.MsgMetadata, from string) (module.Delivery, error) {
	return c05Cur.q.Start(ctx, meta, from)
}

// the scripted check: asks for quarantine at one stage
type c05Check struct{}

func (c05Check) Init(*config.Map) error { return nil }
func (c05Check) Name() string           { return "verif_c05_chk" }
func (c05Check) InstanceName() string   { return "verif_c05_chk" }
func (c05Check) CheckStateForMsg(context.Context, *module.MsgMetadata) (module.CheckState, error) {
	return &c05CheckState{stage: c05Cur.stage}, nil
}

type c05CheckState struct{ stage byte }

func (s *c05CheckState) at(stage byte) module.CheckResult {
	if s.stage == stage {
		return module.CheckResult{Quarantine: true, Reason: &exterrors.SMTPError{Code: 550, EnhancedCode: exterrors.EnhancedCode{5, 7, 1}, Message: "scripted quarantine", CheckName: "verif_c05_chk"}}
	}
	return module.CheckResult{}
}
func (s *c05CheckState) CheckConnection(context.Context) module.CheckResult     { return s.at('c') }
func (s *c05CheckState) CheckSender(context.Context, string) module.CheckResult { return s.at('s') }
func (s *c05CheckState) CheckRcpt(context.Context, string) module.CheckResult   { return s.at('r') }
func (s *c05CheckState) CheckBody(context.Context, textproto.Header, buffer.Buffer) module.CheckResult {
	return s.at('b')
}
func (s *c05CheckState) Close() error { return nil }

var (
	c05PipeOnce sync.Once
	c05Pipe     *msgpipeline.MsgPipeline
)

// registers the named instances and builds the pipeline (msgpipeline.New, from configuration nodes) once
func c05Front() *msgpipeline.MsgPipeline {
	c05PipeOnce.Do(func() {
		module.RegisterInstance(c05RemoteRef{}, nil)
		module.RegisterInstance(c05QueueRef{}, nil)
		module.Register("check.verif_c05_chk", func(_, _ string, _, _ []string) (module.Module, error) { return c05Check{}, nil })
		p, err := msgpipeline.New(map[string]interface{}{}, []config.Node{
			{Name: "check", Children: []config.Node{{Name: "verif_c05_chk"}}},
			{Name: "default_source", Children: []config.Node{
				{Name: "default_destination", Children: []config.Node{{Name: "deliver_to", Args: []string{"&verif_c05_queue"}}}},
			}},
		})
		if err != nil {
			panic(err)
		}
		p.Log = log.Logger{Out: log.NopOutput{}}
		p.Hostname = "c05.invalid"
		c05Pipe = p
	})
	return c05Pipe
}

// a queue instance on the spool directory dir, in front of the proxy of the running case
func c05NewQueue(t *testing.T, dir string, maxTries int, before func(q *queue.Queue)) *queue.Queue {
	c05Front() // registers the instances the configuration names
	mod, err := queue.NewQueue("target.queue", "verif_c05_q", nil, nil)
	if err != nil {
		t.Fatal(err)
	}
	q := mod.(*queue.Queue)
	q.Log = log.Logger{Out: log.NopOutput{}, Name: "c05queue"}
	if before != nil {
		before(q)
	}
	c05Cur.q = q
	if err := q.Init(config.NewMap(map[string]interface{}{"hostname": "c05.invalid"}, config.Node{Children: []config.Node{
		{Name: "target", Args: []string{"&verif_c05_remote"}},
		{Name: "location", Args: []string{dir}},
		{Name: "max_tries", Args: []string{strconv.Itoa(maxTries)}},
	}})); err != nil {
		t.Fatal("queue Init: ", err)
	}
	return q
}

// the unexported delays of the queue (initialRetryTime, postInitDelay): the harness is not in package queue
func c05SetQueueDelay(q *queue.Queue, field string, d time.Duration) {
	f := reflect.ValueOf(q).Elem().FieldByName(field)
	if !f.IsValid() || f.Kind() != reflect.Int64 {
		panic("c05: queue.Queue." + field + " not found")
	}
	*(*time.Duration)(unsafe.Pointer(f.UnsafeAddr())) = d
}

// one message handed to the front (the queue, or msgpipeline in front of it) up to the end of the body stage
type c05Submitted struct {
	d     module.Delivery
	addrs []string
}

func c05ViaSubmit(t *testing.T, h c05Hist, q *queue.Queue, mi int, m c05Msg) c05Submitted {
	ctx := context.Background()
	in, fin := m.via.init, m.final()
	meta := &module.MsgMetadata{
		ID:                 fmt.Sprintf("c05msg%d", mi),
		OriginalFrom:       c05Sender(mi),
		DontTraceSender:    true,
		SMTPOpts:           smtp.MailOptions{RequireTLS: in.requireTLS, UTF8: in.utf8},
		TLSRequireOverride: in.tlsNo,
		Quarantine:         in.quarantine,
	}
	var src module.DeliveryTarget = q
	if h.front == 'p' {
		src = c05Front()
		c05Cur.stage = m.via.stage
	}
	d, err := src.Start(ctx, meta, c05Sender(mi))
	if err != nil {
		t.Fatal("front Start: ", err)
	}
	addrs := make([]string, len(m.rcpts))
	for i, dom := range m.rcpts {
		addrs[i] = fmt.Sprintf("u%d@d%d.invalid", i, dom)
		if err := d.AddRcpt(ctx, addrs[i], smtp.RcptOptions{}); err != nil {
			t.Fatal("front AddRcpt: ", err)
		}
	}
	// the body stage: the source updates ITS meta-data object (an SMTP endpoint does after it has read the header:
	// TLS-Required; msgpipeline does when it applies the check results: Quarantine — front p leaves that to it)
	meta.SMTPOpts.RequireTLS, meta.SMTPOpts.UTF8, meta.TLSRequireOverride = fin.requireTLS, fin.utf8, fin.tlsNo
	if h.front == 'q' {
		meta.Quarantine = fin.quarantine
	}
	hdr := textproto.Header{}
	hdr.Add("Subject", "c05")
	if err := d.Body(ctx, hdr, buffer.MemoryBuffer{Slice: []byte("secret content\r\n")}); err != nil {
		t.Fatal("front Body: ", err)
	}
	if got := (c05Flags{meta.SMTPOpts.RequireTLS, meta.TLSRequireOverride, meta.Quarantine, meta.SMTPOpts.UTF8}); got != fin {
		t.Fatalf("c05 via: the source's meta-data after the body stage is %s, the op line says %s: %s", got, fin, h.Op())
	}
	return c05Submitted{d: d, addrs: addrs}
}

// waits for the end of an attempt and reads what the proxy recorded.  all: every recipient of the message is listed
// (`notried` if the queue did not hand it to the target); otherwise only the ones of this attempt (a retry).
func c05ViaCollect(t *testing.T, h c05Hist, r *c05ProxyRun, mi int, addrs []string, all bool) (c05MsgObs, []int, bool) {
	select {
	case <-r.done:
	case <-time.After(c05WaitMax):
		t.Errorf("c05 via: the queue did not attempt message %d within %v: %s", mi, c05WaitMax, h.Op())
		return c05MsgObs{}, nil, false
	}
	var o c05MsgObs
	var idx []int
	r.mu.Lock()
	hd := r.handed
	o.handed = &hd
	for i, a := range addrs {
		e, seen := r.rcpt[a]
		if !seen && !all {
			continue
		}
		res := ""
		switch {
		case !seen:
			res = "notried"
		case e == nil && r.hasSt[a]:
			e = r.status[a]
			res = c05Cls(e)
		case e == nil:
			res = "nostatus"
		default:
			res = c05Cls(e)
		}
		es := ""
		if e != nil {
			es = e.Error()
		}
		o.rcpt, o.errs, idx = append(o.rcpt, res), append(o.errs, es), append(idx, i)
	}
	r.mu.Unlock()
	return o, idx, true
}

func c05RunVia(t *testing.T, h c05Hist, env *c05Env) []c05MsgObs {
	dir, err := os.MkdirTemp("", "c05q")
	if err != nil {
		t.Fatal(err)
	}
	defer os.RemoveAll(dir)
	proxy := c05NewProxy(env.tgt)
	c05Cur.proxy = proxy
	q := c05NewQueue(t, dir, 1, nil)
	defer q.Close()

	var obs []c05MsgObs
	for mi, m := range h.msgs {
		sub := c05ViaSubmit(t, h, q, mi, m)
		if err := sub.d.Commit(context.Background()); err != nil {
			t.Fatal("front Commit: ", err)
		}
		// the queue attempts the delivery on its own goroutine: wait until the attempt is over
		o, _, ok := c05ViaCollect(t, h, proxy.run(mi, 0), mi, sub.addrs, true)
		if !ok {
			return nil
		}
		obs = append(obs, o)
	}
	return obs
}

// c05RunRetry drives a `retry` case: the messages go through the queue as in a `via` case and are attempted in the world
// h.doms; then the world changes to h.domsB (all servers, the DNS content and the remote target are replaced: a fresh
// connection pool) and the recipients that failed temporarily are attempted again — mode r: by the same queue instance
// from its spool (initialRetryTime = 0, the attempt waits in the proxy's Start until the world has changed); mode s: the
// queue is closed after the first attempts and a new instance is started on the same spool (no delays); mode b: the
// queue is closed BEFORE the first attempt (between Body and Commit), the new instance makes the first attempt from the
// spool in world B.  Attempts in world B are let through one message after the other.  Every wait is for an observable
// fact.  Result: per-message observations and server events of the two phases.
func c05RunRetry(t *testing.T, out *vh.Out, h c05Hist, pki *c05PKI, rng *vh.Rng, verbose bool) (ok bool, refused bool, obs [2][]c05MsgObs, idx [2][][]int, events [2][]c05Event) {
	hA := h
	envA := c05Setup(t, hA, pki, rng, verbose)
	c05ConfigStats(out, h, envA)
	if envA.refused {
		return true, true, obs, idx, events
	}
	c05ConfigMonitor(out, h, envA)
	dir, err := os.MkdirTemp("", "c05q")
	if err != nil {
		t.Fatal(err)
	}
	defer os.RemoveAll(dir)
	proxy := c05NewProxy(envA.tgt)
	proxy.allow = map[int]int{}
	c05Cur.proxy = proxy
	first := 1 // attempts in world A
	if h.retry == 'b' {
		first = 0
	}
	for mi := range h.msgs {
		proxy.allow[mi] = first
	}
	q := c05NewQueue(t, dir, 2, nil)
	if h.retry == 'r' {
		c05SetQueueDelay(q, "initialRetryTime", 0)
	}
	closeA := func() []c05Event {
		envA.Close()
		envA.world.mu.Lock()
		defer envA.world.mu.Unlock()
		return append([]c05Event(nil), envA.world.events...)
	}
	n := len(h.msgs)
	obs[0], obs[1] = make([]c05MsgObs, n), make([]c05MsgObs, n)
	idx[0], idx[1] = make([][]int, n), make([][]int, n)
	subs := make([]c05Submitted, n)
	for mi, m := range h.msgs {
		subs[mi] = c05ViaSubmit(t, h, q, mi, m)
		if h.retry == 'b' {
			continue
		}
		if err := subs[mi].d.Commit(context.Background()); err != nil {
			t.Fatal("front Commit: ", err)
		}
		o, ix, ok := c05ViaCollect(t, h, proxy.run(mi, 0), mi, subs[mi].addrs, true)
		if !ok {
			q.Close()
			closeA()
			return false, false, obs, idx, events
		}
		obs[0][mi], idx[0][mi] = o, ix
	}
	if h.retry == 'b' {
		// the process goes down after the messages were accepted (spooled) and before any attempt
		q.Close()
		for mi := range h.msgs {
			if err := subs[mi].d.Commit(context.Background()); err != nil {
				t.Fatal("front Commit: ", err)
			}
		}
	}
	if h.retry == 's' {
		q.Close() // waits for the attempts' bookkeeping (spool update) to finish
	}
	events[0] = closeA()

	// the world changes
	hB := h
	hB.doms = h.domsB
	envB := c05Setup(t, hB, pki, rng, verbose)
	if envB.refused {
		t.Fatalf("c05 retry: the configuration was accepted, then refused: %s", h.Op())
	}
	defer envB.Close()
	q2 := q
	if h.retry != 'r' {
		tries := 2
		if h.retry == 'b' {
			tries = 1
		}
		q2 = c05NewQueue(t, dir, tries, func(q *queue.Queue) {
			c05SetQueueDelay(q, "initialRetryTime", 0)
			c05SetQueueDelay(q, "postInitDelay", 0)
		})
	}
	defer q2.Close()
	for mi := range h.msgs {
		expect := h.retry == 'b'
		for _, r := range obs[0][mi].rcpt {
			expect = expect || r == "temp"
		}
		if !expect {
			continue
		}
		att := first
		// the attempt has arrived at the proxy (from the spool), now it may go on — in the new world
		if !c05WaitFor(func() bool { return proxy.arrived(mi) > att }) {
			t.Errorf("c05 retry: the queue did not attempt message %d again within %v: %s", mi, c05WaitMax, h.Op())
			return false, false, obs, idx, events
		}
		proxy.letThrough(mi, envB.tgt)
		o, ix, ok := c05ViaCollect(t, h, proxy.run(mi, att), mi, subs[mi].addrs, false)
		if !ok {
			return false, false, obs, idx, events
		}
		obs[1][mi], idx[1][mi] = o, ix
	}
	q2.Close()
	envB.Close()
	envB.world.mu.Lock()
	events[1] = append([]c05Event(nil), envB.world.events...)
	envB.world.mu.Unlock()
	return true, false, obs, idx, events
}

// the view of one phase of a `retry` case as a history of its own: the messages with the recipients attempted in it
func c05PhaseView(h c05Hist, phase int, idx [][]int) c05Hist {
	v := h
	v.opLine = h.Op()
	if phase == 1 {
		v.doms = h.domsB
	}
	v.msgs = nil
	for mi, m := range h.msgs {
		m2 := m
		m2.rcpts = nil
		for _, i := range idx[mi] {
			m2.rcpts = append(m2.rcpts, m.rcpts[i])
		}
		v.msgs = append(v.msgs, m2)
	}
	return v
}

func c05OneRetryCase(t *testing.T, out *vh.Out, pki *c05PKI, h c05Hist, rng *vh.Rng, verbose bool) {
	op := h.Op()
	ok, refused, obs, idx, events := c05RunRetry(t, out, h, pki, rng, verbose)
	if refused {
		out.Corr(op, "refused")
		return
	}
	if !ok {
		return
	}
	var views [2]c05Hist
	var lines [2][]string
	for ph := 0; ph < 2; ph++ {
		views[ph] = c05PhaseView(h, ph, idx[ph])
		lines[ph] = strings.Split(c05Observation(views[ph], obs[ph], events[ph]), " | ")
		c05Monitor(out, views[ph], obs[ph], events[ph])
		c05DeliveryStats(out, views[ph], events[ph])
	}
	var parts []string
	for mi := range h.msgs {
		a, b := lines[0][mi], lines[1][mi]
		if len(idx[0][mi]) == 0 {
			a = "-"
		}
		if len(idx[1][mi]) == 0 {
			b = "-"
		}
		parts = append(parts, a+" >> "+b)
		out.Stat(fmt.Sprintf("c05.retry.mode=%c.front=%c.second-attempt=%s", h.retry, h.front, c05b(b != "-")))
		if b != "-" {
			m := h.msgs[mi]
			got := false
			for _, e := range events[1] {
				got = got || (e.msg == mi && e.kind == "data")
			}
			out.Stat(fmt.Sprintf("c05.retry.from-spool.requiretls=%s.tls-required-no=%s.quarantine=%s.content-sent=%s", c05b(m.requireTLS), c05b(m.tlsNo), c05b(m.quarantine != 0), c05b(got)))
			for _, r := range obs[1][mi].rcpt {
				out.Stat("c05.retry.from-spool.rcpt=" + r)
			}
		}
	}
	out.Corr(op, strings.Join(parts, " | "))
	out.Stat(fmt.Sprintf("c05.msgs=%d", len(h.msgs)))
}

// a context whose end the harness decides: cancelled, or "deadline exceeded" without any clock
type c05ManualCtx struct {
	context.Context
	done chan struct{}
	mu   sync.Mutex
	err  error
}

func c05NewManualCtx() *c05ManualCtx {
	return &c05ManualCtx{Context: context.Background(), done: make(chan struct{})}
}

func (c *c05ManualCtx) Done() <-chan struct{} { return c.done }

type c05RootKey struct{}

func (c *c05ManualCtx) Value(key interface{}) interface{} {
	if _, ok := key.(c05RootKey); ok {
		return c
	}
	return c.Context.Value(key)
}

func (c *c05ManualCtx) Err() error {
	c.mu.Lock()
	defer c.mu.Unlock()
	return c.err
}

func (c *c05ManualCtx) end(err error) {
	c.mu.Lock()
	defer c.mu.Unlock()
	if c.err == nil {
		c.err = err
		close(c.done)
	}
}

// generous bound for the harness's own waiting (polling; nothing is asserted about durations)
const c05WaitMax = 60 * time.Second

func c05WaitFor(cond func() bool) bool {
	deadline := time.Now().Add(c05WaitMax)
	for i := 0; !cond(); i++ {
		if time.Now().After(deadline) {
			return false
		}
		if i < 200 {
			time.Sleep(50 * time.Microsecond)
		} else {
			time.Sleep(time.Millisecond)
		}
	}
	return true
}

// c05RunConc drives the overlapping deliveries of a `conc` case (see the op line description).  Every step of the
// schedule waits for an observable fact (a lookup arrived at the gate, an MX query was seen, AddRcpt returned), never
// for time to pass.
func c05RunConc(t *testing.T, h c05Hist, env *c05Env) []c05MsgObs {
	c, g := h.conc, env.gate
	dls := make([]*c05Delivery, c.k)
	done := make([]chan struct{}, c.k)
	isDone := func(i int) bool {
		select {
		case <-done[i]:
			return true
		default:
			return false
		}
	}
	var victimCtx *c05ManualCtx
	stuck := func(what string) {
		t.Errorf("c05 conc: %s did not happen within %v: %s", what, c05WaitMax, h.Op())
	}
	for i := 0; i < c.k; i++ {
		dls[i] = c05Begin(t, env, i, h.msgs[i])
		done[i] = make(chan struct{})
		var ctx context.Context = context.Background()
		if i == c.victim {
			victimCtx = c05NewManualCtx()
			ctx = victimCtx
		}
		held0, mx0 := g.counts()
		go func(i int, ctx context.Context) {
			defer close(done[i])
			dls[i].addRcpts(ctx)
		}(i, ctx)
		// the delivery is under way: it asked for the MX records of domain 0 (PrepareDomain of every policy has been
		// called by then) and, where the gate is one it must reach, its lookup is held there — or it is over already
		if !c05WaitFor(func() bool {
			if isDone(i) {
				return true
			}
			held, mx := g.counts()
			if mx <= mx0 {
				return false
			}
			return c.gate == 's' || held > held0
		}) {
			stuck(fmt.Sprintf("start of delivery %d", i))
			g.Release()
			return nil
		}
	}
	if victimCtx != nil {
		if c.kind == 'd' {
			victimCtx.end(context.DeadlineExceeded)
		} else {
			victimCtx.end(context.Canceled)
		}
		// the fetcher and the policies' waits take the delivery's context: the cancelled AddRcpt returns while the
		// lookups are still held back.  The MX lookup does not take it (context.Background() in lookupMX): with that
		// gate the victim goes on when the answer comes, with a context that is done.
		if c.gate != 'm' && !c05WaitFor(func() bool { return isDone(c.victim) }) {
			stuck("return of the cancelled AddRcpt")
		}
	}
	g.Release()
	for i := 0; i < c.k; i++ {
		if !c05WaitFor(func() bool { return isDone(i) }) {
			stuck(fmt.Sprintf("end of AddRcpt of delivery %d", i))
			return nil
		}
	}
	var obs []c05MsgObs
	for i := 0; i < c.k; i++ {
		if i == c.victim {
			// the caller of a cancelled delivery gives up
			if err := dls[i].d.Abort(context.Background()); err != nil {
				t.Fatal("Abort: ", err)
			}
			dls[i].o.victim = true
		} else {
			dls[i].finish(t, context.Background())
		}
		obs = append(obs, dls[i].o)
	}
	return obs
}

func c05Observation(h c05Hist, obs []c05MsgObs, events []c05Event) string {
	var parts []string
	for mi, m := range h.msgs {
		if obs[mi].victim {
			parts = append(parts, "x")
			continue
		}
		var rs []string
		for i, d := range m.rcpts {
			rs = append(rs, fmt.Sprintf("%d=%s", d, obs[mi].rcpt[i]))
		}
		var ds []string
		for _, e := range events {
			if e.msg == mi && e.kind == "data" {
				item := fmt.Sprintf("%d.%s.%s.%s", e.srv, c05b(e.tls), c05b(e.rtParm), c05b(e.reused))
				if h.front != 0 {
					item += "." + c05b(e.utf8)
				}
				ds = append(ds, item)
			}
		}
		sort.Strings(ds)
		d := "-"
		if len(ds) > 0 {
			d = strings.Join(ds, ",")
		}
		parts = append(parts, "r:"+strings.Join(rs, ",")+" d:"+d)
	}
	return strings.Join(parts, " | ")
}

// ---------------------------------------------------------------- monitor (the property itself)

func c05FindMX(h c05Hist, srv int) (int, c05MX) {
	for di, d := range h.doms {
		for _, m := range d.mxs {
			if m.srv == srv {
				return di, m
			}
		}
	}
	panic("unknown server")
}

// TLSA discovery as RFC 7672 §2.2 describes it, from the scripted zone contents.  The first result is
// "none" (DANE does not apply: nothing published / nothing authenticated), "fail" (a lookup needed to decide
// failed), "usable" (the governing RRset is authenticated and has a usable DANE-EE/DANE-TA record) or
// "unusable" (authenticated non-empty RRset without any usable record); the second is the kind of the
// GOVERNING RRset (relative to the certificate the server presents), 0 if there is none.
//
//   - MX name is not an alias: insecure address records ⇒ no TLSA lookup; otherwise _25._tcp.<MX name>.
//   - alias, CNAME RRset and address RRset secure ("secure CNAME", §2.2.2): the canonical name is the
//     preferred TLSA base domain; only when no secure TLSA records are found there the initial name is
//     tried.  A lookup failure at ANY name consulted is a discovery failure.
//   - alias, CNAME RRset secure, continuation insecure ("insecure CNAME"): the initial name only.
//   - CNAME RRset at the MX name insecure: DANE does not apply.
//     In the last two cases the security status of the CNAME RRset has to be asked for separately (the
//     address answer is unauthenticated as a whole); if that query fails the discovery has failed.
func c05Governing(m c05MX) (string, byte) {
	atBase := func(kind byte, ad bool) (string, byte) {
		switch {
		case c05KindFails(kind):
			return "fail", 0
		case kind == 'n' || !ad:
			return "none", 0
		case !c05KindUsable(kind):
			return "unusable", kind
		}
		return "usable", kind
	}
	if m.fam == 'x' {
		return "none", 0 // no address records: nothing to connect to, no TLSA lookup (RFC 7672 2.2.2: the MX host is skipped)
	}
	// A lookup that CRASHES has not answered: whatever it was needed for is not known — the discovery has failed as soon
	// as a lookup it needs is one that crashes (the address lookups are always needed: they decide whether DANE applies).
	// the same for address lookups that are answered with a failure RCODE
	if m.addrRc != 0 {
		return "fail", 0
	}
	switch m.crash {
	case 'a':
		return "fail", 0
	case 'c':
		m.cnameErr = true
	case 't':
		m.tlsa, m.tlsaI = 'f', 'f'
	}
	switch m.alias {
	case 0:
		if !m.aAD {
			return "none", 0 // the host's address records are not secure: no TLSA lookup
		}
		return atBase(m.tlsa, m.tlsaAD)
	case 's':
		if m.aAD {
			if st, k := atBase(m.tlsa, m.aAD && m.tlsaAD); st != "none" {
				return st, k
			}
			return atBase(m.tlsaI, m.tlsaIAD)
		}
		if m.cnameErr {
			return "fail", 0
		}
		return atBase(m.tlsaI, m.tlsaIAD)
	default: // 'i'
		if m.cnameErr {
			return "fail", 0
		}
		return "none", 0
	}
}

func c05Discovery(m c05MX) string {
	st, _ := c05Governing(m)
	return st
}

// the certificates of the run (set by TestVerifC05; the monitor computes matches from them)
var c05ThePKI *c05PKI

func c05RecMatchesCert(r c05Rec, c *x509.Certificate) bool {
	var data []byte
	switch r.selector {
	case 0:
		data = c.Raw
	case 1:
		data = c.RawSubjectPublicKeyInfo
	default:
		return false
	}
	switch r.mtype {
	case 0:
		return hex.EncodeToString(data) == r.data
	case 1:
		h := sha256.Sum256(data)
		return hex.EncodeToString(h[:]) == r.data
	}
	return false
}

// Does the governing RRset authenticate the server?  Computed from the published records and the chain the
// server presents (RFC 7672 §3.1): a DANE-EE (usage 3) record must match the END-ENTITY certificate — the first
// one, the one whose key the server proved possession of; name and issuer are irrelevant.  A DANE-TA (usage 2)
// record must match a presented CA certificate that the end-entity certificate was issued by (directly: the
// chains here have one level), and the end-entity certificate must name the MX.
func c05DaneMatches(m c05MX) bool {
	_, kind := c05Governing(m)
	if kind == 0 {
		return false
	}
	chain := c05ThePKI.presented(m.cert, m.chain)
	leaf := chain[0]
	for _, r := range c05TLSARecs(c05ThePKI, kind, m.cert, m.chain) {
		switch r.usage {
		case 3:
			if c05RecMatchesCert(r, leaf) {
				return true
			}
		case 2:
			for _, c := range chain[1:] {
				if c.IsCA && c05RecMatchesCert(r, c) && leaf.CheckSignatureFrom(c) == nil &&
					leaf.VerifyHostname(strings.TrimSuffix(c05MXHost(m), ".")) == nil {
					return true
				}
			}
		}
	}
	return false
}

// does the governing RRset contain a usable (DANE-EE / DANE-TA) record at all?
func c05KindUsable(kind byte) bool {
	for _, r := range c05TLSARecs(c05ThePKI, kind, 'v', '2') {
		if r.usage == 2 || r.usage == 3 {
			return true
		}
	}
	return false
}

type c05InForce struct {
	mtasts, dane, dnssec, local bool
}

func c05PoliciesInForce(c c05Cfg, m c05Msg) c05InForce {
	if m.tlsNo && c.override {
		return c05InForce{}
	}
	return c05InForce{mtasts: c.mtasts, dane: c.dane, dnssec: c.dnssec, local: c.local}
}

// c05Unsatisfied lists the requirements of the property that a connection to server mx of
// domain d, with TLS on/off as the server saw it, does NOT meet for message m.
func c05Unsatisfied(c c05Cfg, m c05Msg, d c05Dom, mx c05MX, tlsOn, rtParam bool) []string {
	var bad []string
	f := c05PoliciesInForce(c, m)
	pkix := tlsOn && mx.cert == 'v'
	disc := c05Discovery(mx)
	daneAuth := f.dane && tlsOn && disc == "usable" && c05DaneMatches(mx)
	mxLevel := 0
	if f.mtasts && d.sts != 'a' && mx.stsMatch {
		mxLevel = 1
	}
	if f.dnssec && d.mxAD {
		mxLevel = 2
	}
	tlsLevel := 0
	if tlsOn {
		tlsLevel = 1
		if pkix || daneAuth {
			tlsLevel = 2
		}
	}
	if m.quarantine != 0 {
		bad = append(bad, "quarantined")
	}
	if f.mtasts && d.sts == 'e' {
		if !mx.stsMatch {
			bad = append(bad, "mtasts-mx")
		}
		if !pkix {
			bad = append(bad, "mtasts-tls")
		}
	}
	if f.dane {
		switch disc {
		case "fail":
			bad = append(bad, "dane-discovery-failed")
		case "usable":
			if !tlsOn || !c05DaneMatches(mx) {
				bad = append(bad, "dane-auth")
			}
		case "unusable":
			if !tlsOn {
				bad = append(bad, "dane-tls")
			}
		}
	}
	if f.local {
		if mxLevel < c.minMX {
			bad = append(bad, "min-mx-level")
		}
		if tlsLevel < c.minTLS {
			bad = append(bad, "min-tls-level")
		}
	}
	if m.requireTLS {
		if tlsLevel < 2 {
			bad = append(bad, "requiretls-tls")
		}
		if mxLevel < 1 {
			bad = append(bad, "requiretls-mx")
		}
		if !rtParam && !(c.relaxed && !(mx.reqtls && tlsOn)) {
			bad = append(bad, "requiretls-not-forwarded")
		}
	}
	return bad
}

func c05Monitor(out *vh.Out, h c05Hist, obs []c05MsgObs, events []c05Event) {
	op := h.Op()
	for _, e := range events {
		if e.kind != "data" {
			continue
		}
		m := h.msgs[e.msg]
		di, mx := c05FindMX(h, e.srv)
		if bad := c05Unsatisfied(h.cfg, m, h.doms[di], mx, e.tls, e.rtParm); len(bad) > 0 {
			kind := "new"
			if e.reused {
				kind = "reused"
			}
			out.Violation("C05/data-on-unsatisfying-conn/"+kind+"/"+strings.Join(bad, "+"), op,
				fmt.Sprintf("message %d (%s) content reached server %d (tls=%v) on a %s connection; unmet: %v", e.msg, m, e.srv, e.tls, kind, bad))
		}
		if h.front != 0 && e.utf8 != m.utf8 {
			out.Violation("C05/queued-metadata-not-final/smtputf8-parameter", op,
				fmt.Sprintf("message %d: MAIL to server %d had SMTPUTF8=%v, the message's meta-data said %v when the body stage ended", e.msg, e.srv, e.utf8, m.utf8))
		}
		toDom := false
		for _, r := range m.rcpts {
			toDom = toDom || r == di
		}
		if !toDom {
			out.Violation("C05/data-to-foreign-mx", op, fmt.Sprintf("message %d reached server %d of a domain it has no recipient in", e.msg, e.srv))
		}
	}
	for mi, m := range h.msgs {
		if obs[mi].victim {
			continue // cancelled and aborted by its caller: no status to judge (its DATA events, if any, were judged above)
		}
		// through the queue: the policy inputs the remote target is started with are the ones the message had when the
		// body stage ended
		if hd := obs[mi].handed; hd != nil {
			var stale []string
			fin := m.final()
			for _, x := range []struct {
				name     string
				got, exp bool
			}{{"quarantine", hd.quarantine, fin.quarantine}, {"requiretls", hd.requireTLS, fin.requireTLS},
				{"tls-required-no", hd.tlsNo, fin.tlsNo}, {"smtputf8", hd.utf8, fin.utf8}} {
				if x.got != x.exp {
					stale = append(stale, x.name)
				}
			}
			if len(stale) > 0 {
				out.Violation("C05/queued-metadata-not-final/"+strings.Join(stale, "+"), op,
					fmt.Sprintf("message %d: the queue started the remote target with %s, the source's meta-data was %s when the body stage ended", mi, *hd, fin))
			}
		}
		f := c05PoliciesInForce(h.cfg, m)
		for i, di := range m.rcpts {
			res := obs[mi].rcpt[i]
			got := false
			for _, e := range events {
				if e.msg == mi && e.kind == "data" {
					if d2, _ := c05FindMX(h, e.srv); d2 == di {
						got = true
					}
				}
			}
			// "delivered" must mean some MX of the domain holds the content, and the converse
			// (per domain: recipients of one domain share the transaction)
			anyOK := false
			for j, dj := range m.rcpts {
				anyOK = anyOK || (dj == di && obs[mi].rcpt[j] == "ok")
			}
			if anyOK != got {
				out.Violation("C05/status-vs-ground-truth", op, fmt.Sprintf("message %d domain %d: a recipient reported delivered=%v but content received=%v", mi, di, anyOK, got))
			}
			// quarantined before the recipients: refused; quarantined later: refused unless the
			// recipient had already failed for another reason
			if (m.quarantine == 1 && res != "perm") || (m.quarantine == 2 && res == "ok") {
				out.Violation("C05/quarantine-not-refused", op, fmt.Sprintf("message %d recipient %d: %s", mi, i, res))
			}
			// TLSA discovery failure: when every candidate either has a failing discovery or is
			// excluded by enforce-mode MTA-STS anyway, and at least one is of the first kind, the
			// delivery is deferred (in whatever order the candidates are tried)
			if m.quarantine != 1 && f.dane {
				all, some := true, false
				for _, mx := range h.doms[di].mxs {
					excluded := f.mtasts && h.doms[di].sts == 'e' && !mx.stsMatch
					failed := c05Discovery(mx) == "fail"
					if !excluded && !failed {
						all = false
					}
					if failed && !excluded {
						some = true
					}
				}
				if all && some && res != "temp" {
					out.Violation("C05/tlsa-failure-not-deferred", op, fmt.Sprintf("message %d recipient %d (domain %d): %s (%s)", mi, i, di, res, obs[mi].errs[i]))
				}
			}
		}
	}
}

// ---------------------------------------------------------------- generators

func c05GenMX(r *vh.Rng, srv int) c05MX {
	pickB := func(s string, w ...int) byte {
		tot := 0
		for _, x := range w {
			tot += x
		}
		k := r.Intn(tot)
		for i, x := range w {
			if k < x {
				return s[i]
			}
			k -= x
		}
		return s[0]
	}
	m := c05MX{
		srv:      srv,
		up:       !r.Chance(8),
		starttls: pickB("oshc", 60, 15, 15, 10),
		cert:     pickB("vuw", 50, 25, 25),
		stsMatch: r.Chance(65),
		aAD:      r.Chance(70),
		tlsaAD:   r.Chance(75),
		tlsa:     pickB(c05TLSAKinds, 25, 18, 13, 10, 9, 8, 5, 2, 2, 3, 3, 2, 2),
		reqtls:   r.Chance(60),
		slow:     r.Chance(4),
	}
	// the DNSSEC-aware resolver cannot look the host up at all
	if r.Chance(4) {
		m.addrRc, m.aAD = c05FailKinds[r.Intn(len(c05FailKinds))], true
	}
	// address families of the host: IPv6-only, dual-stack, no address at all
	switch k := r.Intn(100); {
	case k < 14:
		m.fam = '6'
	case k < 27:
		m.fam = 'b'
	}
	// the presented chain: a further certificate (the genuine MX's, or a foreign CA's) after / between leaf and issuer
	if r.Chance(25) {
		m.chain = byte('1' + r.Intn(6))
	}
	// the MX name is an alias: signed / unsigned CNAME RRset, an independent TLSA outcome at the initial
	// name, the canonical name more often in a signed zone (both base domains are then consulted)
	if r.Chance(35) {
		m.alias = pickB("si", 75, 25)
		m.tlsaI = pickB(c05TLSAKinds, 30, 16, 11, 10, 8, 9, 4, 2, 1, 3, 3, 2, 2)
		m.tlsaIAD = r.Chance(75)
		m.cnameErr = r.Chance(12)
		if m.cnameErr && r.Chance(50) {
			m.cnameRc = "RNFG"[r.Intn(4)]
		}
		if r.Chance(50) {
			m.aAD = true
		}
		if r.Chance(35) { // nothing (authenticated) at the canonical name: the initial name decides
			if r.Chance(50) {
				m.tlsa = 'n'
			} else {
				m.tlsaAD = false
			}
		}
	}
	// a record kind needs the certificate it refers to in the chain
	for _, k := range []byte{m.tlsa, m.tlsaI} {
		if (k == 'p' || k == 'a') && m.chain == 0 {
			m.chain = byte('1' + r.Intn(6))
		}
	}
	for _, k := range []byte{m.tlsa, m.tlsaI} {
		if (k == 't' || k == 'i') && (m.chain == '1' || m.chain == '4') {
			m.chain += byte(1 + r.Intn(2))
		}
	}
	return m
}

// an impostor in front of domain 0: it presents its own end-entity certificate (any verdict) followed by the genuine
// MX's certificate; the authenticated RRset pins the genuine certificate (DANE-EE) — or a certificate off the path (DANE-TA)
func c05Impostor(r *vh.Rng, m *c05MX) {
	m.up, m.starttls, m.aAD, m.tlsaAD = true, 'o', true, true
	m.addrRc = 0
	if m.fam == 'x' {
		m.fam = 'b'
	}
	m.cert = "uuwv"[r.Intn(4)]
	m.chain = byte('1' + r.Intn(3))
	m.tlsa = 'p'
	if r.Chance(25) {
		m.chain = byte('1' + r.Intn(6))
		m.tlsa = "paai"[r.Intn(4)]
		if m.tlsa == 'i' && (m.chain == '1' || m.chain == '4') {
			m.chain++
		}
	}
	if m.alias != 0 {
		m.alias, m.tlsaI, m.tlsaIAD, m.cnameErr = 's', "nmpe"[r.Intn(4)], true, false
	}
}

func c05GenHist(r *vh.Rng) c05Hist {
	var h c05Hist
	c := &h.cfg
	c.mtasts, c.dane, c.dnssec = r.Chance(60), r.Chance(60), r.Chance(50)
	c.preload = r.Chance(15)
	if r.Chance(70) {
		c.local = true
		c.minTLS, c.minMX = r.Intn(3), r.Intn(3)
		if r.Chance(40) {
			c.minMX = 0
		}
	}
	if c.local && r.Chance(30) {
		// the words written out (always in a spelling the documentation gives), a directive left out (its default applies)
		if r.Chance(25) {
			c.minTLS = c05DefaultMinTLS
		}
		if r.Chance(25) {
			c.minMX = c05DefaultMinMX
		}
		c.words = &c05Words{tls: c05TLSWords[c.minTLS], mx: c05MXWords[c.minMX]}
		c.words.tlsOmit = c.minTLS == c05DefaultMinTLS && r.Chance(60)
		c.words.mxOmit = c.minMX == c05DefaultMinMX && r.Chance(60)
		if c.words.tlsOmit {
			c.words.tls = ""
		}
		if c.words.mxOmit {
			c.words.mx = ""
		}
	}
	c.override, c.relaxed = r.Chance(65), r.Chance(50)
	c.reuse = []int{10, 10, 10, 1, 0}[r.Intn(5)]
	sts := "antee"
	h.doms[0] = c05Dom{mxAD: r.Chance(50), sts: sts[r.Intn(len(sts))], mxs: []c05MX{c05GenMX(r, 1)}}
	if r.Chance(50) {
		h.doms[0].mxs = append(h.doms[0].mxs, c05GenMX(r, 2))
		if r.Chance(30) { // lower preference for server 1
			h.doms[0].mxs[0], h.doms[0].mxs[1] = h.doms[0].mxs[1], h.doms[0].mxs[0]
		}
	}
	h.doms[1] = c05Dom{mxAD: r.Chance(50), sts: sts[r.Intn(len(sts))], mxs: []c05MX{c05GenMX(r, 3)}}
	if r.Chance(35) { // a friendly world: more deliveries, more pooled connections
		for di := range h.doms {
			for i := range h.doms[di].mxs {
				m := &h.doms[di].mxs[i]
				m.up = true
				if m.fam == 'x' {
					m.fam = '6'
				}
				if r.Chance(70) {
					m.starttls, m.cert = 'o', 'v'
				}
				if c05KindFails(m.tlsa) || m.tlsa == 'm' {
					m.tlsa = 'n'
				}
				if c05KindFails(m.tlsaI) || m.tlsaI == 'm' {
					m.tlsaI = 'n'
				}
				m.cnameErr = false
				m.addrRc = 0
				m.stsMatch = true
			}
		}
	}
	if r.Chance(6) {
		c.dane = true
		c05Impostor(r, &h.doms[0].mxs[0])
	}
	n := 1 + r.Intn(3)
	for i := 0; i < n; i++ {
		h.msgs = append(h.msgs, c05GenMsg(r))
	}
	return h
}

// a world in which lookups of TLSA discovery CRASH: one candidate per domain, DANE mostly configured, servers that
// take mail (a discovery that "found nothing" would let it through), the stage mostly one that discovery reaches
func c05CrashWorld(r *vh.Rng, h *c05Hist) {
	h.doms[0].mxs = h.doms[0].mxs[:1]
	if r.Chance(90) {
		h.cfg.dane = true
	}
	some := false
	for di := range h.doms {
		m := &h.doms[di].mxs[0]
		if di == 1 && some && r.Chance(40) {
			continue
		}
		some = true
		m.crash = "aattc"[r.Intn(5)]
		m.addrRc = 0
		m.up = true
		if m.starttls == 'c' || m.starttls == 'h' {
			m.starttls = "os"[r.Intn(2)]
		}
		switch m.crash {
		case 't':
			if r.Chance(80) {
				m.aAD = true
			}
		case 'c':
			if r.Chance(75) {
				// an alias whose address answer is not authenticated as a whole: the CNAME-type query is made
				if m.alias == 0 {
					m.alias, m.tlsaI, m.tlsaIAD, m.cnameErr = 's', "nem"[r.Intn(3)], r.Chance(75), false
				}
				if m.alias == 's' {
					m.aAD = false
				}
			}
		}
	}
}

// another spelling of a documented word: Capitalised, UPPER, mixed case, junk around it (what a quoted argument can
// carry: blanks, a tab, punctuation, single quotes), or combinations
func c05Respell(r *vh.Rng, w string) string {
	b := []byte(w)
	switch r.Intn(6) {
	case 0:
		b[0] -= 'a' - 'A'
	case 1:
		b = []byte(strings.ToUpper(w))
	case 2, 3:
		for changed := false; !changed; {
			for i := range b {
				if b[i] >= 'a' && b[i] <= 'z' && r.Chance(40) {
					b[i] -= 'a' - 'A'
					changed = true
				}
			}
		}
	case 4:
		if r.Chance(40) {
			b[0] -= 'a' - 'A'
		}
		fallthrough
	default:
		pre := []string{"", "", " ", "\t", "'", "-", "="}[r.Intn(7)]
		post := []string{"", " ", ";", ",", ".", "'", ":", " #"}[r.Intn(8)]
		if pre == "" && post == "" {
			post = " "
		}
		b = []byte(pre + string(b) + post)
	}
	return string(b)
}

// a configuration whose minimum levels are NOT written the way the documentation writes them, on a world where the
// difference shows (servers that take mail, often below the documented minimum)
func c05GenSpelled(r *vh.Rng) c05Hist {
	h := c05GenHist(r)
	c := &h.cfg
	c.local = true
	c.minTLS, c.minMX = []int{2, 2, 2, 1, 1, 0}[r.Intn(6)], []int{0, 0, 1, 2, 2, 1}[r.Intn(6)]
	if c.minMX == 1 {
		c.mtasts = true
	}
	if c.minMX == 2 {
		c.dnssec = true
	}
	w := &c05Words{tls: c05TLSWords[c.minTLS], mx: c05MXWords[c.minMX]}
	switch r.Intn(4) {
	case 0:
		w.mx = c05Respell(r, w.mx)
	case 1:
		w.tls, w.mx = c05Respell(r, w.tls), c05Respell(r, w.mx)
	default:
		w.tls = c05Respell(r, w.tls)
	}
	if w.mx == "none" && r.Chance(50) {
		w.mx, w.mxOmit = "", true
	}
	if w.tls == "encrypted" && r.Chance(50) {
		w.tls, w.tlsOmit = "", true
	}
	c.words = w
	for di := range h.doms {
		for i := range h.doms[di].mxs {
			m := &h.doms[di].mxs[i]
			m.up = true
			if m.starttls == 'c' {
				m.starttls = 's'
			}
		}
	}
	for i := range h.msgs {
		if r.Chance(70) {
			h.msgs[i].tlsNo, h.msgs[i].quarantine = false, 0
		}
	}
	return h
}

func c05GenMsg(r *vh.Rng) c05Msg {
	m := c05Msg{}
	switch r.Intn(10) {
	case 0, 1:
		m.requireTLS = true
	case 2, 3, 4:
		m.tlsNo = true
	case 5:
		m.requireTLS, m.tlsNo = true, true
	}
	if r.Chance(10) {
		m.quarantine = 1 + r.Intn(2)
	}
	switch r.Intn(10) {
	case 0:
		m.rcpts = []int{0, 1}
	case 1:
		m.rcpts = []int{1, 0}
	case 2:
		m.rcpts = []int{0, 0}
	case 3:
		m.rcpts = []int{1}
	case 4:
		m.rcpts = []int{0, 1, 0}
	default:
		m.rcpts = []int{0}
	}
	return m
}

// overlapping deliveries to domain 0 on a random world: 2-3 deliveries start while the MTA-STS fetch / the TLSA
// answers / the MX answer are held back, one of them (mostly the one that started first) is cancelled or times out
// meanwhile; sometimes a message follows the batch (it finds what the batch left in the pool)
func c05GenConc(r *vh.Rng) c05Hist {
	h := c05GenHist(r)
	h.msgs = nil
	c := &c05Conc{gate: "ssssssttttmmm"[r.Intn(13)], kind: "cccdd"[r.Intn(5)], k: 2}
	if r.Chance(35) {
		c.k = 3
	}
	switch {
	case r.Chance(12):
		c.victim = 9
	case r.Chance(55):
		c.victim = 0
	default:
		c.victim = r.Intn(c.k)
	}
	// a single cancelled delivery, then messages one after the other: what it leaves behind (pool, anything a
	// policy module remembers) must not weaken the policy in force for them
	alone := c.victim == 0 && c.gate != 't' && r.Chance(25)
	if alone {
		c.k = 1
	}
	h.conc = c
	if c.gate == 's' {
		if r.Chance(85) {
			h.cfg.mtasts = true
		}
		if r.Chance(50) {
			h.doms[0].sts = 'e'
		}
	}
	if c.gate == 't' && r.Chance(80) {
		h.cfg.dane = true
		for i := range h.doms[0].mxs {
			h.doms[0].mxs[i].aAD = true
		}
	}
	if r.Chance(60) { // the servers of domain 0 can be talked to: the healthy deliveries get somewhere
		for i := range h.doms[0].mxs {
			m := &h.doms[0].mxs[i]
			m.up = true
			if m.fam == 'x' {
				m.fam = 0
			}
			if m.starttls == 'c' || m.starttls == 'h' {
				m.starttls = 'o'
			}
		}
	}
	for i := 0; i < c.k; i++ {
		m := c05Msg{rcpts: [][]int{{0}, {0}, {0}, {0}, {0, 1}, {0, 0}}[r.Intn(6)]}
		switch r.Intn(10) {
		case 0, 1:
			m.requireTLS = true
		case 2, 3:
			m.tlsNo = true
		case 4:
			m.requireTLS, m.tlsNo = true, true
		}
		if r.Chance(5) {
			m.quarantine = 2
		}
		h.msgs = append(h.msgs, m)
	}
	if c.victim != 9 && c.gate == 's' {
		if !h.cfg.mtasts {
			c.victim = 9 // nothing is fetched: nobody can be held at this gate
		} else if !c05PoliciesInForce(h.cfg, h.msgs[c.victim]).mtasts {
			h.msgs[c.victim].tlsNo = false
		}
	}
	if (c.victim == 9 || c.gate != 't') && (alone || r.Chance(45)) {
		h.msgs = append(h.msgs, c05GenMsg(r))
		if alone && r.Chance(70) {
			h.msgs[len(h.msgs)-1].rcpts = []int{0}
		}
		if alone && r.Chance(40) {
			h.msgs = append(h.msgs, c05GenMsg(r))
		}
	}
	if !c05ConcOK(h) {
		panic("c05GenConc: ill-formed batch " + h.Op())
	}
	return h
}

// a history that reaches the remote target through the queue (front q: the harness plays msgpipeline; front p: the real
// msgpipeline with the scripted check): the policy inputs change between Start and the end of the body stage
func c05GenVia(r *vh.Rng) c05Hist {
	h := c05GenHist(r)
	h.front = "qqqpp"[r.Intn(5)]
	if r.Chance(60) { // servers that accept mail: a stale flag shows as content that must not be there
		for di := range h.doms {
			for i := range h.doms[di].mxs {
				m := &h.doms[di].mxs[i]
				m.up = true
				if m.fam == 'x' {
					m.fam = 0
				}
				if m.starttls == 'c' {
					m.starttls = 'o'
				}
			}
		}
	}
	n := 1 + r.Intn(2)
	h.msgs = nil
	for i := 0; i < n; i++ {
		m := c05GenMsg(r)
		fin := c05Flags{m.requireTLS, m.tlsNo, r.Chance(40), r.Chance(30)}
		init := fin
		if r.Chance(50) {
			init.requireTLS = !fin.requireTLS
		}
		if r.Chance(50) {
			init.tlsNo = !fin.tlsNo
		}
		if r.Chance(40) {
			init.utf8 = !fin.utf8
		}
		via := &c05MsgVia{}
		if fin.quarantine && r.Chance(80) {
			init.quarantine = false
			if h.front == 'p' {
				via.stage = "csrbb"[r.Intn(5)]
			}
		}
		via.init = init
		m.quarantine, m.utf8, m.via = 0, fin.utf8, via
		if fin.quarantine {
			m.quarantine = 1
		}
		h.msgs = append(h.msgs, m)
	}
	return h
}

// Several attempts: the messages go through the queue, the first attempt mostly fails temporarily (MX down, STARTTLS
// command answered 454, or whatever a random world does), then the world is another one — servers that take mail, often
// in plaintext / with a certificate that does not verify / behind an unsigned MX RRset — and the queue tries again from
// its spool (same instance, restarted instance, instance restarted before the first attempt).
func c05GenRetry(r *vh.Rng) c05Hist {
	h := c05GenVia(r)
	h.retry = "rrsssbb"[r.Intn(7)]
	cp := func(d [2]c05Dom) [2]c05Dom {
		for i := range d {
			d[i].mxs = append([]c05MX(nil), d[i].mxs...)
		}
		return d
	}
	h.domsB = cp(h.doms)
	for di := range h.domsB {
		for i := range h.domsB[di].mxs {
			m := &h.domsB[di].mxs[i]
			if r.Chance(85) {
				m.up = true
			}
			if m.starttls == 'c' && r.Chance(70) {
				m.starttls = "os"[r.Intn(2)]
			}
		}
	}
	switch k := r.Intn(10); {
	case k < 6: // the same hosts, out of order for a while
		h.doms = cp(h.domsB)
		for di := range h.doms {
			for i := range h.doms[di].mxs {
				m := &h.doms[di].mxs[i]
				switch r.Intn(5) {
				case 0, 1, 2:
					m.up = false
				case 3:
					m.up, m.starttls = true, 'c'
				}
			}
		}
	case k < 8: // the hosts were fine (authenticated TLS, signed zone) when the message came in
		h.doms = cp(h.domsB)
		for di := range h.doms {
			h.doms[di].mxAD = true
			for i := range h.doms[di].mxs {
				m := &h.doms[di].mxs[i]
				m.up, m.starttls, m.cert, m.stsMatch, m.reqtls = r.Chance(40), 'o', 'v', true, true
			}
		}
	default: // an unrelated world (h.doms as generated)
	}
	for i := range h.msgs {
		m := &h.msgs[i]
		if r.Chance(45) { // REQUIRETLS when the body stage ends
			m.requireTLS = true
			if r.Chance(70) {
				m.tlsNo = false
			}
			if r.Chance(80) {
				m.quarantine = 0
				m.via.init.quarantine, m.via.stage = false, 0
			}
		}
		if m.quarantine != 0 && h.retry != 'b' && r.Chance(70) { // refused for good at the first attempt: nothing to retry
			m.quarantine = 0
			m.via.init.quarantine, m.via.stage = false, 0
		}
	}
	if h.cfg.words != nil || r.Chance(50) {
		// an MX level for REQUIRETLS to ask for
		h.cfg.dnssec = true
	}
	return h
}

// all histories of 1..3 messages over the given message kinds, on a fixed world
func c05EnumHistories(base c05Hist, kinds []c05Msg, maxLen int) []c05Hist {
	var out []c05Hist
	var rec func(prefix []c05Msg)
	rec = func(prefix []c05Msg) {
		if len(prefix) > 0 {
			h := base
			h.msgs = append([]c05Msg(nil), prefix...)
			out = append(out, h)
		}
		if len(prefix) == maxLen {
			return
		}
		for _, k := range kinds {
			rec(append(append([]c05Msg(nil), prefix...), k))
		}
	}
	rec(nil)
	return out
}

func c05MustParse(op string) c05Hist {
	h, err := c05ParseOp(op)
	if err != nil {
		panic(op + ": " + err.Error())
	}
	return h
}

// fixed worlds for the systematic part: two requirement levels (a weak and a strong
// configuration) over servers that a strong configuration would refuse / accept
func c05SystematicBases() []c05Hist {
	return []c05Hist{
		// strong policies, MX offers nothing: only an override message can get through
		c05MustParse("C05 hist 1011.21.11.10 1e:1.1.s.v.0.1.1.n.0.0 0a:3.1.s.v.0.0.0.n.0.0 000:0"),
		// strong policies, good MX
		c05MustParse("C05 hist 1011.21.11.10 1e:1.1.o.v.1.1.1.e.1.0 0t:3.1.o.v.1.1.1.n.0.0 000:0"),
		// DANE only, TLSA lookups fail
		c05MustParse("C05 hist 0010.-.10.10 0a:1.1.o.v.0.1.1.f.0.0 0a:3.1.o.u.0.1.1.f.0.0 000:0"),
		// MTA-STS enforce with an unlisted first MX and a listed second one, self-signed
		c05MustParse("C05 hist 1000.10.11.10 0e:1.1.o.v.0.0.0.n.1.0;2.1.o.u.1.0.0.n.1.0 0e:3.1.o.v.1.0.0.n.0.0 000:0"),
		// weak configuration: no policies at all
		c05MustParse("C05 hist 0000.-.10.1 0a:1.1.h.v.0.0.0.n.0.0 0a:3.1.o.w.0.0.0.n.1.0 000:0"),
		// MTA-STS enforce + DANE: the listed first MX has a failing TLSA lookup, the second is not listed
		c05MustParse("C05 hist 1010.10.11.10 0e:1.1.o.v.1.1.1.f.0.0;2.1.o.v.0.1.1.n.0.0 0e:3.1.o.v.1.1.1.e.1.0 000:0"),
		c05MustParse("C05 hist 1010.10.11.1 0e:2.1.o.v.0.1.1.n.0.0;1.1.o.v.1.1.1.f.0.0 0e:3.1.o.v.1.1.1.e.1.0 000:0"),
		// relaxed REQUIRETLS, MX without the extension, second domain plaintext
		c05MustParse("C05 hist 1000.-.11.10 0t:1.1.o.v.1.0.0.n.0.0 0t:3.1.s.v.1.0.0.n.0.0 000:0"),
		// DANE, aliased MXs: lookup failure at the canonical name (nothing at the initial one) / self-signed server
		// authenticated by the records at the canonical name
		c05MustParse("C05 hist 0010.20.10.10 0a:1.1.o.v.0.1.1.f.0.0.sn10 0a:3.1.o.u.0.1.1.e.0.0.sm10 000:0"),
		// DANE, aliased MXs: lookup failure at the initial name after an unsigned answer at the canonical one / alias
		// into an unsigned zone, records at the initial name
		c05MustParse("C05 hist 0010.20.10.10 0a:1.1.o.v.0.1.0.e.0.0.sf10 0a:3.1.o.u.0.0.0.n.0.0.st10 000:0"),
	}
}

// histories that are run in every tier and for every seed: the shortest replays of the three
// defects found on the unchanged tree (each is a VIOLATION again if its fix is reverted).
func c05FixedOps() []string {
	ops := c05FixedOpsRaw()
	for i, op := range ops {
		// {word}: the hex form of a configuration word
		for {
			a := strings.IndexByte(op, '{')
			if a < 0 {
				break
			}
			b := a + strings.IndexByte(op[a:], '}')
			op = op[:a] + vh.HexBytes([]byte(op[a+1:b])) + op[b+1:]
		}
		ops[i] = op
	}
	return ops
}

func c05FixedOpsRaw() []string {
	return []string{
		// THE CONFIGURATION WORDS.  min_tls_level / min_mx_level not written in lower case (or with something around the
		// word): refused at start-up, or enforced as the documented level — never accepted and ignored.  Worlds where the
		// difference shows: plaintext-only / self-signed MX, MX RRset not signed, MX not listed in the MTA-STS policy
		"C05 hist 0000.20~{Authenticated}~{none}.10.10 0a:1.1.s.v.0.0.0.n.0.0 0a:3.1.o.u.0.0.0.n.0.0 000:0,1",
		"C05 hist 0001.02~{none}~{DNSSEC}.10.10 0a:1.1.o.v.0.0.0.n.0.0 0a:3.1.o.v.0.0.0.n.0.0 000:0/000:1",
		"C05 hist 1000.11~{ENCRYPTED}~{MtaSts}.10.10 0e:1.1.s.v.1.0.0.n.0.0 0a:3.1.o.v.0.0.0.n.0.0 000:0,1",
		"C05 hist 0000.20~{authenticated }~_.10.10 0a:1.1.o.w.0.0.0.n.0.0 0a:3.1.s.v.0.0.0.n.0.0 000:0,1",
		"C05 hist 0011.22~{AUTHENTICATED}~{Dnssec}.00.1 0a:1.1.o.u.0.1.1.m.0.0 0a:3.1.h.v.0.0.0.n.0.0 000:0,1/100:1",
		// … written as documented (quoted or not), or left out: accepted, the documented level / the default is enforced
		"C05 hist 0000.10~_~_.10.10 0a:1.1.s.v.0.0.0.n.0.0 0a:3.1.o.u.0.0.0.n.0.0 000:0,1",
		"C05 hist 0001.22~{authenticated}~{dnssec}.10.10 1a:1.1.o.u.0.0.0.n.0.0 0a:3.1.o.v.0.0.0.n.0.0 000:0,1",
		// a connection opened for a TLS-Required: No message is pooled and reused
		"C05 hist 1011.21.11.10 1e:1.1.s.v.0.1.1.n.0.0 0a:3.1.s.v.0.0.0.n.0.0 010:0/000:0",
		"C05 hist 0010.-.10.10 0a:1.1.o.v.0.1.1.f.0.0 0a:3.1.o.u.0.1.1.f.0.0 010:0/000:0",
		// relaxed REQUIRETLS cleared the flag for the following recipient domains
		"C05 hist 1000.-.11.10 0t:1.1.o.v.1.0.0.n.0.0 0t:3.1.s.v.1.0.0.n.0.0 100:0,1",
		"C05 hist 0001.01.11.10 1t:1.1.o.v.1.0.1.e.1.0 1n:3.1.o.v.1.0.1.u.0.0 100:1,0",
		"C05 hist 1011.-.01.0 0a:1.1.o.v.1.1.1.n.0.0 0e:3.1.o.v.1.0.1.n.0.0 110:0,1,0/000:0",
		// the TLSA lookup of an abandoned MX candidate answered for the next one
		// (first candidate down / refused by local_policy / other domain; next candidate's answer is slow)
		"C05 hist 0010.-.10.10 0a:1.0.o.v.0.1.1.n.0.0;2.1.o.v.0.1.1.m.0.1 0a:3.1.o.v.0.1.1.n.0.0 000:0",
		"C05 hist 1010.01.10.10 0t:1.1.o.v.0.1.1.n.0.0;2.1.o.v.1.1.1.f.0.1 0a:3.1.o.v.0.1.1.n.0.0 000:0",
		"C05 hist 0010.-.10.10 0a:1.1.s.v.0.1.1.e.0.1 0a:3.0.o.v.0.1.1.n.0.1 000:1,0",
		// a temporary failure of the first candidate (TLSA SERVFAIL / down) was reported as the
		// permanent refusal of the second one (not listed in the enforced MTA-STS policy)
		"C05 hist 1010.-.10.10 0e:1.1.o.v.1.1.1.f.0.0;2.1.o.v.0.1.1.n.0.0 0a:3.1.o.v.0.1.1.n.0.0 000:0",
		"C05 hist 1000.-.10.10 0e:1.0.o.v.1.1.1.n.0.0;2.1.o.v.0.1.1.n.0.0 0a:3.1.o.v.0.1.1.n.0.0 000:0",
		// nothing of the attempt for one candidate may leak into the attempt for the next one: two candidates with
		// certificates that do not verify (unknown issuer / wrong name), authenticated TLS required (local policy / REQUIRETLS)
		"C05 hist 0000.20.10.10 0a:1.1.o.u.0.0.0.n.0.0;2.1.o.u.0.0.0.n.0.0 0a:3.1.o.v.0.0.0.n.0.0 000:0",
		"C05 hist 0001.-.10.10 1a:1.1.o.w.0.0.0.n.1.0;2.1.o.u.0.0.0.n.1.0 0a:3.1.o.v.0.0.0.n.0.0 100:0",
		// the MX name is a signed alias (RFC 7672 §2.2.2).  A TLSA lookup failure at a name that is consulted defers:
		// at the canonical name (nothing published at the initial name) — with a PKIX-valid server, a second
		// candidate, the TLS-Required: No message first, REQUIRETLS
		"C05 hist 0010.-.10.10 0a:1.1.o.v.0.1.1.f.0.0.sn10 0a:3.1.o.v.0.1.1.n.0.0 000:0",
		"C05 hist 0010.-.10.10 0a:1.1.o.v.0.1.1.f.0.0.sn00 0a:3.1.o.v.0.1.1.n.0.0 000:0,1",
		"C05 hist 1011.10.10.10 1t:1.1.o.v.1.1.1.f.1.0.se10;2.1.o.v.0.1.0.n.1.0.sf10 1a:3.1.o.v.0.1.1.n.0.0 000:0/100:0",
		"C05 hist 0010.-.10.10 0a:1.1.o.v.0.1.1.f.0.0.sn10 0a:3.1.o.v.0.1.1.f.0.0.sn10 010:0,1/000:1,0",
		// … at the initial name, when the canonical name has nothing / nothing authenticated
		"C05 hist 0010.-.10.10 0a:1.1.o.v.0.1.1.n.0.0.sf10 0a:3.1.o.v.0.1.0.e.0.0.sf10 000:0,1",
		// … not consulted: authenticated records at the canonical name govern (self-signed server, DANE-EE / DANE-TA),
		// the initial name's failure / mismatching RRset is irrelevant
		"C05 hist 0010.20.10.10 0a:1.1.o.u.0.1.1.e.0.0.sf10 0a:3.1.o.u.0.1.1.t.0.0.sm10 000:0,1",
		// mismatching / unusable records at the canonical name, matching ones at the initial name: refused / TLS only
		"C05 hist 0010.-.10.10 0a:1.1.o.u.0.1.1.m.0.0.se10 0a:3.1.s.v.0.1.1.u.0.0.se10 000:0,1",
		// alias into an unsigned zone ("insecure CNAME"): the initial name is the base domain — matching, mismatching
		"C05 hist 0010.20.10.10 0a:1.1.o.u.0.0.0.n.0.0.se10 0a:3.1.o.v.0.0.1.e.0.0.sm10 000:0,1",
		// unsigned CNAME RRset: DANE does not apply / the CNAME-type query fails: deferred
		"C05 hist 0010.-.10.10 0a:1.1.o.v.0.1.1.m.0.0.im10 0a:3.1.o.v.0.1.1.n.0.0.in01 000:0,1",
		"C05 hist 0010.-.10.10 0a:1.1.o.v.0.0.1.n.0.0.sn01 0a:3.1.o.v.0.0.0.n.0.0.se10 000:0,1",
		// address families of the MX host.  IPv6-only host in a signed zone: the records found there are enforced
		// (mismatch: refused; DANE-EE match: a self-signed server is authenticated; second candidate; alias whose
		// canonical host is IPv6-only; TLSA lookup failure: deferred); dual-stack host
		"C05 hist 0010.-.10.10 0a:1.16.o.v.0.1.1.m.0.0 0a:3.1b.s.v.0.1.1.e.0.0 000:0,1",
		"C05 hist 0010.20.10.10 0a:1.16.o.u.0.1.1.e.0.0 0a:3.16.o.u.0.1.1.m.0.0.sn10 000:0,1",
		"C05 hist 1010.-.10.10 0t:1.06.o.v.1.1.1.n.0.0;2.16.s.v.1.1.1.t.0.0 1a:3.16.o.w.0.1.1.u.1.0 000:0/100:1,0",
		"C05 hist 0010.-.10.10 0a:1.1b.o.v.0.1.1.n.0.0 0a:3.16.o.v.0.1.1.f.0.0 000:0,1/100:1",
		// DANE pins the END-ENTITY certificate.  An impostor (own key; unknown issuer / wrong name / even PKIX-valid)
		// sends the genuine MX's certificate after its own: [leaf, G], [leaf, issuer, G], [leaf, G, issuer]; the
		// authenticated RRset is the DANE-EE record of G.  Refused, also under min_tls_level authenticated / REQUIRETLS,
		// as second candidate and behind an alias; the genuine-looking second domain is delivered to
		"C05 hist 0010.-.10.10 0a:1.1.o.u1.0.1.1.p.0.0 0a:3.1.o.u2.0.1.1.e.0.0 000:0,1",
		"C05 hist 0010.20.10.10 0a:1.1.o.u2.0.1.1.p.0.0 0a:3.1.o.w3.0.1.1.p.0.0 000:0,1",
		"C05 hist 1011.21.10.10 1t:1.1.o.v3.1.1.1.p.1.0 1a:3.1.o.v1.0.1.1.p.1.0 000:0/100:0,1",
		"C05 hist 0010.-.10.10 0a:1.0.o.v.0.1.1.n.0.0;2.1.o.w1.0.1.1.p.0.0 0a:3.1.o.u2.0.1.1.n.0.0.sp10 000:0,1/010:0",
		// DANE-EE record of the presented ISSUER certificate; DANE-TA records of a presented certificate that is
		// not on the path (foreign CA F; the non-CA certificate G); DANE-TA record of the issuer with F in between
		"C05 hist 0010.20.10.10 0a:1.1.o.u.0.1.1.i.0.0 0a:3.1.o.v6.0.1.1.i.0.0 000:0,1",
		"C05 hist 0010.-.10.10 0a:1.1.o.u5.0.1.1.a.0.0 0a:3.1.o.u2.0.1.1.a.0.0 000:0,1",
		"C05 hist 0010.20.10.10 0a:1.1.o.u6.0.1.1.t.0.0 0a:3.1.o.w3.0.1.1.t.0.0 000:0,1",
		// THROUGH THE QUEUE.  The quarantine decision falls at the body stage, after the queue delivery was started (the
		// harness as msgpipeline / the real msgpipeline with a check that asks for it at the connection, sender,
		// recipient, body stage): nothing is relayed
		"C05 via q 0000.-.10.10 0a:1.1.o.v.0.0.0.n.0.0 0a:3.1.o.v.0.0.0.n.0.0 0000>0010:0,1/0000>0000:0",
		"C05 via p 0000.-.10.10 0a:1.1.o.v.0.0.0.n.0.0 0a:3.1.o.v.0.0.0.n.0.0 0000>0010@b:0/0000>0010@c:1/0000>0010@s:0/0000>0010@r:0,1/0000>0000:1",
		"C05 via p 1011.21.11.10 1e:1.1.o.v.1.1.1.e.1.0 0t:3.16.o.v.1.1.1.n.0.0 0100>0110@r:0,1/1000>1010@b:0",
		// REQUIRETLS / TLS-Required: No / SMTPUTF8 as they are when the body stage ends: REQUIRETLS raised late (plaintext
		// MX refused, parameter forwarded), the override granted late / taken back (strong policies, plaintext MX)
		"C05 via q 0001.-.10.10 1a:1.1.s.v.0.0.0.n.0.0 1a:3.1.o.v.0.0.0.n.1.0 0000>1000:0,1/1000>0000:0",
		"C05 via p 1011.21.11.10 1e:1.1.s.v.0.1.1.n.0.0 0a:3.1.o.v.0.0.0.n.0.0 0000>0100:0/0100>0000:0",
		"C05 via q 0000.-.10.10 0a:1.1.o.v.0.0.0.n.0.0 0a:3.1.o.v.0.0.0.n.0.0 0000>0001:0/0001>0000:1",
		// A LOOKUP OF TLSA DISCOVERY CRASHES (panic inside the extended resolver, recovered by PrepareConn): nothing is known
		// about the TLSA records — deferred, never "no records".  At the address lookups (plaintext-only MX whose real RRset
		// pins its certificate), at the TLSA lookup (self-signed MX, mismatching RRset), at the CNAME-type query of an alias;
		// a stage discovery does not reach (unsigned address RRset: no TLSA lookup) changes nothing; strong policies with an
		// override message first and REQUIRETLS; alias: the lookup at the canonical name crashes
		"C05 hist 0010.-.10.10 0a:1.1.s.v.0.1.1.e.0.0a 0a:3.1.o.u.0.1.1.m.0.0t 000:0,1",
		"C05 hist 0010.20.10.10 0a:1.1.o.u.0.0.1.n.0.0c.se10 0a:3.1.o.v.0.0.0.n.0.0t 000:0,1/100:0",
		"C05 hist 1011.21.11.10 1e:1.1.o.v.1.1.1.e.1.0t 0a:3.1.o.v.0.1.1.n.0.0a 010:0/000:0,0/100:0,1",
		"C05 hist 0010.-.10.10 0a:1.1.s.v.0.1.1.n.0.0t.sn10 0a:3.1.o.w.0.1.0.e.0.0a.it10 000:0,1",
		// SEVERAL ATTEMPTS.  A REQUIRETLS message whose first attempt fails temporarily (MX down / STARTTLS answered 454) is
		// tried again from the spool when the MX offers plaintext only / a certificate that does not verify / sits behind
		// an unsigned MX RRset: refused again, never sent.  Retry by the same queue instance, after a restart, restart
		// before the first attempt; the other domain is delivered to at the first attempt
		"C05 retry qr 0001.-.10.10 1a:1.0.o.v.0.0.0.n.1.0 1a:3.1.o.v.0.0.0.n.1.0 1a:1.1.s.v.0.0.0.n.0.0 1a:3.1.o.v.0.0.0.n.1.0 0000>1000:0,1",
		"C05 retry qs 0001.-.10.10 1a:1.1.c.v.0.0.0.n.1.0 1a:3.0.o.v.0.0.0.n.1.0 1a:1.1.o.u.0.0.0.n.1.0 1a:3.1.o.w.0.0.0.n.1.0 1000>1000:0,1",
		"C05 retry pb 0001.-.10.10 1a:1.0.o.v.0.0.0.n.1.0 1a:3.0.o.v.0.0.0.n.1.0 0a:1.1.o.v.0.0.0.n.1.0 1a:3.1.s.v.0.0.0.n.1.0 0000>1000:0,1/0000>0010@b:0",
		"C05 retry ps 1001.10.11.10 1e:1.0.o.v.1.0.0.n.1.0 1a:3.0.o.v.0.0.0.n.1.0 0e:1.1.o.v.0.0.0.n.0.0 0a:3.1.h.v.0.0.0.n.0.0 0100>1000:0/0000>0000:1,0",
		// … the retried REQUIRETLS message does not take the connection an ordinary retried message has just pooled
		// (MX RRset not signed any more); TLS-Required: No and SMTPUTF8 come back from the spool as well
		"C05 retry qr 0001.-.11.10 1a:1.0.o.v.0.0.0.n.1.0 1a:3.0.o.v.0.0.0.n.1.0 0a:1.1.o.v.0.0.0.n.1.0 0a:3.1.o.v.0.0.0.n.1.0 0000>0000:0/0000>1000:0,1",
		"C05 retry qs 1011.21.11.10 1e:1.0.o.v.1.1.1.n.0.0 0a:3.0.o.v.0.0.0.n.0.0 1e:1.1.s.v.0.1.1.n.0.0 0a:3.1.o.u.0.0.0.n.0.0 0000>0101:0,1/0100>0000:0",
		"C05 retry qb 0010.-.10.10 0a:1.1.o.v.0.1.1.n.0.0 0a:3.1.o.v.0.1.1.n.0.0 0a:1.1.o.v.0.1.1.f.0.0 0a:3.1.o.u.0.1.1.m.0.0 0000>0000:0,1/0000>0010:1",
		// OVERLAPPING deliveries.  Enforce-mode MTA-STS, the only MX is not listed (or does not verify): two / three
		// deliveries start while the policy fetch is in flight, the first / the last one is cancelled / times out
		"C05 conc 1000.-.10.10 0e:1.1.o.v.0.0.0.n.0.0 0a:3.1.o.v.0.0.0.n.0.0 sc20 000:0/000:0",
		"C05 conc 1000.-.10.10 0e:1.1.o.u.1.0.0.n.0.0 0a:3.1.o.v.0.0.0.n.0.0 sd30 000:0/000:0,1/000:0/000:0",
		"C05 conc 1011.21.11.10 1e:1.1.s.v.0.1.1.n.0.0;2.1.o.v.1.1.1.n.1.0 0a:3.1.o.v.0.0.0.n.0.0 sc32 000:0/100:0/000:0/000:0",
		"C05 conc 1000.-.10.10 0e:1.1.o.v.0.0.0.n.0.0 0a:3.1.o.v.0.0.0.n.0.0 sc29 000:0/000:0/000:0",
		// … the delivery that started LAST is the one that is cancelled / times out
		"C05 conc 1000.-.10.10 0e:1.1.o.v.0.0.0.n.0.0 0a:3.1.o.v.0.0.0.n.0.0 sc21 000:0/000:0",
		"C05 conc 1000.20.10.10 0e:1.1.o.u.1.0.0.n.0.0 0a:3.1.o.v.0.0.0.n.0.0 sd32 000:0/000:0/000:0/000:0",
		// a cancelled delivery alone, then ordinary messages one after the other
		"C05 conc 1000.-.10.10 0e:1.1.o.v.0.0.0.n.0.0 0a:3.1.o.v.0.0.0.n.0.0 sc10 000:0/000:0/000:0",
		"C05 conc 1010.21.11.10 0e:1.1.o.u.1.1.1.e.1.0;2.1.o.v.0.1.1.n.1.0 0a:3.1.o.v.0.0.0.n.0.0 sd10 100:0/000:0,1/100:0",
		// … while the TLSA answers / the MX answer are held back (DANE with a matching / mismatching RRset)
		"C05 conc 1010.-.10.10 0e:1.1.o.v.1.1.1.e.0.0 0a:3.1.o.v.0.0.0.n.0.0 tc20 000:0/000:0",
		"C05 conc 0010.20.10.10 0a:1.1.o.u.0.1.1.m.0.0;2.1.o.u.0.1.1.e.0.0 0a:3.1.o.v.0.0.0.n.0.0 td31 000:0/000:0/000:0,1",
		"C05 conc 1010.-.10.10 0e:1.1.o.v.0.1.1.e.0.0;2.1.o.v.1.1.1.n.0.0 0a:3.1.o.v.0.0.0.n.0.0 mc20 000:0/000:0/000:0",
		"C05 conc 1001.11.11.1 1t:1.1.o.v.1.0.0.n.1.0 0a:3.1.o.v.0.0.0.n.0.0 md21 100:0,1/000:0/010:0",
	}
}

func c05Kinds() []c05Msg {
	return []c05Msg{
		{rcpts: []int{0}},
		{rcpts: []int{0}, tlsNo: true},
		{rcpts: []int{0}, requireTLS: true},
		{rcpts: []int{0, 1}, requireTLS: true},
		{rcpts: []int{0}, quarantine: 2},
	}
}

// ---------------------------------------------------------------- pairwise coverage of the fact product

// c05Factors lists, for one history, the value of every factor of the property's quantifier
// (configuration, domain 0, its first MX candidate, kind of the first message).
func c05Factors(h c05Hist) []string {
	m := h.doms[0].mxs[0]
	msg := h.msgs[0]
	loc := "-"
	if h.cfg.local {
		loc = fmt.Sprintf("%d%d", h.cfg.minTLS, h.cfg.minMX)
	}
	return []string{
		"mtasts=" + c05b(h.cfg.mtasts), "dane=" + c05b(h.cfg.dane), "dnssec=" + c05b(h.cfg.dnssec), "local=" + loc,
		"override=" + c05b(h.cfg.override), "relaxed=" + c05b(h.cfg.relaxed), fmt.Sprintf("reuse=%d", h.cfg.reuse),
		"mxAD=" + c05b(h.doms[0].mxAD), fmt.Sprintf("sts=%c", h.doms[0].sts), fmt.Sprintf("nmx=%d", len(h.doms[0].mxs)),
		"up=" + c05b(m.up), fmt.Sprintf("starttls=%c", m.starttls), fmt.Sprintf("cert=%c", m.cert), "listed=" + c05b(m.stsMatch),
		"aAD=" + c05b(m.aAD), "tlsaAD=" + c05b(m.tlsaAD), fmt.Sprintf("tlsa=%c", m.tlsa), "reqtls=" + c05b(m.reqtls),
		"chain=" + string(rune(m.chain+'0'*c05b2i(m.chain == 0))),
		"msg=" + c05b(msg.requireTLS) + c05b(msg.tlsNo) + strconv.Itoa(msg.quarantine),
		"alias=" + c05AliasTag(m), c05AliasFactor(m, "tlsaI", string(m.tlsaI)), c05AliasFactor(m, "tlsaIAD", c05b(m.tlsaIAD)),
		c05AliasFactor(m, "cnameErr", c05b(m.cnameErr)),
		"fam=" + string(rune(m.fam+'4'*c05b2i(m.fam == 0))),
		"crash=" + string(rune(m.crash+'-'*c05b2i(m.crash == 0))),
	}
}

func c05AliasTag(m c05MX) string {
	if m.alias == 0 {
		return "-"
	}
	return string(m.alias)
}

func c05AliasFactor(m c05MX, name, val string) string {
	if m.alias == 0 {
		return name + "=-"
	}
	return name + "=" + val
}

// number of values of each factor, in the order of c05Factors
var c05FactorSizes = []int{2, 2, 2, 10, 2, 2, 3, 2, 4, 2, 2, 4, 3, 2, 2, 2, 9, 2, 7, 12, 3, 10, 3, 3, 3, 4}

func c05b2i(b bool) byte {
	if b {
		return 1
	}
	return 0
}

type c05Pairwise struct{ seen map[string]bool }

func (p *c05Pairwise) add(h c05Hist) {
	f := c05Factors(h)
	for i := range f {
		for j := i + 1; j < len(f); j++ {
			p.seen[f[i]+"&"+f[j]] = true
		}
	}
}

func (p *c05Pairwise) report(out *vh.Out) {
	total := 0
	for i := range c05FactorSizes {
		for j := i + 1; j < len(c05FactorSizes); j++ {
			total += c05FactorSizes[i] * c05FactorSizes[j]
		}
	}
	out.StatN("c05.pairwise.value-pairs-covered", len(p.seen))
	out.StatN("c05.pairwise.value-pairs-total", total)
}

// ---------------------------------------------------------------- entry point

func c05OneCase(t *testing.T, out *vh.Out, pki *c05PKI, h c05Hist, rng *vh.Rng, verbose bool) {
	if h.retry != 0 {
		c05OneRetryCase(t, out, pki, h, rng, verbose)
		return
	}
	op := h.Op()
	env := c05Setup(t, h, pki, rng, verbose)
	c05ConfigStats(out, h, env)
	if env.refused {
		// refused at start-up: nothing is ever sent under this configuration
		out.Corr(op, "refused")
		if verbose {
			fmt.Printf("c05: configuration refused: %s\n%s", env.refusedWhy, env.cfgText)
		}
		return
	}
	c05ConfigMonitor(out, h, env)
	obs := c05Run(t, h, env)
	env.Close()
	if len(obs) != len(h.msgs) {
		return // the schedule of a `conc` case got stuck (reported as a test failure)
	}
	env.world.mu.Lock()
	events := append([]c05Event(nil), env.world.events...)
	env.world.mu.Unlock()
	out.Corr(op, c05Observation(h, obs, events))
	c05Monitor(out, h, obs, events)

	// distribution
	c05DeliveryStats(out, h, events)
	out.Stat(fmt.Sprintf("c05.msgs=%d", len(h.msgs)))
	out.Stat(fmt.Sprintf("c05.mx0=%d", len(h.doms[0].mxs)))
	pooledUse := false
	for _, e := range events {
		if e.kind == "data" {
			out.Stat("c05.data.tls=" + c05b(e.tls) + ".reused=" + c05b(e.reused))
			pooledUse = pooledUse || e.reused
		}
	}
	if pooledUse {
		out.Stat("c05.hist.with-reuse")
	}
	if h.front != 0 {
		for mi, m := range h.msgs {
			ch := ""
			for i, x := range [][2]bool{{m.via.init.requireTLS, m.requireTLS}, {m.via.init.tlsNo, m.tlsNo}, {m.via.init.quarantine, m.quarantine != 0}, {m.via.init.utf8, m.utf8}} {
				if x[0] != x[1] {
					ch += string("rnqu"[i])
				}
			}
			out.Stat(fmt.Sprintf("c05.via.front=%c.changed-after-start=%s", h.front, ch))
			if m.via.stage != 0 {
				out.Stat(fmt.Sprintf("c05.via.check-quarantines-at=%c", m.via.stage))
			}
			got := false
			for _, e := range events {
				got = got || (e.msg == mi && e.kind == "data")
			}
			out.Stat(fmt.Sprintf("c05.via.final-quarantine=%s.content-sent=%s", c05b(m.quarantine != 0), c05b(got)))
		}
	}
	if c := h.conc; c != nil {
		out.Stat(fmt.Sprintf("c05.conc.gate=%c.end=%c", c.gate, c.kind))
		out.Stat(fmt.Sprintf("c05.conc.k=%d.victim=%d", c.k, c.victim))
		out.Stat(fmt.Sprintf("c05.conc.followed-by=%d", len(h.msgs)-c.k))
		for mi := 0; mi < c.k; mi++ {
			if mi != c.victim {
				f := c05PoliciesInForce(h.cfg, h.msgs[mi])
				out.Stat(fmt.Sprintf("c05.conc.healthy.rcpt0=%s.mtasts=%s.sts=%c.dane=%s", obs[mi].rcpt[0], c05b(f.mtasts), h.doms[0].sts, c05b(f.dane)))
			}
		}
	}
	for mi, m := range h.msgs {
		if h.front == 0 && h.conc == nil {
			f := c05PoliciesInForce(h.cfg, m)
			for i, d := range m.rcpts {
				if mx := h.doms[d].mxs[0]; mx.crash != 0 && len(h.doms[d].mxs) == 1 {
					out.Stat(fmt.Sprintf("c05.crash.stage=%c.dane-in-force=%s.discovery=%s.rcpt=%s", mx.crash, c05b(f.dane), c05Discovery(mx), obs[mi].rcpt[i]))
				}
			}
			if obs[mi].crashFired {
				out.Stat("c05.crash.fired-in-message")
			}
		}
		if obs[mi].victim {
			for i := range m.rcpts {
				out.Stat(fmt.Sprintf("c05.conc.victim.gate=%c.rcpt=%s", h.conc.gate, obs[mi].rcpt[i]))
			}
			continue
		}
		kind := "plain"
		switch {
		case m.quarantine != 0:
			kind = "quarantine"
		case m.requireTLS && m.tlsNo:
			kind = "requiretls+no"
		case m.requireTLS:
			kind = "requiretls"
		case m.tlsNo && h.cfg.override:
			kind = "override"
		case m.tlsNo:
			kind = "no-ignored"
		}
		for i := range m.rcpts {
			out.Stat("c05.rcpt." + kind + "=" + obs[mi].rcpt[i])
			if e := obs[mi].errs[i]; e != "" {
				out.Stat("c05.err." + c05ErrKind(e))
			}
		}
	}
}

// An ACCEPTED configuration enforces the minimum levels its words document: the local policy it produced is asked
// (through its own CheckMX / CheckConn) about a candidate one level below the documented minimum — it must refuse it.
// (The data-on-unsatisfying-conn rules judge every delivery against the documented levels as well.)
func c05ConfigMonitor(out *vh.Out, h c05Hist, env *c05Env) {
	if !h.cfg.local {
		return
	}
	for _, p := range env.pg.L {
		lp, ok := p.(*localPolicy)
		if !ok {
			continue
		}
		dp := lp.Start(&module.MsgMetadata{ID: "c05probe"})
		var weak []string
		if l := h.cfg.minTLS; l > 0 {
			if _, err := dp.CheckConn(context.Background(), module.MX_DNSSEC, module.TLSLevel(l-1), "d0.invalid", "mx1.d0.invalid", tls.ConnectionState{}); err == nil {
				weak = append(weak, fmt.Sprintf("min_tls_level documents %s, a connection of level %d is let through (stored level %v)", c05TLSWords[l], l-1, lp.minTLSLevel))
			}
		}
		if l := h.cfg.minMX; l > 0 {
			if _, err := dp.CheckMX(context.Background(), module.MXLevel(l-1), "d0.invalid", "mx1.d0.invalid", false); err == nil {
				weak = append(weak, fmt.Sprintf("min_mx_level documents %s, an MX of level %d is let through (stored level %v)", c05MXWords[l], l-1, lp.minMXLevel))
			}
		}
		if len(weak) > 0 {
			out.Violation("C05/configured-minimum-not-enforced", h.Op(), strings.Join(weak, "; ")+"; configuration:\n"+env.cfgText)
		}
		return
	}
	out.Violation("C05/configured-minimum-not-enforced", h.Op(), "local_policy is configured but no local policy is in the list; configuration:\n"+env.cfgText)
}

func c05ConfigStats(out *vh.Out, h c05Hist, env *c05Env) {
	acc := c05b(!env.refused)
	if w := h.cfg.words; w != nil {
		out.Stat("c05.cfg.min_tls_level.spelling=" + c05Spelling(w.tls, w.tlsOmit) + ".accepted=" + acc)
		out.Stat("c05.cfg.min_mx_level.spelling=" + c05Spelling(w.mx, w.mxOmit) + ".accepted=" + acc)
	}
	out.Stat("c05.cfg.accepted=" + acc)
}

// which TLSA base domain decides for an aliased MX (distribution only)
func c05BaseDomain(m c05MX) string {
	switch {
	case m.alias == 'i':
		return "unsigned-cname"
	case !m.aAD:
		return "insecure-target.initial-name"
	}
	if k := m.tlsa; c05KindFails(k) || (k != 'n' && m.tlsaAD) {
		return "canonical-name"
	}
	return "secure.fallback-to-initial-name"
}

func c05ErrKind(e string) string {
	for _, k := range [][2]string{
		{"quarantined", "quarantined"},
		{"unauthenticated but required (REQUIRETLS)", "requiretls-tls-level"},
		{"MX record authenticity (REQUIRETLS)", "requiretls-mx-level"},
		{"MX record authenticity (MTA-STS)", "mtasts-mx-not-listed"},
		{"unavailable or failed (MTA-STS)", "mtasts-no-tls"},
		{"authentication is required by MTA-STS", "mtasts-no-pkix"},
		{"enforced by DANE", "dane-no-tls"},
		{"No matching TLSA", "dane-mismatch"},
		{"Failed to establish the MX record authenticity", "local-min-mx"},
		{"unauthenticated but required", "local-min-tls"},
		{"does not support REQUIRETLS", "mail-requiretls-unsupported"},
		{"TLS not available due", "starttls-refused"},
		{"connection refused", "mx-down"},
		{"SERVFAIL", "tlsa-servfail"},
		{"rcode REFUSED", "lookup-refused"},
		{"rcode NOTIMP", "lookup-notimp"},
		{"rcode FORMERR", "lookup-formerr"},
		{"short read", "lookup-io-error"},
	} {
		if strings.Contains(e, k[0]) {
			return k[1]
		}
	}
	return "other"
}

// c05DeliveryStats records which paths of the code the deliveries of this history took.
func c05DeliveryStats(out *vh.Out, h c05Hist, events []c05Event) {
	for _, e := range events {
		if e.kind != "data" {
			continue
		}
		m := h.msgs[e.msg]
		di, mx := c05FindMX(h, e.srv)
		pos := 0
		for i, x := range h.doms[di].mxs {
			if x.srv == e.srv {
				pos = i
			}
		}
		out.Stat(fmt.Sprintf("c05.deliver.mx-candidate=%d/%d", pos+1, len(h.doms[di].mxs)))
		out.Stat(fmt.Sprintf("c05.deliver.starttls=%c.cert=%c.tls=%s", mx.starttls, mx.cert, c05b(e.tls)))
		f := c05PoliciesInForce(h.cfg, m)
		out.Stat(fmt.Sprintf("c05.deliver.addr-family=%c.dane-discovery=%s", mx.fam+'4'*c05b2i(mx.fam == 0), map[bool]string{true: c05Discovery(mx), false: "-"}[f.dane]))
		if e.tls && mx.cert != 'v' && ((f.local && h.cfg.minTLS == 2) || m.requireTLS) {
			out.Stat("c05.deliver.authenticated-by-dane-only")
		}
		if f.dane && c05Discovery(mx) != "none" {
			out.Stat("c05.deliver.dane-in-force.discovery=" + c05Discovery(mx))
		}
		if f.dane && mx.alias != 0 {
			out.Stat("c05.deliver.dane-in-force.aliased-mx." + c05BaseDomain(mx))
		}
		if f.mtasts {
			out.Stat(fmt.Sprintf("c05.deliver.mtasts-in-force.sts=%c.listed=%s", h.doms[di].sts, c05b(mx.stsMatch)))
		}
		if m.requireTLS {
			out.Stat(fmt.Sprintf("c05.deliver.requiretls.param=%s.server-ext=%s.relaxed=%s", c05b(e.rtParm), c05b(mx.reqtls), c05b(h.cfg.relaxed)))
		}
		if e.reused {
			kind := "plain"
			if m.tlsNo && h.cfg.override {
				kind = "override"
			}
			out.Stat("c05.deliver.reused-by=" + kind)
		} else if e.msg > 0 {
			// a new connection although an earlier message of the history was delivered to this server
			for _, e0 := range events {
				if e0.kind == "data" && e0.srv == e.srv && e0.msg < e.msg {
					why := "reuse-limit-or-override"
					if m.requireTLS {
						why = "requiretls-bypass"
					}
					out.Stat("c05.deliver.new-conn-after-earlier-delivery." + why)
					break
				}
			}
		}
	}
	for _, d := range h.doms {
		for _, mx := range d.mxs {
			if mx.alias != 0 && h.cfg.dane {
				out.Stat(fmt.Sprintf("c05.alias.%s.discovery=%s", c05BaseDomain(mx), c05Discovery(mx)))
			}
		}
	}
	out.Stat(fmt.Sprintf("c05.cfg.policies=%d", len(strings.ReplaceAll(h.cfg.String()[:4], "0", ""))))
	out.Stat(fmt.Sprintf("c05.cfg.reuse=%d", h.cfg.reuse))
}

func TestVerifC05(t *testing.T) {
	out := vh.Open("c05")
	defer out.Close()
	pki := c05NewPKI()
	c05ThePKI = pki

	// the package-level logger: silence it, but count the futures that were set twice (a lookup
	// goroutine delivering its result to a future it was not started for)
	savedOut := log.DefaultLogger.Out
	defer func() { log.DefaultLogger.Out = savedOut }()
	log.DefaultLogger.Out = log.FuncOutput(func(_ time.Time, _ bool, str string) {
		if strings.Contains(str, "Future.Set called multiple times") {
			out.Stat("c05.future-set-twice")
		}
	}, func() error { return nil })

	// a port on which 127.0.0.1-3 are all free
	saved := smtpPort
	defer func() { smtpPort = saved }()
	prng := vh.NewRng(vh.Seed() + 77)
	for try := 0; ; try++ {
		p := 10500 + prng.Intn(21000) // below the ephemeral range: no clash with client ports
		ok := true
		for ip := 1; ip <= 3 && ok; ip++ {
			for _, a := range []string{fmt.Sprintf("127.0.0.%d:%d", ip, p), fmt.Sprintf("127.0.0.%d:%d", 10+ip, p)} {
				l, err := net.Listen("tcp", a)
				if err != nil {
					ok = false
					break
				}
				l.Close()
			}
		}
		if ok {
			smtpPort = strconv.Itoa(p)
			break
		}
		if try > 200 {
			t.Fatal("no free port")
		}
	}

	if rp := vh.Replay(); rp != nil {
		for _, op := range rp {
			h, err := c05ParseOp(op)
			if err != nil {
				t.Fatal(err)
			}
			c05OneCase(t, out, pki, h, vh.NewRng(vh.Seed()), true)
		}
		return
	}

	rng := vh.NewRng(vh.Seed() + 5)
	for _, op := range c05FixedOps() {
		c05OneCase(t, out, pki, c05MustParse(op), rng, false)
		out.Stat("c05.fixed")
	}
	// systematic part: every 1-3 message history over the message kinds, on fixed worlds
	maxLen := 2
	if vh.Thorough() {
		maxLen = 3
	}
	for bi, base := range c05SystematicBases() {
		if !vh.Thorough() && bi%2 == int(vh.Seed()%2) {
			continue // quick tier: half of the fixed worlds per seed
		}
		for _, h := range c05EnumHistories(base, c05Kinds(), maxLen) {
			c05OneCase(t, out, pki, h, rng, false)
			out.Stat("c05.systematic")
		}
	}
	pw := &c05Pairwise{seen: map[string]bool{}}
	n := vh.N(150)
	for i := 0; i < n; i++ {
		hr := rng.Fork()
		h := c05GenHist(hr)
		if hr.Chance(7) {
			c05CrashWorld(hr, &h)
		}
		pw.add(h)
		c05OneCase(t, out, pki, h, rng, false)
		out.Stat("c05.random")
	}
	pw.report(out)
	// configurations whose level words are spelled in other ways (one eighth of the random histories; refused
	// configurations cost nothing: nothing runs)
	for i := 0; i < n/8; i++ {
		c05OneCase(t, out, pki, c05GenSpelled(rng.Fork()), rng, false)
		out.Stat("c05.random-spelled")
	}
	// through the queue / msgpipeline + queue (one tenth of the random histories)
	for i := 0; i < n/10; i++ {
		c05OneCase(t, out, pki, c05GenVia(rng.Fork()), rng, false)
		out.Stat("c05.random-via")
	}
	// several attempts through the queue, the world changing in between (n/25 cases, each sets up two worlds)
	for i := 0; i < n/25; i++ {
		c05OneCase(t, out, pki, c05GenRetry(rng.Fork()), rng, false)
		out.Stat("c05.random-retry")
	}
	// overlapping deliveries (one tenth of the random histories)
	for i := 0; i < n/10; i++ {
		c05OneCase(t, out, pki, c05GenConc(rng.Fork()), rng, false)
		out.Stat("c05.random-conc")
	}
}
