package remote

// C05 — outbound mail is only sent over connections that satisfy the security policy.
//
// One case = one HISTORY: a fixed configuration (policies built by the real PolicyGroup.Init
// from a config block, override / relaxed switches, reuse limit), fixed per-domain / per-MX
// facts (scripted go-smtp servers on 127.0.0.1-3 with generated certificate chains, a DNS
// server on loopback with AD control and TLSA RRsets, an injected MTA-STS fetcher) and 1-3
// consecutive messages through ONE real remote.Target (one connection pool).
//
//   op line:  C05 hist <cfg> <dom0> <dom1> <msgs>
//     cfg  = <mtasts><preload><dane><dnssec>.<local: - | <minTLS><minMX>>.<override><relaxed>.<reuseLimit>
//     dom  = <mxAD><sts a|n|t|e>:<mx>[;<mx>]     (MX candidates in preference order)
//     mx   = <srv>.<up>.<starttls o|s|h|c>.<cert v|u|w>.<stsMatch>.<aAD>.<tlsaAD>.<tlsa n|e|t|m|u|f>.<reqtls>.<slow TLSA answer>[.<alias>]
//     alias = <s|i><tlsa at the initial name n|e|t|m|u|f><its AD bit><CNAME-type query fails>
//            the MX host name is a CNAME (s: signed CNAME RRset, i: unsigned) to a canonical name; aAD/tlsaAD/tlsa
//            then describe the canonical name (address RRset, TLSA RRset), the alias field the TLSA RRset published
//            at _25._tcp.<MX name> itself.  The AD bit of the canonical TLSA answer is aAD && tlsaAD (an RRset below an
//            unsigned name is never reported authenticated).
//     msgs = <msg>[/<msg>…]   msg = <requireTLS><tlsRequiredNo><quarantine 0|1|2>:<dom>[,<dom>…]
//
//   observation (one line): per message  r:<dom>=<ok|temp|perm>,… d:<srv>.<tls>.<requiretls param>.<reused>,…
//
// The monitor (c05Monitor) evaluates the property from the scripted ground truth and what the
// servers received; it does not look at the model or at the levels the code computed.

import (
	"context"
	"crypto/ecdsa"
	"crypto/elliptic"
	"crypto/rand"
	"crypto/sha256"
	"crypto/tls"
	"crypto/x509"
	"crypto/x509/pkix"
	"encoding/hex"
	"errors"
	"fmt"
	"io"
	"math/big"
	"net"
	"sort"
	"strconv"
	"strings"
	"sync"
	"testing"
	"time"

	"github.com/emersion/go-message/textproto"
	"github.com/emersion/go-smtp"
	"github.com/foxcpp/go-mockdns"
	"github.com/foxcpp/go-mtasts"
	"github.com/foxcpp/maddy/framework/buffer"
	"github.com/foxcpp/maddy/framework/config"
	"github.com/foxcpp/maddy/framework/dns"
	"github.com/foxcpp/maddy/framework/exterrors"
	"github.com/foxcpp/maddy/framework/log"
	"github.com/foxcpp/maddy/framework/module"
	"github.com/foxcpp/maddy/internal/verifshim/vh"
	miekgdns "github.com/miekg/dns"
)

// ---------------------------------------------------------------- scenario

type c05MX struct {
	srv      int  // 1,2 (domain 0), 3 (domain 1)
	up       bool // something listens on the address the A record names
	starttls byte // o offered, s stripped, h handshake fails (not a verification error), c STARTTLS command refused
	cert     byte // v valid chain+name, u untrusted issuer, w trusted issuer but wrong name
	stsMatch bool // listed in the MTA-STS policy
	aAD      bool // AD on the A lookup of the MX host
	tlsaAD   bool // AD on the TLSA lookup
	tlsa     byte // n none, e EE matching, t TA matching, m mismatching, u unusable only, f SERVFAIL
	reqtls   bool // server implements REQUIRETLS
	slow     bool // the TLSA answers for this host are delayed (fault sequence: lookup latency)
	// the MX host name is an alias (CNAME): 0 no, 's' the CNAME RRset is DNSSEC-signed, 'i' it is not.
	// With an alias aAD / tlsaAD / tlsa describe the canonical name and the next three fields the initial name.
	alias    byte
	tlsaI    byte // TLSA RRset at _25._tcp.<MX name>: n none (NXDOMAIN), e, t, m, u, f as for tlsa
	tlsaIAD  bool // AD on that lookup
	cnameErr bool // the CNAME-type query for the MX name fails (SERVFAIL)
}

type c05Dom struct {
	mxAD bool
	sts  byte // a absent (fetch fails), n none, t testing, e enforce
	mxs  []c05MX
}

type c05Cfg struct {
	mtasts, preload, dane, dnssec bool
	local                         bool
	minTLS, minMX                 int
	override, relaxed             bool
	reuse                         int
}

type c05Msg struct {
	requireTLS, tlsNo bool
	quarantine        int // 0 no, 1 set before the first recipient, 2 set after the recipients, before the body
	rcpts             []int
}

type c05Hist struct {
	cfg  c05Cfg
	doms [2]c05Dom
	msgs []c05Msg
}

func c05b(b bool) string {
	if b {
		return "1"
	}
	return "0"
}

func (m c05MX) String() string {
	s := fmt.Sprintf("%d.%s.%c.%c.%s.%s.%s.%c.%s.%s", m.srv, c05b(m.up), m.starttls, m.cert, c05b(m.stsMatch), c05b(m.aAD), c05b(m.tlsaAD), m.tlsa, c05b(m.reqtls), c05b(m.slow))
	if m.alias != 0 {
		s += fmt.Sprintf(".%c%c%s%s", m.alias, m.tlsaI, c05b(m.tlsaIAD), c05b(m.cnameErr))
	}
	return s
}

func (d c05Dom) String() string {
	var ms []string
	for _, m := range d.mxs {
		ms = append(ms, m.String())
	}
	return fmt.Sprintf("%s%c:%s", c05b(d.mxAD), d.sts, strings.Join(ms, ";"))
}

func (c c05Cfg) String() string {
	l := "-"
	if c.local {
		l = fmt.Sprintf("%d%d", c.minTLS, c.minMX)
	}
	return fmt.Sprintf("%s%s%s%s.%s.%s%s.%d", c05b(c.mtasts), c05b(c.preload), c05b(c.dane), c05b(c.dnssec), l, c05b(c.override), c05b(c.relaxed), c.reuse)
}

func (m c05Msg) String() string {
	var rs []string
	for _, r := range m.rcpts {
		rs = append(rs, strconv.Itoa(r))
	}
	return fmt.Sprintf("%s%s%d:%s", c05b(m.requireTLS), c05b(m.tlsNo), m.quarantine, strings.Join(rs, ","))
}

func (h c05Hist) Op() string {
	var ms []string
	for _, m := range h.msgs {
		ms = append(ms, m.String())
	}
	return fmt.Sprintf("C05 hist %s %s %s %s", h.cfg, h.doms[0], h.doms[1], strings.Join(ms, "/"))
}

func c05ParseMX(s string) (c05MX, error) {
	f := strings.Split(s, ".")
	if (len(f) != 10 && len(f) != 11) || len(f[2]) != 1 || len(f[3]) != 1 || len(f[7]) != 1 {
		return c05MX{}, errors.New("bad mx " + s)
	}
	srv, err := strconv.Atoi(f[0])
	if err != nil {
		return c05MX{}, err
	}
	m := c05MX{srv: srv, up: f[1] == "1", starttls: f[2][0], cert: f[3][0], stsMatch: f[4] == "1", aAD: f[5] == "1",
		tlsaAD: f[6] == "1", tlsa: f[7][0], reqtls: f[8] == "1", slow: f[9] == "1"}
	if len(f) == 11 {
		a := f[10]
		if len(a) != 4 || (a[0] != 's' && a[0] != 'i') || !strings.ContainsRune("netmuf", rune(a[1])) {
			return c05MX{}, errors.New("bad alias " + s)
		}
		m.alias, m.tlsaI, m.tlsaIAD, m.cnameErr = a[0], a[1], a[2] == '1', a[3] == '1'
	}
	return m, nil
}

func c05ParseDom(s string) (c05Dom, error) {
	parts := strings.SplitN(s, ":", 2)
	if len(parts) != 2 || len(parts[0]) != 2 {
		return c05Dom{}, errors.New("bad dom " + s)
	}
	d := c05Dom{mxAD: parts[0][0] == '1', sts: parts[0][1]}
	for _, ms := range strings.Split(parts[1], ";") {
		m, err := c05ParseMX(ms)
		if err != nil {
			return d, err
		}
		d.mxs = append(d.mxs, m)
	}
	return d, nil
}

func c05ParseOp(op string) (c05Hist, error) {
	var h c05Hist
	t := strings.Fields(op)
	if len(t) != 6 || t[0] != "C05" || t[1] != "hist" {
		return h, errors.New("bad op")
	}
	cf := strings.Split(t[2], ".")
	if len(cf) != 4 || len(cf[0]) != 4 || len(cf[2]) != 2 {
		return h, errors.New("bad cfg")
	}
	h.cfg.mtasts, h.cfg.preload, h.cfg.dane, h.cfg.dnssec = cf[0][0] == '1', cf[0][1] == '1', cf[0][2] == '1', cf[0][3] == '1'
	if cf[1] != "-" {
		if len(cf[1]) != 2 {
			return h, errors.New("bad local")
		}
		h.cfg.local = true
		h.cfg.minTLS, h.cfg.minMX = int(cf[1][0]-'0'), int(cf[1][1]-'0')
	}
	h.cfg.override, h.cfg.relaxed = cf[2][0] == '1', cf[2][1] == '1'
	var err error
	if h.cfg.reuse, err = strconv.Atoi(cf[3]); err != nil {
		return h, err
	}
	for i := 0; i < 2; i++ {
		if h.doms[i], err = c05ParseDom(t[3+i]); err != nil {
			return h, err
		}
	}
	for _, ms := range strings.Split(t[5], "/") {
		parts := strings.SplitN(ms, ":", 2)
		if len(parts) != 2 || len(parts[0]) != 3 {
			return h, errors.New("bad msg " + ms)
		}
		m := c05Msg{requireTLS: parts[0][0] == '1', tlsNo: parts[0][1] == '1', quarantine: int(parts[0][2] - '0')}
		for _, rs := range strings.Split(parts[1], ",") {
			r, err := strconv.Atoi(rs)
			if err != nil || r < 0 || r > 1 {
				return h, errors.New("bad rcpt " + rs)
			}
			m.rcpts = append(m.rcpts, r)
		}
		h.msgs = append(h.msgs, m)
	}
	return h, nil
}

// ---------------------------------------------------------------- certificates

type c05PKI struct {
	roots *x509.CertPool
	// per certificate kind: the chain the server presents (leaf, issuer) and the TLSA data
	chain map[byte]tls.Certificate
	leaf  map[byte]*x509.Certificate
	ca    map[byte]*x509.Certificate
}

func c05MkCert(tmpl, parent *x509.Certificate, pub *ecdsa.PublicKey, signer *ecdsa.PrivateKey) *x509.Certificate {
	der, err := x509.CreateCertificate(rand.Reader, tmpl, parent, pub, signer)
	if err != nil {
		panic(err)
	}
	c, err := x509.ParseCertificate(der)
	if err != nil {
		panic(err)
	}
	return c
}

func c05NewPKI() *c05PKI {
	serial := int64(100)
	mkCA := func(cn string) (*x509.Certificate, *ecdsa.PrivateKey) {
		k, _ := ecdsa.GenerateKey(elliptic.P256(), rand.Reader)
		serial++
		t := &x509.Certificate{SerialNumber: big.NewInt(serial), Subject: pkix.Name{CommonName: cn},
			NotBefore: time.Now().Add(-24 * time.Hour), NotAfter: time.Now().Add(240 * time.Hour),
			IsCA: true, BasicConstraintsValid: true, KeyUsage: x509.KeyUsageCertSign | x509.KeyUsageDigitalSignature}
		return c05MkCert(t, t, &k.PublicKey, k), k
	}
	mkLeaf := func(ca *x509.Certificate, cak *ecdsa.PrivateKey, names []string) tls.Certificate {
		k, _ := ecdsa.GenerateKey(elliptic.P256(), rand.Reader)
		serial++
		t := &x509.Certificate{SerialNumber: big.NewInt(serial), Subject: pkix.Name{CommonName: names[0]},
			NotBefore: time.Now().Add(-24 * time.Hour), NotAfter: time.Now().Add(240 * time.Hour),
			DNSNames: names, KeyUsage: x509.KeyUsageDigitalSignature, ExtKeyUsage: []x509.ExtKeyUsage{x509.ExtKeyUsageServerAuth}}
		c := c05MkCert(t, ca, &k.PublicKey, cak)
		return tls.Certificate{Certificate: [][]byte{c.Raw, ca.Raw}, PrivateKey: k, Leaf: c}
	}
	good, goodK := mkCA("c05 trusted root")
	evil, evilK := mkCA("c05 unknown root")
	p := &c05PKI{roots: x509.NewCertPool(), chain: map[byte]tls.Certificate{}, leaf: map[byte]*x509.Certificate{}, ca: map[byte]*x509.Certificate{}}
	p.roots.AddCert(good)
	names := []string{"*.d0.invalid", "*.d1.invalid"}
	p.chain['v'] = mkLeaf(good, goodK, names)
	p.chain['u'] = mkLeaf(evil, evilK, names)
	p.chain['w'] = mkLeaf(good, goodK, []string{"elsewhere.invalid"})
	for k, c := range p.chain {
		p.leaf[k] = c.Leaf
	}
	p.ca['v'], p.ca['u'], p.ca['w'] = good, evil, good
	return p
}

func c05SPKIHash(c *x509.Certificate) string {
	h := sha256.Sum256(c.RawSubjectPublicKeyInfo)
	return hex.EncodeToString(h[:])
}

// ---------------------------------------------------------------- scripted servers

type c05Event struct {
	msg    int
	srv    int
	kind   string // mail | data
	tls    bool
	rtParm bool
	reused bool
}

type c05World struct {
	mu     sync.Mutex
	cur    int
	events []c05Event
	mails  map[string]int // connection (server id + client address) -> MAIL commands so far
}

type c05Backend struct {
	w   *c05World
	srv int
}

type c05Session struct {
	b      *c05Backend
	conn   *smtp.Conn
	rt     bool
	reused bool
}

func (b *c05Backend) NewSession(c *smtp.Conn) (smtp.Session, error) {
	return &c05Session{b: b, conn: c}, nil
}

func (s *c05Session) Reset()        {}
func (s *c05Session) Logout() error { return nil }

func (s *c05Session) Mail(from string, opts *smtp.MailOptions) error {
	w := s.b.w
	w.mu.Lock()
	defer w.mu.Unlock()
	key := fmt.Sprintf("%d/%s", s.b.srv, s.conn.Conn().RemoteAddr())
	s.rt = opts != nil && opts.RequireTLS
	s.reused = w.mails[key] > 0
	w.mails[key]++
	_, isTLS := s.conn.TLSConnectionState()
	w.events = append(w.events, c05Event{msg: w.cur, srv: s.b.srv, kind: "mail", tls: isTLS, rtParm: s.rt, reused: s.reused})
	return nil
}

func (s *c05Session) Rcpt(to string, _ *smtp.RcptOptions) error { return nil }

func (s *c05Session) Data(r io.Reader) error {
	if _, err := io.ReadAll(r); err != nil {
		return err
	}
	w := s.b.w
	w.mu.Lock()
	defer w.mu.Unlock()
	_, isTLS := s.conn.TLSConnectionState()
	w.events = append(w.events, c05Event{msg: w.cur, srv: s.b.srv, kind: "data", tls: isTLS, rtParm: s.rt, reused: s.reused})
	return nil
}

// listener whose connections answer the STARTTLS command with 454 (the server advertises the
// extension but refuses to start TLS); everything else reaches go-smtp.  The client is lock-step.
type c05RefuseTLSListener struct{ net.Listener }

type c05RefuseTLSConn struct{ net.Conn }

func (l c05RefuseTLSListener) Accept() (net.Conn, error) {
	c, err := l.Listener.Accept()
	if err != nil {
		return nil, err
	}
	return c05RefuseTLSConn{c}, nil
}

func (c c05RefuseTLSConn) Read(p []byte) (int, error) {
	for {
		n, err := c.Conn.Read(p)
		if n > 0 && strings.EqualFold(strings.TrimSpace(string(p[:n])), "STARTTLS") {
			if _, werr := c.Conn.Write([]byte("454 4.7.0 TLS not available due to temporary reason\r\n")); werr != nil {
				return 0, werr
			}
			if err != nil {
				return 0, err
			}
			continue
		}
		return n, err
	}
}

func c05StartServer(t *testing.T, w *c05World, pki *c05PKI, mx c05MX) (*smtp.Server, net.Listener) {
	addr := fmt.Sprintf("127.0.0.%d:%s", mx.srv, smtpPort)
	var l net.Listener
	var err error
	for i := 0; i < 50; i++ {
		if l, err = net.Listen("tcp", addr); err == nil {
			break
		}
		time.Sleep(20 * time.Millisecond)
	}
	if err != nil {
		t.Fatal(err)
	}
	s := smtp.NewServer(&c05Backend{w: w, srv: mx.srv})
	s.Domain = "localhost"
	s.AllowInsecureAuth = true
	s.EnableREQUIRETLS = mx.reqtls
	s.ErrorLog = c05NopLog{}
	if mx.starttls != 's' {
		s.TLSConfig = &tls.Config{Certificates: []tls.Certificate{pki.chain[mx.cert]}}
		if mx.starttls == 'h' {
			s.TLSConfig.MinVersion = tls.VersionTLS11
			s.TLSConfig.MaxVersion = tls.VersionTLS11
		}
	}
	if mx.starttls == 'c' {
		l = c05RefuseTLSListener{l}
	}
	go s.Serve(l)
	// make sure Serve registered the listener before anybody can call Close: wait for a greeting
	if c, err := net.Dial("tcp", addr); err == nil {
		c.SetReadDeadline(time.Now().Add(10 * time.Second))
		c.Read(make([]byte, 64))
		c.Close()
	}
	return s, l
}

// ---------------------------------------------------------------- world set-up

func c05MXHost(m c05MX) string {
	if m.srv == 3 {
		return "mx1.d1.invalid."
	}
	return fmt.Sprintf("mx%d.d0.invalid.", m.srv)
}

// the canonical name an aliased MX host name points to (outside the names the certificates cover:
// the name that is verified is the MX name)
func c05CanonHost(m c05MX) string {
	return fmt.Sprintf("h%d.canon.invalid.", m.srv)
}

// the names TLSA records can be published at for this MX, in the order RFC 7672 prefers them
func c05TLSANames(m c05MX) []string {
	if m.alias != 0 {
		return []string{"_25._tcp." + c05CanonHost(m), "_25._tcp." + c05MXHost(m)}
	}
	return []string{"_25._tcp." + c05MXHost(m)}
}

// c05TLSAZone publishes an RRset of the given kind (relative to the certificate the server presents) at tn.
func c05TLSAZone(z map[string]mockdns.Zone, pki *c05PKI, tn string, kind, cert byte, ad bool) {
	rec := func(usage, sel, mt uint8, data string) map[miekgdns.Type][]miekgdns.RR {
		return tlsaRecord(tn, usage, mt, sel, data)
	}
	switch kind {
	case 'e':
		z[tn] = mockdns.Zone{AD: ad, Misc: rec(3, 1, 1, c05SPKIHash(pki.leaf[cert]))}
	case 't':
		z[tn] = mockdns.Zone{AD: ad, Misc: rec(2, 1, 1, c05SPKIHash(pki.ca[cert]))}
	case 'm':
		z[tn] = mockdns.Zone{AD: ad, Misc: rec(3, 1, 1, strings.Repeat("ab", 32))}
	case 'u':
		z[tn] = mockdns.Zone{AD: ad, Misc: rec(1, 1, 1, c05SPKIHash(pki.leaf[cert]))}
	case 'f':
		z[tn] = mockdns.Zone{AD: ad, Err: &net.DNSError{Err: "scripted failure"}}
	}
	// 'n': no such name (NXDOMAIN)
}

func c05Zones(h c05Hist, pki *c05PKI) map[string]mockdns.Zone {
	z := map[string]mockdns.Zone{}
	for di, d := range h.doms {
		var mxs []net.MX
		for i, m := range d.mxs {
			host := c05MXHost(m)
			mxs = append(mxs, net.MX{Host: host, Pref: uint16(10 * (i + 1))})
			a := fmt.Sprintf("127.0.0.%d", m.srv)
			if !m.up {
				a = fmt.Sprintf("127.0.0.%d", 10+m.srv) // nothing listens there
			}
			if m.alias == 0 {
				z[host] = mockdns.Zone{AD: m.aAD, A: []string{a}}
				c05TLSAZone(z, pki, "_25._tcp."+host, m.tlsa, m.cert, m.tlsaAD)
				continue
			}
			// alias: the address answer carries AD only if the CNAME RRset AND the address RRset are
			// signed (mockdns conjoins along the chain); the CNAME-type query reports the alias zone alone
			canon := c05CanonHost(m)
			z[host] = mockdns.Zone{AD: m.alias == 's', CNAME: canon}
			z[canon] = mockdns.Zone{AD: m.aAD, A: []string{a}}
			c05TLSAZone(z, pki, "_25._tcp."+canon, m.tlsa, m.cert, m.aAD && m.tlsaAD)
			c05TLSAZone(z, pki, "_25._tcp."+host, m.tlsaI, m.cert, m.tlsaIAD)
		}
		z[fmt.Sprintf("d%d.invalid.", di)] = mockdns.Zone{AD: d.mxAD, MX: mxs}
	}
	return z
}

type c05Env struct {
	tgt      *Target
	dnsSrv   *mockdns.Server
	servers  []*smtp.Server
	lns      []net.Listener
	dnsFront *miekgdns.Server
	sts      *mtastsPolicy
	world    *c05World
}

func (e *c05Env) Close() {
	e.tgt.Close()
	if e.sts != nil {
		e.sts.Close()
	}
	for _, s := range e.servers {
		s.Close()
	}
	for _, l := range e.lns {
		l.Close()
	}
	if e.dnsFront != nil {
		e.dnsFront.Shutdown()
	}
	e.dnsSrv.Close()
}

var c05Quiet = log.Logger{Out: log.NopOutput{}, Name: "c05"}

func c05Setup(t *testing.T, h c05Hist, pki *c05PKI, rng *vh.Rng, verbose bool) *c05Env {
	zones := c05Zones(h, pki)
	dnsSrv, tgt := c05TargetWithExtResolver(t, zones)
	env := &c05Env{tgt: tgt, dnsSrv: dnsSrv, world: &c05World{mails: map[string]int{}}}
	if !verbose {
		tgt.Log = c05Quiet
	}
	slow := map[string]bool{}
	failCNAME := map[string]bool{}
	for _, d := range h.doms {
		for _, m := range d.mxs {
			if m.slow {
				for _, tn := range c05TLSANames(m) {
					slow[tn] = true
				}
			}
			if m.alias != 0 && m.cnameErr {
				failCNAME[c05MXHost(m)] = true
			}
		}
	}
	if len(slow) > 0 || len(failCNAME) > 0 {
		pc, err := net.ListenPacket("udp4", "127.0.0.1:0")
		if err != nil {
			t.Fatal(err)
		}
		started := make(chan struct{})
		env.dnsFront = &miekgdns.Server{PacketConn: pc, Handler: c05SlowDNS{inner: dnsSrv, slow: slow, failCNAME: failCNAME}, NotifyStartedFunc: func() { close(started) }}
		go env.dnsFront.ActivateAndServe()
		<-started
		tgt.extResolver.Cfg.Port = strconv.Itoa(pc.LocalAddr().(*net.UDPAddr).Port)
	}
	tgt.tlsConfig = &tls.Config{RootCAs: pki.roots}
	tgt.connReuseLimit = h.cfg.reuse
	tgt.allowSecOverride = h.cfg.override
	tgt.relaxedREQUIRETLS = h.cfg.relaxed

	// The policy list is produced by the REAL PolicyGroup.Init from a config block whose
	// children are in a seeded order; Init is what puts them into application order.
	var blocks []config.Node
	if h.cfg.mtasts {
		blocks = append(blocks, config.Node{Name: "mtasts", Children: []config.Node{{Name: "cache", Args: []string{"ram"}}}})
	}
	if h.cfg.preload {
		blocks = append(blocks, config.Node{Name: "sts_preload"})
	}
	if h.cfg.dane {
		blocks = append(blocks, config.Node{Name: "dane"})
	}
	if h.cfg.dnssec {
		blocks = append(blocks, config.Node{Name: "dnssec"})
	}
	if h.cfg.local {
		blocks = append(blocks, config.Node{Name: "local_policy", Children: []config.Node{
			{Name: "min_tls_level", Args: []string{[]string{"none", "encrypted", "authenticated"}[h.cfg.minTLS]}},
			{Name: "min_mx_level", Args: []string{[]string{"none", "mtasts", "dnssec"}[h.cfg.minMX]}},
		}})
	}
	for i := len(blocks) - 1; i > 0; i-- {
		j := rng.Intn(i + 1)
		blocks[i], blocks[j] = blocks[j], blocks[i]
	}
	pg := &PolicyGroup{pols: map[string]module.MXAuthPolicy{}}
	if err := pg.Init(config.NewMap(nil, config.Node{Name: "mx_auth", Children: blocks})); err != nil {
		t.Fatal("PolicyGroup.Init: ", err)
	}
	for _, p := range pg.L {
		switch p := p.(type) {
		case *mtastsPolicy:
			doms := h.doms
			p.mtastsGet = func(_ context.Context, domain string) (*mtasts.Policy, error) {
				var d c05Dom
				switch domain {
				case "d0.invalid":
					d = doms[0]
				case "d1.invalid":
					d = doms[1]
				default:
					return nil, errors.New("unexpected domain in MTA-STS lookup: " + domain)
				}
				if d.sts == 'a' {
					return nil, errors.New("no MTA-STS policy")
				}
				pol := &mtasts.Policy{MaxAge: 86400, Mode: map[byte]mtasts.Mode{'n': mtasts.ModeNone, 't': mtasts.ModeTesting, 'e': mtasts.ModeEnforce}[d.sts]}
				for _, m := range d.mxs {
					if m.stsMatch {
						pol.MX = append(pol.MX, strings.TrimSuffix(c05MXHost(m), "."))
					}
				}
				if len(pol.MX) == 0 {
					pol.MX = []string{"unlisted.invalid"}
				}
				return pol, nil
			}
			if !verbose {
				p.log = c05Quiet
			}
			env.sts = p
		case *danePolicy:
			p.extResolver = tgt.extResolver
			if !verbose {
				p.log = c05Quiet
			}
		}
	}
	tgt.policies = pg.L

	seen := map[int]bool{}
	for _, d := range h.doms {
		for _, m := range d.mxs {
			if m.up && !seen[m.srv] {
				seen[m.srv] = true
				s, l := c05StartServer(t, env.world, pki, m)
				env.servers = append(env.servers, s)
				env.lns = append(env.lns, l)
			}
		}
	}
	return env
}

// targetWithExtResolver of dane_delivery_test.go, except that the DNS server start is retried:
// mockdns binds UDP on the port the kernel chose for TCP and gives up if that one is taken,
// which does happen once in a few thousand starts.
func c05TargetWithExtResolver(t *testing.T, zones map[string]mockdns.Zone) (*mockdns.Server, *Target) {
	var dnsSrv *mockdns.Server
	var err error
	for i := 0; i < 50; i++ {
		if dnsSrv, err = mockdns.NewServerWithLogger(zones, c05NopLog{}, false); err == nil {
			break
		}
	}
	if err != nil {
		t.Fatal(err)
	}
	addr := dnsSrv.LocalAddr().(*net.UDPAddr)
	extResolver, err := dns.NewExtResolver()
	if err != nil {
		t.Fatal(err)
	}
	extResolver.Cfg.Servers = []string{addr.IP.String()}
	extResolver.Cfg.Port = strconv.Itoa(addr.Port)
	return dnsSrv, testTarget(t, zones, extResolver, nil)
}

type c05NopLog struct{}

func (c05NopLog) Printf(string, ...interface{}) {}
func (c05NopLog) Println(...interface{})        {}

// DNS front end that delays the TLSA answers of selected hosts and otherwise hands the query
// to the mockdns server (lookup latency is part of the fault sequence).
const c05SlowDelay = 60 * time.Millisecond

type c05SlowDNS struct {
	inner     miekgdns.Handler
	slow      map[string]bool // TLSA owner names whose answers are delayed
	failCNAME map[string]bool // names whose CNAME-type query is answered SERVFAIL
}

func (h c05SlowDNS) ServeDNS(w miekgdns.ResponseWriter, m *miekgdns.Msg) {
	if len(m.Question) == 1 {
		q := m.Question[0]
		name := strings.ToLower(q.Name)
		if q.Qtype == miekgdns.TypeTLSA && h.slow[name] {
			time.Sleep(c05SlowDelay)
		}
		if q.Qtype == miekgdns.TypeCNAME && h.failCNAME[name] {
			reply := new(miekgdns.Msg)
			reply.SetRcode(m, miekgdns.RcodeServerFailure)
			w.WriteMsg(reply)
			return
		}
	}
	h.inner.ServeDNS(w, m)
}

// ---------------------------------------------------------------- running a history

type c05Collector struct {
	mu sync.Mutex
	st map[string]error
}

func (c *c05Collector) SetStatus(rcpt string, err error) {
	c.mu.Lock()
	c.st[rcpt] = err
	c.mu.Unlock()
}

func c05Cls(err error) string {
	if err == nil {
		return "ok"
	}
	if exterrors.IsTemporaryOrUnspec(err) {
		return "temp"
	}
	return "perm"
}

type c05MsgObs struct {
	rcpt []string // per recipient, in order: ok|temp|perm (after the body stage)
	errs []string
}

func c05Run(t *testing.T, h c05Hist, env *c05Env) []c05MsgObs {
	ctx := context.Background()
	var obs []c05MsgObs
	for mi, m := range h.msgs {
		env.world.mu.Lock()
		env.world.cur = mi
		env.world.mu.Unlock()
		meta := &module.MsgMetadata{
			ID:                 fmt.Sprintf("c05msg%d", mi),
			OriginalFrom:       "sender@src.invalid",
			DontTraceSender:    true,
			SMTPOpts:           smtp.MailOptions{RequireTLS: m.requireTLS},
			TLSRequireOverride: m.tlsNo,
			Quarantine:         m.quarantine == 1,
		}
		o := c05MsgObs{rcpt: make([]string, len(m.rcpts)), errs: make([]string, len(m.rcpts))}
		delivery, err := env.tgt.Start(ctx, meta, "sender@src.invalid")
		if err != nil {
			t.Fatal("Start: ", err)
		}
		addrs := make([]string, len(m.rcpts))
		accepted := 0
		for i, d := range m.rcpts {
			addrs[i] = fmt.Sprintf("u%d@d%d.invalid", i, d)
			err := delivery.AddRcpt(ctx, addrs[i], smtp.RcptOptions{})
			o.rcpt[i] = c05Cls(err)
			if err != nil {
				o.errs[i] = err.Error()
			} else {
				accepted++
			}
		}
		if accepted > 0 {
			if m.quarantine == 2 {
				meta.Quarantine = true
			}
			col := &c05Collector{st: map[string]error{}}
			hdr := textproto.Header{}
			hdr.Add("Subject", "c05")
			delivery.(module.PartialDelivery).BodyNonAtomic(ctx, col, hdr, buffer.MemoryBuffer{Slice: []byte("secret content\r\n")})
			for i := range m.rcpts {
				if o.rcpt[i] != "ok" {
					continue
				}
				err, ok := col.st[addrs[i]]
				if !ok {
					o.rcpt[i] = "nostatus"
					continue
				}
				o.rcpt[i] = c05Cls(err)
				if err != nil {
					o.errs[i] = err.Error()
				}
			}
			if err := delivery.Commit(ctx); err != nil {
				t.Fatal("Commit: ", err)
			}
		} else if err := delivery.Abort(ctx); err != nil {
			t.Fatal("Abort: ", err)
		}
		obs = append(obs, o)
	}
	return obs
}

func c05Observation(h c05Hist, obs []c05MsgObs, events []c05Event) string {
	var parts []string
	for mi, m := range h.msgs {
		var rs []string
		for i, d := range m.rcpts {
			rs = append(rs, fmt.Sprintf("%d=%s", d, obs[mi].rcpt[i]))
		}
		var ds []string
		for _, e := range events {
			if e.msg == mi && e.kind == "data" {
				ds = append(ds, fmt.Sprintf("%d.%s.%s.%s", e.srv, c05b(e.tls), c05b(e.rtParm), c05b(e.reused)))
			}
		}
		sort.Strings(ds)
		d := "-"
		if len(ds) > 0 {
			d = strings.Join(ds, ",")
		}
		parts = append(parts, "r:"+strings.Join(rs, ",")+" d:"+d)
	}
	return strings.Join(parts, " | ")
}

// ---------------------------------------------------------------- monitor (the property itself)

func c05FindMX(h c05Hist, srv int) (int, c05MX) {
	for di, d := range h.doms {
		for _, m := range d.mxs {
			if m.srv == srv {
				return di, m
			}
		}
	}
	panic("unknown server")
}

// TLSA discovery as RFC 7672 §2.2 describes it, from the scripted zone contents.  The first result is
// "none" (DANE does not apply: nothing published / nothing authenticated), "fail" (a lookup needed to decide
// failed), "usable" (the governing RRset is authenticated and has a usable DANE-EE/DANE-TA record) or
// "unusable" (authenticated non-empty RRset without any usable record); the second is the kind of the
// GOVERNING RRset (relative to the certificate the server presents), 0 if there is none.
//
//   - MX name is not an alias: insecure address records ⇒ no TLSA lookup; otherwise _25._tcp.<MX name>.
//   - alias, CNAME RRset and address RRset secure ("secure CNAME", §2.2.2): the canonical name is the
//     preferred TLSA base domain; only when no secure TLSA records are found there the initial name is
//     tried.  A lookup failure at ANY name consulted is a discovery failure.
//   - alias, CNAME RRset secure, continuation insecure ("insecure CNAME"): the initial name only.
//   - CNAME RRset at the MX name insecure: DANE does not apply.
//     In the last two cases the security status of the CNAME RRset has to be asked for separately (the
//     address answer is unauthenticated as a whole); if that query fails the discovery has failed.
func c05Governing(m c05MX) (string, byte) {
	atBase := func(kind byte, ad bool) (string, byte) {
		switch {
		case kind == 'f':
			return "fail", 0
		case kind == 'n' || !ad:
			return "none", 0
		case kind == 'u':
			return "unusable", kind
		}
		return "usable", kind
	}
	switch m.alias {
	case 0:
		if !m.aAD {
			return "none", 0 // the host's address records are not secure: no TLSA lookup
		}
		return atBase(m.tlsa, m.tlsaAD)
	case 's':
		if m.aAD {
			if st, k := atBase(m.tlsa, m.aAD && m.tlsaAD); st != "none" {
				return st, k
			}
			return atBase(m.tlsaI, m.tlsaIAD)
		}
		if m.cnameErr {
			return "fail", 0
		}
		return atBase(m.tlsaI, m.tlsaIAD)
	default: // 'i'
		if m.cnameErr {
			return "fail", 0
		}
		return "none", 0
	}
}

func c05Discovery(m c05MX) string {
	st, _ := c05Governing(m)
	return st
}

// does the governing RRset authenticate the certificate the server presents?
func c05DaneMatches(m c05MX) bool {
	_, kind := c05Governing(m)
	switch kind {
	case 'e':
		return true // DANE-EE: name and issuer are irrelevant
	case 't':
		return m.cert != 'w' // DANE-TA: chain to the asserted anchor AND name check
	}
	return false
}

type c05InForce struct {
	mtasts, dane, dnssec, local bool
}

func c05PoliciesInForce(c c05Cfg, m c05Msg) c05InForce {
	if m.tlsNo && c.override {
		return c05InForce{}
	}
	return c05InForce{mtasts: c.mtasts, dane: c.dane, dnssec: c.dnssec, local: c.local}
}

// c05Unsatisfied lists the requirements of the property that a connection to server mx of
// domain d, with TLS on/off as the server saw it, does NOT meet for message m.
func c05Unsatisfied(c c05Cfg, m c05Msg, d c05Dom, mx c05MX, tlsOn, rtParam bool) []string {
	var bad []string
	f := c05PoliciesInForce(c, m)
	pkix := tlsOn && mx.cert == 'v'
	disc := c05Discovery(mx)
	daneAuth := f.dane && tlsOn && disc == "usable" && c05DaneMatches(mx)
	mxLevel := 0
	if f.mtasts && d.sts != 'a' && mx.stsMatch {
		mxLevel = 1
	}
	if f.dnssec && d.mxAD {
		mxLevel = 2
	}
	tlsLevel := 0
	if tlsOn {
		tlsLevel = 1
		if pkix || daneAuth {
			tlsLevel = 2
		}
	}
	if m.quarantine != 0 {
		bad = append(bad, "quarantined")
	}
	if f.mtasts && d.sts == 'e' {
		if !mx.stsMatch {
			bad = append(bad, "mtasts-mx")
		}
		if !pkix {
			bad = append(bad, "mtasts-tls")
		}
	}
	if f.dane {
		switch disc {
		case "fail":
			bad = append(bad, "dane-discovery-failed")
		case "usable":
			if !tlsOn || !c05DaneMatches(mx) {
				bad = append(bad, "dane-auth")
			}
		case "unusable":
			if !tlsOn {
				bad = append(bad, "dane-tls")
			}
		}
	}
	if f.local {
		if mxLevel < c.minMX {
			bad = append(bad, "min-mx-level")
		}
		if tlsLevel < c.minTLS {
			bad = append(bad, "min-tls-level")
		}
	}
	if m.requireTLS {
		if tlsLevel < 2 {
			bad = append(bad, "requiretls-tls")
		}
		if mxLevel < 1 {
			bad = append(bad, "requiretls-mx")
		}
		if !rtParam && !(c.relaxed && !(mx.reqtls && tlsOn)) {
			bad = append(bad, "requiretls-not-forwarded")
		}
	}
	return bad
}

func c05Monitor(out *vh.Out, h c05Hist, obs []c05MsgObs, events []c05Event) {
	op := h.Op()
	for _, e := range events {
		if e.kind != "data" {
			continue
		}
		m := h.msgs[e.msg]
		di, mx := c05FindMX(h, e.srv)
		if bad := c05Unsatisfied(h.cfg, m, h.doms[di], mx, e.tls, e.rtParm); len(bad) > 0 {
			kind := "new"
			if e.reused {
				kind = "reused"
			}
			out.Violation("C05/data-on-unsatisfying-conn/"+kind+"/"+strings.Join(bad, "+"), op,
				fmt.Sprintf("message %d (%s) content reached server %d (tls=%v) on a %s connection; unmet: %v", e.msg, m, e.srv, e.tls, kind, bad))
		}
		toDom := false
		for _, r := range m.rcpts {
			toDom = toDom || r == di
		}
		if !toDom {
			out.Violation("C05/data-to-foreign-mx", op, fmt.Sprintf("message %d reached server %d of a domain it has no recipient in", e.msg, e.srv))
		}
	}
	for mi, m := range h.msgs {
		f := c05PoliciesInForce(h.cfg, m)
		for i, di := range m.rcpts {
			res := obs[mi].rcpt[i]
			got := false
			for _, e := range events {
				if e.msg == mi && e.kind == "data" {
					if d2, _ := c05FindMX(h, e.srv); d2 == di {
						got = true
					}
				}
			}
			// "delivered" must mean some MX of the domain holds the content, and the converse
			// (per domain: recipients of one domain share the transaction)
			anyOK := false
			for j, dj := range m.rcpts {
				anyOK = anyOK || (dj == di && obs[mi].rcpt[j] == "ok")
			}
			if anyOK != got {
				out.Violation("C05/status-vs-ground-truth", op, fmt.Sprintf("message %d domain %d: a recipient reported delivered=%v but content received=%v", mi, di, anyOK, got))
			}
			// quarantined before the recipients: refused; quarantined later: refused unless the
			// recipient had already failed for another reason
			if (m.quarantine == 1 && res != "perm") || (m.quarantine == 2 && res == "ok") {
				out.Violation("C05/quarantine-not-refused", op, fmt.Sprintf("message %d recipient %d: %s", mi, i, res))
			}
			// TLSA discovery failure: when every candidate either has a failing discovery or is
			// excluded by enforce-mode MTA-STS anyway, and at least one is of the first kind, the
			// delivery is deferred (in whatever order the candidates are tried)
			if m.quarantine != 1 && f.dane {
				all, some := true, false
				for _, mx := range h.doms[di].mxs {
					excluded := f.mtasts && h.doms[di].sts == 'e' && !mx.stsMatch
					failed := c05Discovery(mx) == "fail"
					if !excluded && !failed {
						all = false
					}
					if failed && !excluded {
						some = true
					}
				}
				if all && some && res != "temp" {
					out.Violation("C05/tlsa-failure-not-deferred", op, fmt.Sprintf("message %d recipient %d (domain %d): %s (%s)", mi, i, di, res, obs[mi].errs[i]))
				}
			}
		}
	}
}

// ---------------------------------------------------------------- generators

func c05GenMX(r *vh.Rng, srv int) c05MX {
	pickB := func(s string, w ...int) byte {
		tot := 0
		for _, x := range w {
			tot += x
		}
		k := r.Intn(tot)
		for i, x := range w {
			if k < x {
				return s[i]
			}
			k -= x
		}
		return s[0]
	}
	m := c05MX{
		srv:      srv,
		up:       !r.Chance(8),
		starttls: pickB("oshc", 60, 15, 15, 10),
		cert:     pickB("vuw", 50, 25, 25),
		stsMatch: r.Chance(65),
		aAD:      r.Chance(70),
		tlsaAD:   r.Chance(75),
		tlsa:     pickB("netmuf", 25, 20, 15, 12, 10, 18),
		reqtls:   r.Chance(60),
		slow:     r.Chance(4),
	}
	// the MX name is an alias: signed / unsigned CNAME RRset, an independent TLSA outcome at the initial
	// name, the canonical name more often in a signed zone (both base domains are then consulted)
	if r.Chance(35) {
		m.alias = pickB("si", 75, 25)
		m.tlsaI = pickB("netmuf", 30, 18, 12, 12, 8, 20)
		m.tlsaIAD = r.Chance(75)
		m.cnameErr = r.Chance(12)
		if r.Chance(50) {
			m.aAD = true
		}
		if r.Chance(35) { // nothing (authenticated) at the canonical name: the initial name decides
			if r.Chance(50) {
				m.tlsa = 'n'
			} else {
				m.tlsaAD = false
			}
		}
	}
	return m
}

func c05GenHist(r *vh.Rng) c05Hist {
	var h c05Hist
	c := &h.cfg
	c.mtasts, c.dane, c.dnssec = r.Chance(60), r.Chance(60), r.Chance(50)
	c.preload = r.Chance(15)
	if r.Chance(70) {
		c.local = true
		c.minTLS, c.minMX = r.Intn(3), r.Intn(3)
		if r.Chance(40) {
			c.minMX = 0
		}
	}
	c.override, c.relaxed = r.Chance(65), r.Chance(50)
	c.reuse = []int{10, 10, 10, 1, 0}[r.Intn(5)]
	sts := "antee"
	h.doms[0] = c05Dom{mxAD: r.Chance(50), sts: sts[r.Intn(len(sts))], mxs: []c05MX{c05GenMX(r, 1)}}
	if r.Chance(50) {
		h.doms[0].mxs = append(h.doms[0].mxs, c05GenMX(r, 2))
		if r.Chance(30) { // lower preference for server 1
			h.doms[0].mxs[0], h.doms[0].mxs[1] = h.doms[0].mxs[1], h.doms[0].mxs[0]
		}
	}
	h.doms[1] = c05Dom{mxAD: r.Chance(50), sts: sts[r.Intn(len(sts))], mxs: []c05MX{c05GenMX(r, 3)}}
	if r.Chance(35) { // a friendly world: more deliveries, more pooled connections
		for di := range h.doms {
			for i := range h.doms[di].mxs {
				m := &h.doms[di].mxs[i]
				m.up = true
				if r.Chance(70) {
					m.starttls, m.cert = 'o', 'v'
				}
				if m.tlsa == 'f' || m.tlsa == 'm' {
					m.tlsa = 'n'
				}
				if m.tlsaI == 'f' || m.tlsaI == 'm' {
					m.tlsaI = 'n'
				}
				m.cnameErr = false
				m.stsMatch = true
			}
		}
	}
	n := 1 + r.Intn(3)
	for i := 0; i < n; i++ {
		m := c05Msg{}
		switch r.Intn(10) {
		case 0, 1:
			m.requireTLS = true
		case 2, 3, 4:
			m.tlsNo = true
		case 5:
			m.requireTLS, m.tlsNo = true, true
		}
		if r.Chance(10) {
			m.quarantine = 1 + r.Intn(2)
		}
		switch r.Intn(10) {
		case 0:
			m.rcpts = []int{0, 1}
		case 1:
			m.rcpts = []int{1, 0}
		case 2:
			m.rcpts = []int{0, 0}
		case 3:
			m.rcpts = []int{1}
		case 4:
			m.rcpts = []int{0, 1, 0}
		default:
			m.rcpts = []int{0}
		}
		h.msgs = append(h.msgs, m)
	}
	return h
}

// all histories of 1..3 messages over the given message kinds, on a fixed world
func c05EnumHistories(base c05Hist, kinds []c05Msg, maxLen int) []c05Hist {
	var out []c05Hist
	var rec func(prefix []c05Msg)
	rec = func(prefix []c05Msg) {
		if len(prefix) > 0 {
			h := base
			h.msgs = append([]c05Msg(nil), prefix...)
			out = append(out, h)
		}
		if len(prefix) == maxLen {
			return
		}
		for _, k := range kinds {
			rec(append(append([]c05Msg(nil), prefix...), k))
		}
	}
	rec(nil)
	return out
}

func c05MustParse(op string) c05Hist {
	h, err := c05ParseOp(op)
	if err != nil {
		panic(op + ": " + err.Error())
	}
	return h
}

// fixed worlds for the systematic part: two requirement levels (a weak and a strong
// configuration) over servers that a strong configuration would refuse / accept
func c05SystematicBases() []c05Hist {
	return []c05Hist{
		// strong policies, MX offers nothing: only an override message can get through
		c05MustParse("C05 hist 1011.21.11.10 1e:1.1.s.v.0.1.1.n.0.0 0a:3.1.s.v.0.0.0.n.0.0 000:0"),
		// strong policies, good MX
		c05MustParse("C05 hist 1011.21.11.10 1e:1.1.o.v.1.1.1.e.1.0 0t:3.1.o.v.1.1.1.n.0.0 000:0"),
		// DANE only, TLSA lookups fail
		c05MustParse("C05 hist 0010.-.10.10 0a:1.1.o.v.0.1.1.f.0.0 0a:3.1.o.u.0.1.1.f.0.0 000:0"),
		// MTA-STS enforce with an unlisted first MX and a listed second one, self-signed
		c05MustParse("C05 hist 1000.10.11.10 0e:1.1.o.v.0.0.0.n.1.0;2.1.o.u.1.0.0.n.1.0 0e:3.1.o.v.1.0.0.n.0.0 000:0"),
		// weak configuration: no policies at all
		c05MustParse("C05 hist 0000.-.10.1 0a:1.1.h.v.0.0.0.n.0.0 0a:3.1.o.w.0.0.0.n.1.0 000:0"),
		// MTA-STS enforce + DANE: the listed first MX has a failing TLSA lookup, the second is not listed
		c05MustParse("C05 hist 1010.10.11.10 0e:1.1.o.v.1.1.1.f.0.0;2.1.o.v.0.1.1.n.0.0 0e:3.1.o.v.1.1.1.e.1.0 000:0"),
		c05MustParse("C05 hist 1010.10.11.1 0e:2.1.o.v.0.1.1.n.0.0;1.1.o.v.1.1.1.f.0.0 0e:3.1.o.v.1.1.1.e.1.0 000:0"),
		// relaxed REQUIRETLS, MX without the extension, second domain plaintext
		c05MustParse("C05 hist 1000.-.11.10 0t:1.1.o.v.1.0.0.n.0.0 0t:3.1.s.v.1.0.0.n.0.0 000:0"),
		// DANE, aliased MXs: lookup failure at the canonical name (nothing at the initial one) / self-signed server
		// authenticated by the records at the canonical name
		c05MustParse("C05 hist 0010.20.10.10 0a:1.1.o.v.0.1.1.f.0.0.sn10 0a:3.1.o.u.0.1.1.e.0.0.sm10 000:0"),
		// DANE, aliased MXs: lookup failure at the initial name after an unsigned answer at the canonical one / alias
		// into an unsigned zone, records at the initial name
		c05MustParse("C05 hist 0010.20.10.10 0a:1.1.o.v.0.1.0.e.0.0.sf10 0a:3.1.o.u.0.0.0.n.0.0.st10 000:0"),
	}
}

// histories that are run in every tier and for every seed: the shortest replays of the three
// defects found on the unchanged tree (each is a VIOLATION again if its fix is reverted).
func c05FixedOps() []string {
	return []string{
		// a connection opened for a TLS-Required: No message is pooled and reused
		"C05 hist 1011.21.11.10 1e:1.1.s.v.0.1.1.n.0.0 0a:3.1.s.v.0.0.0.n.0.0 010:0/000:0",
		"C05 hist 0010.-.10.10 0a:1.1.o.v.0.1.1.f.0.0 0a:3.1.o.u.0.1.1.f.0.0 010:0/000:0",
		// relaxed REQUIRETLS cleared the flag for the following recipient domains
		"C05 hist 1000.-.11.10 0t:1.1.o.v.1.0.0.n.0.0 0t:3.1.s.v.1.0.0.n.0.0 100:0,1",
		"C05 hist 0001.01.11.10 1t:1.1.o.v.1.0.1.e.1.0 1n:3.1.o.v.1.0.1.u.0.0 100:1,0",
		"C05 hist 1011.-.01.0 0a:1.1.o.v.1.1.1.n.0.0 0e:3.1.o.v.1.0.1.n.0.0 110:0,1,0/000:0",
		// the TLSA lookup of an abandoned MX candidate answered for the next one
		// (first candidate down / refused by local_policy / other domain; next candidate's answer is slow)
		"C05 hist 0010.-.10.10 0a:1.0.o.v.0.1.1.n.0.0;2.1.o.v.0.1.1.m.0.1 0a:3.1.o.v.0.1.1.n.0.0 000:0",
		"C05 hist 1010.01.10.10 0t:1.1.o.v.0.1.1.n.0.0;2.1.o.v.1.1.1.f.0.1 0a:3.1.o.v.0.1.1.n.0.0 000:0",
		"C05 hist 0010.-.10.10 0a:1.1.s.v.0.1.1.e.0.1 0a:3.0.o.v.0.1.1.n.0.1 000:1,0",
		// a temporary failure of the first candidate (TLSA SERVFAIL / down) was reported as the
		// permanent refusal of the second one (not listed in the enforced MTA-STS policy)
		"C05 hist 1010.-.10.10 0e:1.1.o.v.1.1.1.f.0.0;2.1.o.v.0.1.1.n.0.0 0a:3.1.o.v.0.1.1.n.0.0 000:0",
		"C05 hist 1000.-.10.10 0e:1.0.o.v.1.1.1.n.0.0;2.1.o.v.0.1.1.n.0.0 0a:3.1.o.v.0.1.1.n.0.0 000:0",
		// nothing of the attempt for one candidate may leak into the attempt for the next one: two candidates with
		// certificates that do not verify (unknown issuer / wrong name), authenticated TLS required (local policy / REQUIRETLS)
		"C05 hist 0000.20.10.10 0a:1.1.o.u.0.0.0.n.0.0;2.1.o.u.0.0.0.n.0.0 0a:3.1.o.v.0.0.0.n.0.0 000:0",
		"C05 hist 0001.-.10.10 1a:1.1.o.w.0.0.0.n.1.0;2.1.o.u.0.0.0.n.1.0 0a:3.1.o.v.0.0.0.n.0.0 100:0",
		// the MX name is a signed alias (RFC 7672 §2.2.2).  A TLSA lookup failure at a name that is consulted defers:
		// at the canonical name (nothing published at the initial name) — with a PKIX-valid server, a second
		// candidate, the TLS-Required: No message first, REQUIRETLS
		"C05 hist 0010.-.10.10 0a:1.1.o.v.0.1.1.f.0.0.sn10 0a:3.1.o.v.0.1.1.n.0.0 000:0",
		"C05 hist 0010.-.10.10 0a:1.1.o.v.0.1.1.f.0.0.sn00 0a:3.1.o.v.0.1.1.n.0.0 000:0,1",
		"C05 hist 1011.10.10.10 1t:1.1.o.v.1.1.1.f.1.0.se10;2.1.o.v.0.1.0.n.1.0.sf10 1a:3.1.o.v.0.1.1.n.0.0 000:0/100:0",
		"C05 hist 0010.-.10.10 0a:1.1.o.v.0.1.1.f.0.0.sn10 0a:3.1.o.v.0.1.1.f.0.0.sn10 010:0,1/000:1,0",
		// … at the initial name, when the canonical name has nothing / nothing authenticated
		"C05 hist 0010.-.10.10 0a:1.1.o.v.0.1.1.n.0.0.sf10 0a:3.1.o.v.0.1.0.e.0.0.sf10 000:0,1",
		// … not consulted: authenticated records at the canonical name govern (self-signed server, DANE-EE / DANE-TA),
		// the initial name's failure / mismatching RRset is irrelevant
		"C05 hist 0010.20.10.10 0a:1.1.o.u.0.1.1.e.0.0.sf10 0a:3.1.o.u.0.1.1.t.0.0.sm10 000:0,1",
		// mismatching / unusable records at the canonical name, matching ones at the initial name: refused / TLS only
		"C05 hist 0010.-.10.10 0a:1.1.o.u.0.1.1.m.0.0.se10 0a:3.1.s.v.0.1.1.u.0.0.se10 000:0,1",
		// alias into an unsigned zone ("insecure CNAME"): the initial name is the base domain — matching, mismatching
		"C05 hist 0010.20.10.10 0a:1.1.o.u.0.0.0.n.0.0.se10 0a:3.1.o.v.0.0.1.e.0.0.sm10 000:0,1",
		// unsigned CNAME RRset: DANE does not apply / the CNAME-type query fails: deferred
		"C05 hist 0010.-.10.10 0a:1.1.o.v.0.1.1.m.0.0.im10 0a:3.1.o.v.0.1.1.n.0.0.in01 000:0,1",
		"C05 hist 0010.-.10.10 0a:1.1.o.v.0.0.1.n.0.0.sn01 0a:3.1.o.v.0.0.0.n.0.0.se10 000:0,1",
	}
}

func c05Kinds() []c05Msg {
	return []c05Msg{
		{rcpts: []int{0}},
		{rcpts: []int{0}, tlsNo: true},
		{rcpts: []int{0}, requireTLS: true},
		{rcpts: []int{0, 1}, requireTLS: true},
		{rcpts: []int{0}, quarantine: 2},
	}
}

// ---------------------------------------------------------------- pairwise coverage of the fact product

// c05Factors lists, for one history, the value of every factor of the property's quantifier
// (configuration, domain 0, its first MX candidate, kind of the first message).
func c05Factors(h c05Hist) []string {
	m := h.doms[0].mxs[0]
	msg := h.msgs[0]
	loc := "-"
	if h.cfg.local {
		loc = fmt.Sprintf("%d%d", h.cfg.minTLS, h.cfg.minMX)
	}
	return []string{
		"mtasts=" + c05b(h.cfg.mtasts), "dane=" + c05b(h.cfg.dane), "dnssec=" + c05b(h.cfg.dnssec), "local=" + loc,
		"override=" + c05b(h.cfg.override), "relaxed=" + c05b(h.cfg.relaxed), fmt.Sprintf("reuse=%d", h.cfg.reuse),
		"mxAD=" + c05b(h.doms[0].mxAD), fmt.Sprintf("sts=%c", h.doms[0].sts), fmt.Sprintf("nmx=%d", len(h.doms[0].mxs)),
		"up=" + c05b(m.up), fmt.Sprintf("starttls=%c", m.starttls), fmt.Sprintf("cert=%c", m.cert), "listed=" + c05b(m.stsMatch),
		"aAD=" + c05b(m.aAD), "tlsaAD=" + c05b(m.tlsaAD), fmt.Sprintf("tlsa=%c", m.tlsa), "reqtls=" + c05b(m.reqtls),
		"msg=" + c05b(msg.requireTLS) + c05b(msg.tlsNo) + strconv.Itoa(msg.quarantine),
		"alias=" + c05AliasTag(m), c05AliasFactor(m, "tlsaI", string(m.tlsaI)), c05AliasFactor(m, "tlsaIAD", c05b(m.tlsaIAD)),
		c05AliasFactor(m, "cnameErr", c05b(m.cnameErr)),
	}
}

func c05AliasTag(m c05MX) string {
	if m.alias == 0 {
		return "-"
	}
	return string(m.alias)
}

func c05AliasFactor(m c05MX, name, val string) string {
	if m.alias == 0 {
		return name + "=-"
	}
	return name + "=" + val
}

// number of values of each factor, in the order of c05Factors
var c05FactorSizes = []int{2, 2, 2, 10, 2, 2, 3, 2, 4, 2, 2, 4, 3, 2, 2, 2, 6, 2, 12, 3, 7, 3, 3}

type c05Pairwise struct{ seen map[string]bool }

func (p *c05Pairwise) add(h c05Hist) {
	f := c05Factors(h)
	for i := range f {
		for j := i + 1; j < len(f); j++ {
			p.seen[f[i]+"&"+f[j]] = true
		}
	}
}

func (p *c05Pairwise) report(out *vh.Out) {
	total := 0
	for i := range c05FactorSizes {
		for j := i + 1; j < len(c05FactorSizes); j++ {
			total += c05FactorSizes[i] * c05FactorSizes[j]
		}
	}
	out.StatN("c05.pairwise.value-pairs-covered", len(p.seen))
	out.StatN("c05.pairwise.value-pairs-total", total)
}

// ---------------------------------------------------------------- entry point

func c05OneCase(t *testing.T, out *vh.Out, pki *c05PKI, h c05Hist, rng *vh.Rng, verbose bool) {
	op := h.Op()
	env := c05Setup(t, h, pki, rng, verbose)
	obs := c05Run(t, h, env)
	env.Close()
	env.world.mu.Lock()
	events := append([]c05Event(nil), env.world.events...)
	env.world.mu.Unlock()
	out.Corr(op, c05Observation(h, obs, events))
	c05Monitor(out, h, obs, events)

	// distribution
	c05DeliveryStats(out, h, events)
	out.Stat(fmt.Sprintf("c05.msgs=%d", len(h.msgs)))
	out.Stat(fmt.Sprintf("c05.mx0=%d", len(h.doms[0].mxs)))
	pooledUse := false
	for _, e := range events {
		if e.kind == "data" {
			out.Stat("c05.data.tls=" + c05b(e.tls) + ".reused=" + c05b(e.reused))
			pooledUse = pooledUse || e.reused
		}
	}
	if pooledUse {
		out.Stat("c05.hist.with-reuse")
	}
	for mi, m := range h.msgs {
		kind := "plain"
		switch {
		case m.quarantine != 0:
			kind = "quarantine"
		case m.requireTLS && m.tlsNo:
			kind = "requiretls+no"
		case m.requireTLS:
			kind = "requiretls"
		case m.tlsNo && h.cfg.override:
			kind = "override"
		case m.tlsNo:
			kind = "no-ignored"
		}
		for i := range m.rcpts {
			out.Stat("c05.rcpt." + kind + "=" + obs[mi].rcpt[i])
			if e := obs[mi].errs[i]; e != "" {
				out.Stat("c05.err." + c05ErrKind(e))
			}
		}
	}
}

// which TLSA base domain decides for an aliased MX (distribution only)
func c05BaseDomain(m c05MX) string {
	switch {
	case m.alias == 'i':
		return "unsigned-cname"
	case !m.aAD:
		return "insecure-target.initial-name"
	}
	if k := m.tlsa; k == 'f' || (k != 'n' && m.tlsaAD) {
		return "canonical-name"
	}
	return "secure.fallback-to-initial-name"
}

func c05ErrKind(e string) string {
	for _, k := range [][2]string{
		{"quarantined", "quarantined"},
		{"unauthenticated but required (REQUIRETLS)", "requiretls-tls-level"},
		{"MX record authenticity (REQUIRETLS)", "requiretls-mx-level"},
		{"MX record authenticity (MTA-STS)", "mtasts-mx-not-listed"},
		{"unavailable or failed (MTA-STS)", "mtasts-no-tls"},
		{"authentication is required by MTA-STS", "mtasts-no-pkix"},
		{"enforced by DANE", "dane-no-tls"},
		{"No matching TLSA", "dane-mismatch"},
		{"Failed to establish the MX record authenticity", "local-min-mx"},
		{"unauthenticated but required", "local-min-tls"},
		{"does not support REQUIRETLS", "mail-requiretls-unsupported"},
		{"TLS not available due", "starttls-refused"},
		{"connection refused", "mx-down"},
		{"SERVFAIL", "tlsa-servfail"},
	} {
		if strings.Contains(e, k[0]) {
			return k[1]
		}
	}
	return "other"
}

// c05DeliveryStats records which paths of the code the deliveries of this history took.
func c05DeliveryStats(out *vh.Out, h c05Hist, events []c05Event) {
	for _, e := range events {
		if e.kind != "data" {
			continue
		}
		m := h.msgs[e.msg]
		di, mx := c05FindMX(h, e.srv)
		pos := 0
		for i, x := range h.doms[di].mxs {
			if x.srv == e.srv {
				pos = i
			}
		}
		out.Stat(fmt.Sprintf("c05.deliver.mx-candidate=%d/%d", pos+1, len(h.doms[di].mxs)))
		out.Stat(fmt.Sprintf("c05.deliver.starttls=%c.cert=%c.tls=%s", mx.starttls, mx.cert, c05b(e.tls)))
		f := c05PoliciesInForce(h.cfg, m)
		if e.tls && mx.cert != 'v' && ((f.local && h.cfg.minTLS == 2) || m.requireTLS) {
			out.Stat("c05.deliver.authenticated-by-dane-only")
		}
		if f.dane && c05Discovery(mx) != "none" {
			out.Stat("c05.deliver.dane-in-force.discovery=" + c05Discovery(mx))
		}
		if f.dane && mx.alias != 0 {
			out.Stat("c05.deliver.dane-in-force.aliased-mx." + c05BaseDomain(mx))
		}
		if f.mtasts {
			out.Stat(fmt.Sprintf("c05.deliver.mtasts-in-force.sts=%c.listed=%s", h.doms[di].sts, c05b(mx.stsMatch)))
		}
		if m.requireTLS {
			out.Stat(fmt.Sprintf("c05.deliver.requiretls.param=%s.server-ext=%s.relaxed=%s", c05b(e.rtParm), c05b(mx.reqtls), c05b(h.cfg.relaxed)))
		}
		if e.reused {
			kind := "plain"
			if m.tlsNo && h.cfg.override {
				kind = "override"
			}
			out.Stat("c05.deliver.reused-by=" + kind)
		} else if e.msg > 0 {
			// a new connection although an earlier message of the history was delivered to this server
			for _, e0 := range events {
				if e0.kind == "data" && e0.srv == e.srv && e0.msg < e.msg {
					why := "reuse-limit-or-override"
					if m.requireTLS {
						why = "requiretls-bypass"
					}
					out.Stat("c05.deliver.new-conn-after-earlier-delivery." + why)
					break
				}
			}
		}
	}
	for _, d := range h.doms {
		for _, mx := range d.mxs {
			if mx.alias != 0 && h.cfg.dane {
				out.Stat(fmt.Sprintf("c05.alias.%s.discovery=%s", c05BaseDomain(mx), c05Discovery(mx)))
			}
		}
	}
	out.Stat(fmt.Sprintf("c05.cfg.policies=%d", len(strings.ReplaceAll(h.cfg.String()[:4], "0", ""))))
	out.Stat(fmt.Sprintf("c05.cfg.reuse=%d", h.cfg.reuse))
}

func TestVerifC05(t *testing.T) {
	out := vh.Open("c05")
	defer out.Close()
	pki := c05NewPKI()

	// the package-level logger: silence it, but count the futures that were set twice (a lookup
	// goroutine delivering its result to a future it was not started for)
	savedOut := log.DefaultLogger.Out
	defer func() { log.DefaultLogger.Out = savedOut }()
	log.DefaultLogger.Out = log.FuncOutput(func(_ time.Time, _ bool, str string) {
		if strings.Contains(str, "Future.Set called multiple times") {
			out.Stat("c05.future-set-twice")
		}
	}, func() error { return nil })

	// a port on which 127.0.0.1-3 are all free
	saved := smtpPort
	defer func() { smtpPort = saved }()
	prng := vh.NewRng(vh.Seed() + 77)
	for try := 0; ; try++ {
		p := 10500 + prng.Intn(21000) // below the ephemeral range: no clash with client ports
		ok := true
		for ip := 1; ip <= 3 && ok; ip++ {
			for _, a := range []string{fmt.Sprintf("127.0.0.%d:%d", ip, p), fmt.Sprintf("127.0.0.%d:%d", 10+ip, p)} {
				l, err := net.Listen("tcp", a)
				if err != nil {
					ok = false
					break
				}
				l.Close()
			}
		}
		if ok {
			smtpPort = strconv.Itoa(p)
			break
		}
		if try > 200 {
			t.Fatal("no free port")
		}
	}

	if rp := vh.Replay(); rp != nil {
		for _, op := range rp {
			h, err := c05ParseOp(op)
			if err != nil {
				t.Fatal(err)
			}
			c05OneCase(t, out, pki, h, vh.NewRng(vh.Seed()), true)
		}
		return
	}

	rng := vh.NewRng(vh.Seed() + 5)
	for _, op := range c05FixedOps() {
		c05OneCase(t, out, pki, c05MustParse(op), rng, false)
		out.Stat("c05.fixed")
	}
	// systematic part: every 1-3 message history over the message kinds, on fixed worlds
	maxLen := 2
	if vh.Thorough() {
		maxLen = 3
	}
	for bi, base := range c05SystematicBases() {
		if !vh.Thorough() && bi%2 == int(vh.Seed()%2) {
			continue // quick tier: half of the fixed worlds per seed
		}
		for _, h := range c05EnumHistories(base, c05Kinds(), maxLen) {
			c05OneCase(t, out, pki, h, rng, false)
			out.Stat("c05.systematic")
		}
	}
	pw := &c05Pairwise{seen: map[string]bool{}}
	n := vh.N(150)
	for i := 0; i < n; i++ {
		h := c05GenHist(rng.Fork())
		pw.add(h)
		c05OneCase(t, out, pki, h, rng, false)
		out.Stat("c05.random")
	}
	pw.report(out)
}
