package smtp_downstream

// Overlay-only export (never part of the repository tree): lets the queue harness run the queue
// on top of the REAL LMTP forwarder.

import (
	"github.com/foxcpp/maddy/framework/config"
	"github.com/foxcpp/maddy/framework/log"
)

func VerifNewLMTP(port string) *Downstream {
	return &Downstream{
		hostname:  "mx.example.invalid",
		endpoints: []config.Endpoint{{Scheme: "tcp", Host: "127.0.0.1", Port: port}},
		modName:   "target.lmtp",
		lmtp:      true,
		log:       log.Logger{Out: log.NopOutput{}},
	}
}

// VerifNewDownstream is the real target.smtp (lmtp=false) or target.lmtp forwarder for one
// plain-TCP endpoint on 127.0.0.1.
func VerifNewDownstream(port string, lmtp bool) *Downstream {
	d := VerifNewLMTP(port)
	if !lmtp {
		d.modName = "target.smtp"
		d.lmtp = false
	}
	return d
}
