package smtp_downstream

import (
	"context"
	"errors"
	"fmt"
	"io"
	"sort"
	"strconv"
	"strings"
	"sync"
	"testing"

	"golang.org/x/net/idna"

	"github.com/emersion/go-message/textproto"
	"github.com/emersion/go-smtp"
	"github.com/foxcpp/maddy/framework/address"
	"github.com/foxcpp/maddy/framework/buffer"
	"github.com/foxcpp/maddy/framework/config"
	"github.com/foxcpp/maddy/framework/log"
	"github.com/foxcpp/maddy/framework/module"
	"github.com/foxcpp/maddy/internal/verifshim/vc09"
	"github.com/foxcpp/maddy/internal/verifshim/vh"
	"github.com/foxcpp/maddy/internal/verifshim/vsmtp"
)

// forms as in the remote harness: the number is the MAILBOX number, several recipients of one
// transaction may be spellings of one mailbox (a/u, i/I/x/X, c/d/C); t/T/j/y = the domain in absolute
// form (u1@d.example. / U1@D.EXAMPLE. / u1@пример.example. / its A-label spelling with the root dot).
func c09LAddr(mbox int, form byte) string {
	switch form {
	case 'i':
		return fmt.Sprintf("u%d@пример.example", mbox)
	case 'I':
		return fmt.Sprintf("U%d@пример.example", mbox)
	case 'x':
		a, _ := idna.ToASCII("пример.example")
		return fmt.Sprintf("u%d@%s", mbox, a)
	case 'X':
		a, _ := idna.ToASCII("пример.example")
		return fmt.Sprintf("U%d@%s", mbox, strings.ToUpper(a))
	case 'l':
		return fmt.Sprintf("ю%d@d.example", mbox)
	case 'c':
		return fmt.Sprintf("\u00e9%d@d.example", mbox)
	case 'd':
		return fmt.Sprintf("e\u0301%d@d.example", mbox)
	case 'C':
		return fmt.Sprintf("\u00c9%d@d.example", mbox)
	case 't':
		return fmt.Sprintf("u%d@d.example.", mbox)
	case 'T':
		return fmt.Sprintf("U%d@D.EXAMPLE.", mbox)
	case 'j':
		return fmt.Sprintf("u%d@пример.example.", mbox)
	case 'y':
		a, _ := idna.ToASCII("пример.example")
		return fmt.Sprintf("u%d@%s.", mbox, a)
	case 'u':
		return fmt.Sprintf("U%d@D.EXAMPLE", mbox)
	case 'U':
		return fmt.Sprintf("U%d@d.example", mbox)
	default:
		return fmt.Sprintf("u%d@d.example", mbox)
	}
}

type c09sf func(string, error)

func (f c09sf) SetStatus(r string, e error) { f(r, e) }

type c09BadBuffer struct{}

func (c09BadBuffer) Open() (io.ReadCloser, error) { return nil, errors.New("spool file vanished") }
func (c09BadBuffer) Len() int                     { return 4 }
func (c09BadBuffer) Remove() error                { return nil }

// case spec: <utf8>/<id.form.accept.status[.mbox],...>/<dataFail>/<bodyOpenFail>/<dropAfter>
// accept: 1 / 0 (550) / t (451) / 4 c r = the connection breaks under this RCPT (421 + close, close,
// reset). A recipient with a 5th field, a form outside "ailu" or an accept outside 0/1 selects the
// positional next hop (vc09): RCPT answers and per-recipient replies are given by position, so
// they do not depend on how the address is spelled.
// The same id may occur several times: the very same address string is added again (an exact
// duplicate, e.g. two aliases expanded to one mailbox); every occurrence has its own RCPT answer and
// its own per-recipient reply. A repeated id selects the positional next hop too.
func c09LMTP(t *testing.T, out *vh.Out, spec string) {
	f := strings.Split(spec, "/")
	utf8 := f[0] == "1"
	dataFail := f[2] == "1"
	openFail := len(f) > 3 && f[3] == "1"
	dropAfter := -1
	if len(f) > 4 && f[4] != "-" {
		dropAfter, _ = strconv.Atoi(f[4])
	}
	type rc struct {
		id     int
		form   byte
		accept bool
		ok     bool
		act    byte
		mbox   int
	}
	var rcs []rc
	positional := false
	occurs := map[int]int{}
	for _, rs := range strings.Split(f[1], ",") {
		p := strings.Split(rs, ".")
		id, _ := strconv.Atoi(p[0])
		r := rc{id, p[1][0], p[2] == "1", p[3] == "o", p[2][0], id}
		if len(p) > 4 {
			r.mbox, _ = strconv.Atoi(p[4])
			positional = true
		}
		occurs[id]++
		if occurs[id] > 1 {
			positional = true
			for _, q := range rcs {
				if q.id == id && (q.form != r.form || q.mbox != r.mbox) {
					t.Fatalf("ill-formed op: id %d names two different addresses: %s", id, spec)
				}
			}
		}
		if !strings.ContainsRune("ailu", rune(r.form)) || (r.act != '0' && r.act != '1') {
			positional = true
		}
		rcs = append(rcs, r)
	}
	testPort = vsmtp.FreePort()
	var srv *vsmtp.Server
	var raw *vsmtp.RawLMTP
	var pos *vc09.Server
	var err error
	if positional {
		pos, err = vc09.Start("127.0.0.1:"+testPort, utf8, true)
		if err != nil {
			testPort = vsmtp.FreePort()
			pos, err = vc09.Start("127.0.0.1:"+testPort, utf8, true)
		}
		if err != nil {
			t.Fatal(err)
		}
		defer pos.Close()
		pos.Set(func(s *vc09.Server) { s.LMTPSend = dropAfter })
		dataFail = false // the positional responder does not script DATA refusals
		srv = &vsmtp.Server{Script: vsmtp.NewScript()}
		out.Stat("lmtp.backend.positional")
	} else if dropAfter >= 0 {
		raw, err = vsmtp.StartRawLMTP("127.0.0.1:" + testPort)
		if err != nil {
			t.Fatal(err)
		}
		defer raw.Close()
		raw.UTF8 = utf8
		raw.SendStatuses = dropAfter
		srv = &vsmtp.Server{Script: vsmtp.NewScript()}
	} else {
		srv, err = vsmtp.Start("127.0.0.1:"+testPort, utf8, true)
		if err != nil {
			testPort = vsmtp.FreePort()
			srv, err = vsmtp.Start("127.0.0.1:"+testPort, utf8, true)
		}
		if err != nil {
			t.Fatal(err)
		}
		defer srv.Close()
	}
	srv.Script.Set(func(s *vsmtp.Script) {
		if dataFail {
			s.DataFail = 451
		}
		for _, r := range rcs {
			k, _ := address.ForLookup(c09LAddr(r.mbox, r.form))
			if !r.accept {
				s.RejectRcpt[k] = 550
			}
			if !r.ok {
				s.LMTPStatus[k] = 452
			}
		}
	})
	if raw != nil {
		srv.Script.Set(func(s *vsmtp.Script) {
			raw.RejectRcpt = s.RejectRcpt
			// per-recipient replies by the recipient the responder really accepted (a recipient the
			// target refuses locally never arrives, so positions in the script would be off)
			raw.StatusByKey = map[string]int{}
			for _, r := range rcs {
				k, _ := address.ForLookup(c09LAddr(r.mbox, r.form))
				if r.ok {
					raw.StatusByKey[k] = 250
				} else {
					raw.StatusByKey[k] = 452
				}
			}
		})
	}
	mod := &Downstream{
		hostname:  "mx.example.invalid",
		endpoints: []config.Endpoint{{Scheme: "tcp", Host: "127.0.0.1", Port: testPort}},
		modName:   "target.lmtp",
		lmtp:      true,
		log:       log.Logger{Out: log.NopOutput{}},
	}
	ctx := context.Background()
	d, err := mod.Start(ctx, &module.MsgMetadata{ID: "verif", SMTPOpts: smtp.MailOptions{UTF8: true}}, "sender@example.com")
	if err != nil {
		t.Fatal(err)
	}
	byAddr := map[string]int{}
	addrOf := map[int]string{}
	var accepted []string
	var serverSt []string
	acceptedN := map[int]int{}
	faulted := false
	for _, r := range rcs {
		a := c09LAddr(r.mbox, r.form)
		byAddr[a] = r.id
		addrOf[r.id] = a
		if pos != nil {
			pos.NextRcpt(r.act)
		}
		if r.mbox != r.id {
			out.Stat("lmtp.respelled." + string(r.form))
		}
		before := 0
		if pos != nil {
			before = pos.AcceptedTotal()
		}
		err := d.AddRcpt(ctx, a, smtp.RcptOptions{})
		if pos != nil && pos.AcceptedTotal() > before {
			// the per-recipient reply for the RCPT the next hop has just accepted (by position)
			code := 250
			if !r.ok {
				code = 452
			}
			pos.Set(func(s *vc09.Server) { s.LMTPCodes = append(s.LMTPCodes, code) })
		}
		if pos != nil && vc09.IsFault(r.act) && pos.Pending() == 0 {
			faulted = true // (an address refused locally never reaches the next hop: no fault)
			out.Stat("lmtp.fault." + string(r.act))
		}
		if err == nil {
			accepted = append(accepted, strconv.Itoa(r.id))
			acceptedN[r.id]++
			if r.ok {
				serverSt = append(serverSt, "o")
			} else {
				serverSt = append(serverSt, "f")
			}
		}
	}
	if pos != nil {
		pos.NextRcpt(0)
	}
	// exact duplicates: how often, and are they followed by an accepted recipient whose per-recipient
	// reply differs from theirs (a shifted reply-to-address mapping then changes a value, not only a key)
	for i, r := range rcs {
		if occurs[r.id] < 2 {
			continue
		}
		first := true
		for _, q := range rcs[:i] {
			if q.id == r.id {
				first = false
			}
		}
		if !first {
			continue
		}
		out.Stat(fmt.Sprintf("lmtp.duplicate.same-address-%d-times", occurs[r.id]))
		if acceptedN[r.id] >= 2 {
			out.Stat("lmtp.duplicate.accepted-more-than-once")
			differs := false
			for j, q := range rcs[i+1:] {
				if q.id == r.id || acceptedN[q.id] == 0 || q.act != '1' {
					continue
				}
				for _, o := range rcs[:i+1+j] {
					if o.id == r.id && o.act == '1' && o.ok != q.ok {
						differs = true
					}
				}
			}
			if differs {
				out.Stat("lmtp.duplicate.followed-by-recipient-with-another-reply")
			}
		}
	}
	if dataFail || openFail || faulted {
		serverSt = nil
	}
	if dropAfter >= 0 && dropAfter < len(serverSt) && !openFail {
		serverSt = serverSt[:dropAfter]
		out.Stat("lmtp.dropped-midway")
	}
	var mu sync.Mutex
	var st []string
	var order []string
	sc := c09sf(func(rcpt string, err error) {
		mu.Lock()
		defer mu.Unlock()
		res := "o"
		if err != nil {
			res = "f"
		}
		k := "?" + vh.HexRunes(rcpt)
		if id, ok := byAddr[rcpt]; ok {
			k = strconv.Itoa(id)
		}
		st = append(st, k+"="+res)
		order = append(order, k)
	})
	hdr := textproto.Header{}
	hdr.Add("Subject", "x")
	panicked := ""
	if len(accepted) > 0 {
		func() {
			defer func() {
				if p := recover(); p != nil {
					panicked = fmt.Sprint(p)
				}
			}()
			var body buffer.Buffer = buffer.MemoryBuffer{Slice: []byte("hi\r\n")}
			if openFail {
				body = c09BadBuffer{}
			}
			d.(module.PartialDelivery).BodyNonAtomic(ctx, sc, hdr, body)
		}()
		d.Commit(ctx)
	} else {
		d.Abort(ctx)
	}
	acc, sts := "-", "-"
	if len(accepted) > 0 {
		acc = strings.Join(accepted, ",")
	}
	if len(serverSt) > 0 {
		sts = strings.Join(serverSt, ",")
	}
	op := fmt.Sprintf("C09 lmtp %s %s %s", acc, sts, spec)
	obs := strings.Join(st, ",")
	if len(accepted) == 0 {
		obs = ""
	}
	if panicked != "" {
		obs += " PANIC"
		out.Violation("C09/lmtp-panic", op, panicked)
	}
	out.Corr(op, obs)
	got := map[string]int{}
	for _, k := range order {
		got[k]++
	}
	for id, n := range acceptedN {
		if got[strconv.Itoa(id)] != n {
			out.Violation("C09/lmtp-missing-or-duplicate-status", op, fmt.Sprintf("recipient %d accepted %d times, %d results; statuses %v", id, n, got[strconv.Itoa(id)], st))
		}
	}
	keys := make([]string, 0, len(got))
	for k := range got {
		keys = append(keys, k)
	}
	sort.Strings(keys)
	for _, k := range keys {
		if id, err := strconv.Atoi(k); err != nil {
			out.Violation("C09/lmtp-status-under-foreign-address", op, fmt.Sprintf("result under %s; statuses %v", k, st))
		} else if acceptedN[id] == 0 {
			out.Violation("C09/lmtp-status-for-unaccepted-recipient", op, fmt.Sprintf("result for %d; statuses %v", id, st))
		}
	}
	// ground truth (positional and raw next hop): a recipient that is not reported as failed is one
	// the next hop answered 250 for after the data
	var delivered []string
	haveTruth := false
	if pos != nil {
		haveTruth = true
		pos.Set(func(s *vc09.Server) {
			for _, tx := range s.Txs {
				delivered = append(delivered, tx.Delivered...)
			}
		})
	} else if raw != nil {
		haveTruth = true
		raw.Set(func(r *vsmtp.RawLMTP) { delivered = append(delivered, r.Delivered...) })
	}
	if haveTruth {
		held := map[string]int{}
		for _, w := range delivered {
			held[w]++
		}
		for _, s := range st {
			kv := strings.SplitN(s, "=", 2)
			id, err := strconv.Atoi(kv[0])
			if err != nil || kv[1] != "o" {
				continue
			}
			a := addrOf[id]
			conv, cerr := address.ToASCII(a)
			switch {
			case held[a] > 0:
				held[a]--
			case cerr == nil && held[conv] > 0:
				held[conv]--
			default:
				out.Violation("C09/lmtp-success-reported-for-recipient-the-next-hop-did-not-accept", op, fmt.Sprintf("recipient %d reported as delivered; the next hop answered 250 after the data for %d recipients, this one is not (or no longer) among them; statuses %v", id, len(delivered), st))
			}
		}
	}
	out.Stat(fmt.Sprintf("lmtp.accepted.%d", len(accepted)))
	if dataFail {
		out.Stat("lmtp.datafail")
	}
}

func TestVerifC09LMTP(t *testing.T) {
	out := vh.Open("c09_lmtp")
	defer out.Close()
	if ops := vh.Replay(); ops != nil {
		for _, op := range ops {
			if strings.HasPrefix(op, "C09 lmtp") {
				c09LMTP(t, out, strings.Fields(op)[4])
			}
		}
		return
	}
	r := vh.NewRng(vh.Seed() + 919)
	n := vh.N(150)
	families := []string{"auU", "aU", "iIxX", "cdC", "ix", "xi", "at", "tTa", "tuT", "ij", "yxj", "jyi"}
	for i := 0; i < n; i++ {
		nr := 1 + r.Intn(4)
		var rs []string
		if i%2 == 1 {
			// positional next hop: mailboxes spelled in several ways as different recipients,
			// independent RCPT answers and per-recipient replies, connection faults under a RCPT
			id := 0
			insert := func(tok string) {
				k := r.Intn(len(rs) + 1)
				rs = append(rs, "")
				copy(rs[k+1:], rs[k:])
				rs[k] = tok
			}
			pick := func() (byte, string) {
				acc, ok := byte('1'), "o"
				switch {
				case r.Chance(12):
					acc = '0'
				case r.Chance(4):
					acc = 't'
				}
				if r.Chance(40) {
					ok = "f"
				}
				return acc, ok
			}
			groups := 1 + r.Intn(2)
			for g := 0; g < groups; g++ {
				fam := families[r.Intn(len(families))]
				cnt := 2
				if len(fam) > 2 && r.Chance(40) {
					cnt = 3
				}
				off := r.Intn(len(fam))
				mbox := id + 1
				for k := 0; k < cnt; k++ {
					id++
					acc, ok := pick()
					tok := fmt.Sprintf("%d.%c.%c.%s", id, fam[(off+k)%len(fam)], acc, ok)
					if id != mbox {
						tok += "." + strconv.Itoa(mbox)
					}
					if r.Chance(50) {
						insert(tok)
					} else {
						rs = append(rs, tok)
					}
				}
			}
			for k := r.Intn(3); k > 0; k-- {
				id++
				acc, ok := pick()
				insert(fmt.Sprintf("%d.%c.%c.%s", id, "aailuxcdtTjy"[r.Intn(12)], acc, ok))
			}
			// exact duplicates: one of the recipients is added again (once or twice more) with the very
			// same address string — next to the first occurrence or later — every occurrence with its own
			// RCPT answer and per-recipient reply; mostly followed by a fresh recipient whose reply differs
			if r.Chance(45) {
				k := r.Intn(len(rs))
				orig := strings.Split(rs[k], ".")
				lastOK := orig[3]
				at := k
				for n := 1 + r.Intn(100)/65; n > 0; n-- {
					acc, ok := pick()
					if r.Chance(70) {
						acc = '1'
					}
					cp := append([]string{}, orig...)
					cp[2], cp[3] = string(rune(acc)), ok
					at = at + 1 + r.Intn(len(rs)-at)
					if r.Chance(40) {
						at = k + 1
					}
					rs = append(rs, "")
					copy(rs[at+1:], rs[at:])
					rs[at] = strings.Join(cp, ".")
					lastOK = ok
				}
				if r.Chance(75) {
					id++
					other := "o"
					if lastOK == "o" {
						other = "f"
					}
					rs = append(rs, fmt.Sprintf("%d.%c.1.%s", id, "aaixuctj"[r.Intn(8)], other))
					if r.Chance(40) {
						id++
						rs = append(rs, fmt.Sprintf("%d.%c.1.%s", id, "aail"[r.Intn(4)], lastOK))
					}
				}
			}
			if r.Chance(20) {
				id++
				insert(fmt.Sprintf("%d.%c.%c.o", id, "aaix"[r.Intn(4)], "4cr"[r.Intn(3)]))
			}
			of := 0
			if r.Chance(5) {
				of = 1
			}
			drop := "-"
			if r.Chance(25) {
				drop = strconv.Itoa(r.Intn(len(rs) + 1))
			}
			c09LMTP(t, out, fmt.Sprintf("%d/%s/0/%d/%s", r.Intn(2), strings.Join(rs, ","), of, drop))
			continue
		}
		for j := 1; j <= nr; j++ {
			acc, ok := 1, "o"
			if r.Chance(20) {
				acc = 0
			}
			if r.Chance(35) {
				ok = "f"
			}
			rs = append(rs, fmt.Sprintf("%d.%c.%d.%s", j, "aaiilu"[r.Intn(6)], acc, ok))
		}
		df := 0
		if r.Chance(15) {
			df = 1
		}
		of := 0
		if r.Chance(8) {
			of = 1
		}
		drop := "-"
		if r.Chance(30) {
			drop = strconv.Itoa(r.Intn(nr + 1))
			df = 0 // the raw responder does not script DATA refusals
		}
		c09LMTP(t, out, fmt.Sprintf("%d/%s/%d/%d/%s", r.Intn(2), strings.Join(rs, ","), df, of, drop))
	}
}
