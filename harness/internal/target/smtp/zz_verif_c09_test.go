package smtp_downstream

import (
	"context"
	"errors"
	"fmt"
	"io"
	"sort"
	"strconv"
	"strings"
	"sync"
	"testing"

	"github.com/emersion/go-message/textproto"
	"github.com/emersion/go-smtp"
	"github.com/foxcpp/maddy/framework/address"
	"github.com/foxcpp/maddy/framework/buffer"
	"github.com/foxcpp/maddy/framework/config"
	"github.com/foxcpp/maddy/framework/log"
	"github.com/foxcpp/maddy/framework/module"
	"github.com/foxcpp/maddy/internal/verifshim/vh"
	"github.com/foxcpp/maddy/internal/verifshim/vsmtp"
)

func c09LAddr(id int, form byte) string {
	switch form {
	case 'i':
		return fmt.Sprintf("u%d@пример.example", id)
	case 'l':
		return fmt.Sprintf("ю%d@d.example", id)
	case 'u':
		return fmt.Sprintf("U%d@D.EXAMPLE", id)
	default:
		return fmt.Sprintf("u%d@d.example", id)
	}
}

type c09sf func(string, error)

func (f c09sf) SetStatus(r string, e error) { f(r, e) }

type c09BadBuffer struct{}

func (c09BadBuffer) Open() (io.ReadCloser, error) { return nil, errors.New("spool file vanished") }
func (c09BadBuffer) Len() int                     { return 4 }
func (c09BadBuffer) Remove() error                { return nil }

// case spec: <utf8>/<id.form.accept.status,...>/<dataFail>/<bodyOpenFail>
func c09LMTP(t *testing.T, out *vh.Out, spec string) {
	f := strings.Split(spec, "/")
	utf8 := f[0] == "1"
	dataFail := f[2] == "1"
	openFail := len(f) > 3 && f[3] == "1"
	dropAfter := -1
	if len(f) > 4 && f[4] != "-" {
		dropAfter, _ = strconv.Atoi(f[4])
	}
	testPort = vsmtp.FreePort()
	var srv *vsmtp.Server
	var raw *vsmtp.RawLMTP
	var err error
	if dropAfter >= 0 {
		raw, err = vsmtp.StartRawLMTP("127.0.0.1:" + testPort)
		if err != nil {
			t.Fatal(err)
		}
		defer raw.Close()
		raw.UTF8 = utf8
		raw.SendStatuses = dropAfter
		srv = &vsmtp.Server{Script: vsmtp.NewScript()}
	} else {
		srv, err = vsmtp.Start("127.0.0.1:"+testPort, utf8, true)
		if err != nil {
			testPort = vsmtp.FreePort()
			srv, err = vsmtp.Start("127.0.0.1:"+testPort, utf8, true)
		}
		if err != nil {
			t.Fatal(err)
		}
		defer srv.Close()
	}
	type rc struct {
		id     int
		form   byte
		accept bool
		ok     bool
	}
	var rcs []rc
	for _, rs := range strings.Split(f[1], ",") {
		p := strings.Split(rs, ".")
		id, _ := strconv.Atoi(p[0])
		rcs = append(rcs, rc{id, p[1][0], p[2] == "1", p[3] == "o"})
	}
	srv.Script.Set(func(s *vsmtp.Script) {
		if dataFail {
			s.DataFail = 451
		}
		for _, r := range rcs {
			k, _ := address.ForLookup(c09LAddr(r.id, r.form))
			if !r.accept {
				s.RejectRcpt[k] = 550
			}
			if !r.ok {
				s.LMTPStatus[k] = 452
			}
		}
	})
	if raw != nil {
		srv.Script.Set(func(s *vsmtp.Script) {
			raw.RejectRcpt = s.RejectRcpt
			for _, r := range rcs {
				if !r.accept {
					continue
				}
				if r.ok {
					raw.StatusCodes = append(raw.StatusCodes, 250)
				} else {
					raw.StatusCodes = append(raw.StatusCodes, 452)
				}
			}
		})
	}
	mod := &Downstream{
		hostname:  "mx.example.invalid",
		endpoints: []config.Endpoint{{Scheme: "tcp", Host: "127.0.0.1", Port: testPort}},
		modName:   "target.lmtp",
		lmtp:      true,
		log:       log.Logger{Out: log.NopOutput{}},
	}
	ctx := context.Background()
	d, err := mod.Start(ctx, &module.MsgMetadata{ID: "verif", SMTPOpts: smtp.MailOptions{UTF8: true}}, "sender@example.com")
	if err != nil {
		t.Fatal(err)
	}
	byAddr := map[string]int{}
	var accepted []string
	var serverSt []string
	acceptedN := map[int]int{}
	for _, r := range rcs {
		a := c09LAddr(r.id, r.form)
		byAddr[a] = r.id
		if err := d.AddRcpt(ctx, a, smtp.RcptOptions{}); err == nil {
			accepted = append(accepted, strconv.Itoa(r.id))
			acceptedN[r.id]++
			if r.ok {
				serverSt = append(serverSt, "o")
			} else {
				serverSt = append(serverSt, "f")
			}
		}
	}
	if dataFail || openFail {
		serverSt = nil
	}
	if dropAfter >= 0 && dropAfter < len(serverSt) && !openFail {
		serverSt = serverSt[:dropAfter]
		out.Stat("lmtp.dropped-midway")
	}
	var mu sync.Mutex
	var st []string
	var order []string
	sc := c09sf(func(rcpt string, err error) {
		mu.Lock()
		defer mu.Unlock()
		res := "o"
		if err != nil {
			res = "f"
		}
		k := "?" + vh.HexRunes(rcpt)
		if id, ok := byAddr[rcpt]; ok {
			k = strconv.Itoa(id)
		}
		st = append(st, k+"="+res)
		order = append(order, k)
	})
	hdr := textproto.Header{}
	hdr.Add("Subject", "x")
	panicked := ""
	if len(accepted) > 0 {
		func() {
			defer func() {
				if p := recover(); p != nil {
					panicked = fmt.Sprint(p)
				}
			}()
			var body buffer.Buffer = buffer.MemoryBuffer{Slice: []byte("hi\r\n")}
			if openFail {
				body = c09BadBuffer{}
			}
			d.(module.PartialDelivery).BodyNonAtomic(ctx, sc, hdr, body)
		}()
		d.Commit(ctx)
	} else {
		d.Abort(ctx)
	}
	acc, sts := "-", "-"
	if len(accepted) > 0 {
		acc = strings.Join(accepted, ",")
	}
	if len(serverSt) > 0 {
		sts = strings.Join(serverSt, ",")
	}
	op := fmt.Sprintf("C09 lmtp %s %s %s", acc, sts, spec)
	obs := strings.Join(st, ",")
	if len(accepted) == 0 {
		obs = ""
	}
	if panicked != "" {
		obs += " PANIC"
		out.Violation("C09/lmtp-panic", op, panicked)
	}
	out.Corr(op, obs)
	got := map[string]int{}
	for _, k := range order {
		got[k]++
	}
	for id, n := range acceptedN {
		if got[strconv.Itoa(id)] != n {
			out.Violation("C09/lmtp-missing-or-duplicate-status", op, fmt.Sprintf("recipient %d accepted %d times, %d results; statuses %v", id, n, got[strconv.Itoa(id)], st))
		}
	}
	keys := make([]string, 0, len(got))
	for k := range got {
		keys = append(keys, k)
	}
	sort.Strings(keys)
	for _, k := range keys {
		if id, err := strconv.Atoi(k); err != nil {
			out.Violation("C09/lmtp-status-under-foreign-address", op, fmt.Sprintf("result under %s; statuses %v", k, st))
		} else if acceptedN[id] == 0 {
			out.Violation("C09/lmtp-status-for-unaccepted-recipient", op, fmt.Sprintf("result for %d; statuses %v", id, st))
		}
	}
	out.Stat(fmt.Sprintf("lmtp.accepted.%d", len(accepted)))
	if dataFail {
		out.Stat("lmtp.datafail")
	}
}

func TestVerifC09LMTP(t *testing.T) {
	out := vh.Open("c09_lmtp")
	defer out.Close()
	if ops := vh.Replay(); ops != nil {
		for _, op := range ops {
			if strings.HasPrefix(op, "C09 lmtp") {
				c09LMTP(t, out, strings.Fields(op)[4])
			}
		}
		return
	}
	r := vh.NewRng(vh.Seed() + 919)
	n := vh.N(150)
	for i := 0; i < n; i++ {
		nr := 1 + r.Intn(4)
		var rs []string
		for j := 1; j <= nr; j++ {
			acc, ok := 1, "o"
			if r.Chance(20) {
				acc = 0
			}
			if r.Chance(35) {
				ok = "f"
			}
			rs = append(rs, fmt.Sprintf("%d.%c.%d.%s", j, "aaiilu"[r.Intn(6)], acc, ok))
		}
		df := 0
		if r.Chance(15) {
			df = 1
		}
		of := 0
		if r.Chance(8) {
			of = 1
		}
		drop := "-"
		if r.Chance(30) {
			drop = strconv.Itoa(r.Intn(nr + 1))
			df = 0 // the raw responder does not script DATA refusals
		}
		c09LMTP(t, out, fmt.Sprintf("%d/%s/%d/%d/%s", r.Intn(2), strings.Join(rs, ","), df, of, drop))
	}
}
