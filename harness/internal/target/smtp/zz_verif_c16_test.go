package smtp_downstream

// C16, failures of the next hop of target.smtp / target.lmtp: the REAL (*delivery).connect over
// scripted endpoints (unix sockets in a temporary directory: no such socket, closed before the
// greeting, greeting / EHLO / LHLO refused), MAIL / RCPT / DATA / end-of-data replies and LMTP
// per-recipient statuses of a scripted server parsed by the real go-smtp client, then the real
// endpoint wrapErr and queue toSMTPErr on the resulting values.
//
//	C16 down <lmtp> <ep> ; <ep> ... then <after>     ep: U | X | C | G <reply> | E <reply>
//	                                                  after: ok | M|R|D|B <reply> | S <status> ; <status> ...   (status: ok | <reply>)
//
// Round 9: the downstream configured with `auth` (the factory comes from the REAL saslAuthDirective),
// the AUTH command of the real go-smtp client answered by the scripted server with any reply / dropped /
// answered with garbage / with a challenge:
//
//	C16 dauth <lmtp> <cfg> <ans> ; <ep> ; ... then <after>    cfg: off | plain | fwd | fwd0 | ext   (fwd0: `auth forward`,
//	                                                           the client of the message did not authenticate)
//	                                                           ans: ok | A <reply> | drop | junk | chal

import (
	"context"
	"crypto/tls"
	"fmt"
	"net"
	"os"
	"path/filepath"
	"strings"
	"sync"
	"testing"

	"github.com/emersion/go-message/textproto"
	"github.com/emersion/go-smtp"
	"github.com/foxcpp/maddy/framework/buffer"
	"github.com/foxcpp/maddy/framework/config"
	"github.com/foxcpp/maddy/framework/log"
	"github.com/foxcpp/maddy/framework/module"
	smtpep "github.com/foxcpp/maddy/internal/endpoint/smtp"
	"github.com/foxcpp/maddy/internal/target/queue"
	"github.com/foxcpp/maddy/internal/verifshim/vc16"
	"github.com/foxcpp/maddy/internal/verifshim/vh"
)

var c16Conv = vc16.Conv{WrapErr: smtpep.VerifC16WrapErr, ToSMTPErr: queue.VerifC16ToSMTPErr}

type c16EP struct {
	kind  string // U X C G E
	reply vc16.Reply
}

func (e c16EP) String() string {
	if e.kind == "G" || e.kind == "E" {
		return e.kind + " " + e.reply.String()
	}
	return e.kind
}

type c16Down struct {
	authCfg   string // "" = op `down` (no auth directive at all)
	authAns   string // ok A drop junk chal
	authRepl  vc16.Reply
	lmtp      bool
	eps       []c16EP
	after     string // ok M R D B S
	afterRepl vc16.Reply
	statuses  []*vc16.Reply
}

func (h c16Down) Op() string {
	var s []string
	for _, e := range h.eps {
		s = append(s, e.String())
	}
	a := h.after
	switch h.after {
	case "ok":
	case "S":
		var st []string
		for _, r := range h.statuses {
			if r == nil {
				st = append(st, "ok")
			} else {
				st = append(st, r.String())
			}
		}
		a = "S " + strings.Join(st, " ; ")
	default:
		a += " " + h.afterRepl.String()
	}
	l := 0
	if h.lmtp {
		l = 1
	}
	if h.authCfg != "" {
		ans := h.authAns
		if ans == "A" {
			ans += " " + h.authRepl.String()
		}
		return fmt.Sprintf("C16 dauth %d %s %s ; %s then %s", l, h.authCfg, ans, strings.Join(s, " ; "), a)
	}
	return fmt.Sprintf("C16 down %d %s then %s", l, strings.Join(s, " ; "), a)
}

func c16ParseDown(op string) c16Down {
	all := strings.Fields(op)
	toks := all[2:]
	h := c16Down{lmtp: toks[0] == "1"}
	toks = toks[1:]
	if all[1] == "dauth" {
		h.authCfg, h.authAns = toks[0], toks[1]
		toks = toks[2:]
		if h.authAns == "A" {
			h.authRepl, toks = vc16.ParseReply(toks)
		}
	}
	for toks[0] != "then" {
		switch k := toks[0]; k {
		case ";":
			toks = toks[1:]
		case "U", "X", "C":
			h.eps = append(h.eps, c16EP{kind: k})
			toks = toks[1:]
		case "G", "E":
			var rp vc16.Reply
			rp, toks = vc16.ParseReply(toks[1:])
			h.eps = append(h.eps, c16EP{kind: k, reply: rp})
		default:
			panic("bad endpoint script " + k)
		}
	}
	toks = toks[1:]
	h.after = toks[0]
	toks = toks[1:]
	switch h.after {
	case "ok":
	case "S":
		for len(toks) > 0 {
			switch toks[0] {
			case ";":
				toks = toks[1:]
			case "ok":
				h.statuses = append(h.statuses, nil)
				toks = toks[1:]
			default:
				var rp vc16.Reply
				rp, toks = vc16.ParseReply(toks)
				h.statuses = append(h.statuses, &rp)
			}
		}
	default:
		h.afterRepl, _ = vc16.ParseReply(toks)
	}
	return h
}

type c16Status func(string, error)

func (f c16Status) SetStatus(rcpt string, err error) { f(rcpt, err) }

var c16Case int

func c16RunDown(t *testing.T, out *vh.Out, dir, op string) {
	h := c16ParseDown(op)
	op = h.Op()
	c16Case++
	var sc vc16.Script
	switch h.after {
	case "M":
		sc.Mail = &h.afterRepl
	case "R":
		sc.Rcpt = &h.afterRepl
	case "D":
		sc.Data = &h.afterRepl
	case "B":
		sc.Dot = &h.afterRepl
	case "S":
		sc.DotStatuses = h.statuses
	}
	u := &Downstream{modName: "target.smtp", instName: "verif", lmtp: h.lmtp, hostname: "mx.example.com",
		tlsConfig: &tls.Config{}, log: log.Logger{Out: log.NopOutput{}}}
	if h.lmtp {
		u.modName = "target.lmtp"
	}
	msgMeta := &module.MsgMetadata{ID: "verif"}
	var authMu sync.Mutex
	var authLines []string
	if h.authCfg != "" {
		args := map[string][]string{"off": {"off"}, "plain": {"plain", "relay-user", "relay-secret"}, "fwd": {"forward"}, "fwd0": {"forward"}, "ext": {"external"}}[h.authCfg]
		if args == nil {
			panic("bad auth configuration " + h.authCfg)
		}
		f, err := saslAuthDirective(nil, config.Node{Name: "auth", Args: args})
		if err != nil {
			t.Fatal(err)
		}
		if f != nil {
			u.saslFactory = f.(saslClientFactory)
		}
		if h.authCfg == "fwd" {
			msgMeta.Conn = &module.ConnState{AuthUser: "client-user", AuthPassword: "client-secret"}
		}
		sc.OnAuth = func(line string) {
			authMu.Lock()
			authLines = append(authLines, line)
			authMu.Unlock()
		}
		switch h.authAns {
		case "ok":
		case "A":
			sc.AuthReply = &h.authRepl
		case "drop", "junk", "chal":
			sc.AuthMode = h.authAns
		default:
			panic("bad AUTH answer " + h.authAns)
		}
	}
	var listeners []net.Listener
	defer func() {
		for _, l := range listeners {
			l.Close()
		}
	}()
	connected := -1
	for i, e := range h.eps {
		path := filepath.Join(dir, fmt.Sprintf("c%d-%d.sock", c16Case, i))
		u.endpoints = append(u.endpoints, config.Endpoint{Scheme: "unix", Path: path})
		if e.kind == "X" {
			continue
		}
		if e.kind == "U" && connected < 0 {
			connected = i
		}
		l, err := net.Listen("unix", path)
		if err != nil {
			t.Fatal(err)
		}
		listeners = append(listeners, l)
		s := sc
		switch e.kind {
		case "C":
			s = vc16.Script{CloseAtOnce: true}
		case "G":
			s = vc16.Script{Greet: &h.eps[i].reply}
		case "E":
			s = vc16.Script{Hello: &h.eps[i].reply}
		}
		go func() {
			for {
				c, err := l.Accept()
				if err != nil {
					return
				}
				go vc16.Serve(c, s)
			}
		}()
	}
	for i, e := range h.eps {
		if connected < 0 || i < connected {
			out.Stat("down.failure." + e.kind)
		}
	}

	// what the target reports: one error per recipient (nil = delivered)
	nrcpt := 1
	if h.after == "S" {
		nrcpt = len(h.statuses)
	}
	results := make([]error, nrcpt)
	ctx := context.Background()
	d, err := u.Start(ctx, msgMeta, "sender@example.org")
	single := false // the failure ends the whole transaction (one result)
	if err != nil {
		results, single = []error{err}, true
	} else {
		accepted := 0
		for i := 0; i < nrcpt && !single; i++ {
			if err := d.AddRcpt(ctx, fmt.Sprintf("r%d@c16.invalid", i), smtp.RcptOptions{}); err != nil {
				results, single = []error{err}, true
			} else {
				accepted++
			}
		}
		if !single {
			hdr := textproto.Header{}
			hdr.Add("Subject", "x")
			body := buffer.MemoryBuffer{Slice: []byte("hi\r\n")}
			if pd, ok := d.(module.PartialDelivery); ok {
				seen := map[string]int{}
				pd.BodyNonAtomic(ctx, c16Status(func(rcpt string, e error) {
					var i int
					fmt.Sscanf(rcpt, "r%d@", &i)
					seen[rcpt]++
					if i < len(results) {
						results[i] = e
					}
				}), hdr, body)
				for i := 0; i < nrcpt; i++ {
					if seen[fmt.Sprintf("r%d@c16.invalid", i)] != 1 {
						out.Violation("C16/no-status", op, fmt.Sprintf("recipient %d: %d statuses", i, seen[fmt.Sprintf("r%d@c16.invalid", i)]))
					}
				}
				if h.after != "S" && results[0] != nil {
					results = results[:1]
				}
			} else {
				results = []error{d.Body(ctx, hdr, body)}
			}
		}
		d.Abort(ctx)
	}
	if connected < 0 {
		out.Stat(fmt.Sprintf("down.all-failed.%d", len(h.eps)))
	} else {
		out.Stat(fmt.Sprintf("down.connected.lmtp-%v.then-%s", h.lmtp, h.after))
	}

	// the AUTH step: did it take place, did it fail
	authFails := false
	if h.authCfg != "" && connected >= 0 {
		authMu.Lock()
		seenAuth := append([]string{}, authLines...)
		authMu.Unlock()
		wantMech := map[string]string{"plain": "AUTH PLAIN ", "fwd": "AUTH PLAIN ", "ext": "AUTH EXTERNAL"}[h.authCfg]
		switch {
		case wantMech == "" && len(seenAuth) != 0:
			out.Violation("C16/downstream-auth-unexpected", op, fmt.Sprintf("AUTH sent although none can be: %q", seenAuth))
		case wantMech != "" && (len(seenAuth) != 1 || !strings.HasPrefix(seenAuth[0], wantMech)):
			out.Violation("C16/downstream-auth-not-attempted", op, fmt.Sprintf("the next hop saw %q, configured: auth %s", seenAuth, h.authCfg))
		}
		authFails = h.authCfg == "fwd0" || (wantMech != "" && h.authAns != "ok")
		out.Stat("dauth.cfg." + h.authCfg)
		if wantMech != "" {
			k := h.authAns
			if k == "A" {
				k = fmt.Sprintf("reply-class%d", h.authRepl.Code/100)
				if !h.authRepl.Ok() {
					k += "-incoherent"
				}
			}
			out.Stat("dauth.answer." + k)
		}
		if authFails && !single {
			out.Violation("C16/downstream-auth-failure-ignored", op, "the AUTH step failed and the transaction went on")
		}
	}

	var obs []string
	for i, e := range results {
		if e == nil {
			obs = append(obs, "ok")
			if connected < 0 {
				out.Violation("C16/no-usable-mx-accepted", op, "delivered although no endpoint could be used")
			}
			continue
		}
		seen := vc16.Run(c16Conv, e)
		obs = append(obs, seen.Canon(nil))
		inputOk := true
		switch {
		case authFails:
			// the reply of the next hop to AUTH (or a failure maddy composes itself)
			if h.authCfg != "fwd0" && h.authAns == "A" {
				inputOk = h.authRepl.Ok()
			}
		case connected < 0:
			// the failure of the last endpoint: a relayed greeting / EHLO reply, or a network error
			if last := h.eps[len(h.eps)-1]; last.kind == "G" || last.kind == "E" {
				inputOk = last.reply.Ok()
			}
		case h.after == "S":
			if i < len(h.statuses) && h.statuses[i] != nil {
				inputOk = h.statuses[i].Ok()
			}
		default:
			inputOk = h.afterRepl.Ok()
		}
		vc16.Check(out, op, seen, inputOk)
		if authFails && h.authCfg != "fwd0" && h.authAns == "A" && inputOk && h.authRepl.Code/100 == 4 && seen.Stored != nil && seen.Ep0 != nil {
			// ground truth of the script: the next hop said "not now" to AUTH
			if !seen.Retried {
				out.Violation("C16/queue-temporary-not-retried", op, fmt.Sprintf("AUTH was answered %d by the next hop, the queue does not retry", h.authRepl.Code))
			}
			if seen.Ep0.Code/100 != 4 {
				out.Violation("C16/endpoint-temporary-not-4yz", op, fmt.Sprintf("AUTH was answered %d by the next hop, reply %d", h.authRepl.Code, seen.Ep0.Code))
			}
		}
		out.Stat(fmt.Sprintf("down.reply-class%d", seen.Stored.Code/100))
	}
	out.Corr(op, strings.Join(obs, " || "))
}

func c16GenDown(r *vh.Rng) c16Down {
	h := c16Down{lmtp: r.Bool(), after: "ok"}
	n := 1 + r.Intn(3)
	up := r.Chance(65)
	for i := 0; i < n; i++ {
		switch p := r.Intn(100); {
		case p < 20:
			h.eps = append(h.eps, c16EP{kind: "X"})
		case p < 35:
			h.eps = append(h.eps, c16EP{kind: "C"})
		case p < 55:
			h.eps = append(h.eps, c16EP{kind: "G", reply: vc16.GenReply(r, true)})
		case p < 70 || !up:
			h.eps = append(h.eps, c16EP{kind: "E", reply: vc16.GenReply(r, true)})
		default:
			h.eps = append(h.eps, c16EP{kind: "U"})
		}
	}
	for _, e := range h.eps {
		if e.kind != "U" {
			continue
		}
		kinds := []string{"ok", "M", "R", "D", "B", "B"}
		if h.lmtp {
			kinds = []string{"ok", "M", "R", "D", "S", "S", "S"}
		}
		h.after = kinds[r.Intn(len(kinds))]
		if h.after == "S" {
			k := 1 + r.Intn(3)
			for i := 0; i < k; i++ {
				if r.Chance(30) {
					h.statuses = append(h.statuses, nil)
				} else {
					rp := vc16.GenReply(r, true)
					h.statuses = append(h.statuses, &rp)
				}
			}
		} else if h.after != "ok" {
			h.afterRepl = vc16.GenReply(r, true)
		}
		break
	}
	return h
}

func c16SystematicDown() []string {
	msg := vh.HexRunes("Mailbox full")
	var ops []string
	for _, rp := range []string{"552 5 2 2", "552 0 0 0", "452 4 2 2", "550 5 1 1", "450 0 0 0", "421 4 4 2", "554 0 0 0"} {
		for _, st := range []string{"M", "R", "D", "B"} {
			ops = append(ops, "C16 down 0 X ; U then "+st+" "+rp+" "+msg)
		}
		for _, st := range []string{"M", "R", "D"} {
			ops = append(ops, "C16 down 1 U then "+st+" "+rp+" "+msg)
		}
		ops = append(ops, "C16 down 1 C ; U then S ok ; "+rp+" "+msg, "C16 down 1 U then S "+rp+" "+msg+" ; ok ; 450 4 2 0 "+msg)
		ops = append(ops, "C16 down 0 X ; G "+rp+" "+msg+" then ok", "C16 down 1 E "+rp+" "+msg+" ; X then ok", "C16 down 0 E "+rp+" "+msg+" ; C then ok")
	}
	return ops
}

// c16SystematicAuth: every auth configuration x every kind of answer to AUTH (accepted, every reply
// class with and without enhanced code, 552 which nothing rewrites here, a 2xx that is not 235, the
// exchange broken in three ways) on target.smtp and target.lmtp, behind a dead endpoint too.
func c16SystematicAuth() []string {
	msg := vh.HexRunes("Authentication credentials invalid")
	answers := []string{"ok", "drop", "junk", "chal"}
	for _, rp := range []string{"535 5 7 8", "535 0 0 0", "534 5 7 9", "538 5 7 11", "554 5 7 0", "550 5 7 1", "504 5 5 4", "501 5 5 2", "500 0 0 0", "552 5 2 2", "530 5 7 0",
		"454 4 7 0", "454 0 0 0", "451 4 7 0", "421 4 4 2", "450 4 0 0", "432 4 7 12", "250 2 0 0", "535 4 7 8", "454 5 7 0"} {
		answers = append(answers, "A "+rp+" "+msg)
	}
	var ops []string
	for _, l := range []string{"0", "1"} {
		for _, cfg := range []string{"plain", "fwd", "ext"} {
			for i, a := range answers {
				eps := []string{"U", "X ; U", "C ; U"}[i%3]
				ops = append(ops, "C16 dauth "+l+" "+cfg+" "+a+" ; "+eps+" then ok")
			}
		}
		for _, a := range []string{"ok", "A 535 5 7 8 " + msg, "drop"} {
			ops = append(ops, "C16 dauth "+l+" fwd0 "+a+" ; U then ok", "C16 dauth "+l+" off "+a+" ; U then ok", "C16 dauth "+l+" plain "+a+" ; X then ok")
		}
		// AUTH accepted, the transaction fails later
		ops = append(ops, "C16 dauth "+l+" plain ok ; U then M 450 4 2 0 "+msg, "C16 dauth "+l+" fwd ok ; U then R 550 5 1 1 "+msg)
	}
	ops = append(ops, "C16 dauth 1 plain ok ; U then S ok ; 452 4 2 2 "+msg, "C16 dauth 1 plain A 454 4 7 0 "+msg+" ; U then S ok ; 452 4 2 2 "+msg)
	return ops
}

func c16GenAuth(r *vh.Rng) c16Down {
	h := c16GenDown(r)
	h.authCfg = []string{"plain", "plain", "fwd", "fwd", "ext", "fwd0", "off"}[r.Intn(7)]
	switch p := r.Intn(100); {
	case p < 25:
		h.authAns = "ok"
	case p < 85:
		h.authAns, h.authRepl = "A", vc16.GenReply(r, true)
		if r.Chance(40) {
			c := [][4]int{{535, 5, 7, 8}, {454, 4, 7, 0}, {534, 5, 7, 9}, {451, 4, 7, 0}, {535, 0, 0, 0}, {454, 0, 0, 0}}[r.Intn(6)]
			h.authRepl.Code, h.authRepl.Ench = c[0], [3]int{c[1], c[2], c[3]}
		}
	default:
		h.authAns = []string{"drop", "junk", "chal"}[r.Intn(3)]
	}
	return h
}

func TestVerifC16Downstream(t *testing.T) {
	out := vh.Open("c16_downstream")
	defer out.Close()
	// unix socket paths are limited to ~100 bytes: a short directory of our own
	base := os.TempDir()
	if len(base) > 40 {
		base = "/tmp"
	}
	dir, err := os.MkdirTemp(base, "c16d")
	if err != nil {
		t.Fatal(err)
	}
	defer os.RemoveAll(dir)
	if ops := vh.Replay(); ops != nil {
		for _, op := range ops {
			if strings.HasPrefix(op, "C16 down ") || strings.HasPrefix(op, "C16 dauth ") {
				c16RunDown(t, out, dir, op)
			}
		}
		return
	}
	for _, op := range c16SystematicDown() {
		c16RunDown(t, out, dir, op)
	}
	r := vh.NewRng(vh.Seed() + 1617)
	for i := 0; i < vh.N(4000)/16; i++ {
		c16RunDown(t, out, dir, c16GenDown(r).Op())
	}
	for _, op := range c16SystematicAuth() {
		c16RunDown(t, out, dir, op)
	}
	for i := 0; i < vh.N(4000)/32; i++ {
		c16RunDown(t, out, dir, c16GenAuth(r).Op())
	}
}
