package dnsbl

// C16 harness (round 10): the real checkLists with 1-4 configured lists whose lookups end clean,
// listed or with ANY error value (scripted resolver), several failing at once.  Which failed lookup
// the errgroup reports is the scheduler's choice, so the observation is: the rejection of every
// failed lookup ALONE (deterministic, the real code with only that list failing) and whether the
// rejection of the run with all of them is one of those.  The C16 monitor (vc16.Check) runs on the
// rejection of the full run.

import (
	"context"
	"fmt"
	"net"
	"strconv"
	"strings"
	"testing"

	"github.com/foxcpp/go-mockdns"
	"github.com/foxcpp/maddy/framework/log"
	"github.com/foxcpp/maddy/framework/module"
	smtpep "github.com/foxcpp/maddy/internal/endpoint/smtp"
	"github.com/foxcpp/maddy/internal/target/queue"
	"github.com/foxcpp/maddy/internal/verifshim/vc16"
	"github.com/foxcpp/maddy/internal/verifshim/verr"
	"github.com/foxcpp/maddy/internal/verifshim/vh"
)

var c16blConv = vc16.Conv{WrapErr: smtpep.VerifC16WrapErr, ToSMTPErr: queue.VerifC16ToSMTPErr}

type c16blOut struct {
	kind  byte // o L E
	score int
	node  *verr.Node
}

type c16blCase struct {
	rt, qt int
	via    string // ip4 ip6 ehlo from
	outs   []c16blOut
}

func (c *c16blCase) Op() string {
	var segs []string
	for _, o := range c.outs {
		switch o.kind {
		case 'o':
			segs = append(segs, "ok")
		case 'L':
			segs = append(segs, fmt.Sprintf("L %d", o.score))
		default:
			segs = append(segs, "E "+o.node.String())
		}
	}
	return fmt.Sprintf("C16 dnsbl %d %d %s ; %s", c.rt, c.qt, c.via, strings.Join(segs, " ; "))
}

func c16blParse(op string) *c16blCase {
	t := strings.Fields(op)
	c := &c16blCase{via: t[4]}
	c.rt, _ = strconv.Atoi(t[2])
	c.qt, _ = strconv.Atoi(t[3])
	var cur []string
	flush := func() {
		if len(cur) == 0 {
			return
		}
		switch cur[0] {
		case "ok":
			c.outs = append(c.outs, c16blOut{kind: 'o'})
		case "L":
			s, _ := strconv.Atoi(cur[1])
			c.outs = append(c.outs, c16blOut{kind: 'L', score: s})
		case "E":
			n, _ := verr.Parse(cur[1:])
			c.outs = append(c.outs, c16blOut{kind: 'E', node: n})
		}
		cur = nil
	}
	for _, tok := range t[6:] {
		if tok == ";" {
			flush()
		} else {
			cur = append(cur, tok)
		}
	}
	flush()
	return c
}

var c16blIP4 = net.IPv4(192, 0, 2, 77)
var c16blIP6 = net.ParseIP("2001:db8::77")

// run: the real checkLists; only the failures selected by `failing` (nil = all) are scripted, the
// other failing lists are clean.
func (c *c16blCase) run(failing map[int]bool) module.CheckResult {
	zones := map[string]mockdns.Zone{}
	var bls []List
	ip, ehlo, from := c16blIP4, "", ""
	for i, o := range c.outs {
		l := List{Zone: fmt.Sprintf("bl%d.c16.invalid", i), ScoreAdj: o.score}
		var q string
		switch c.via {
		case "ip4":
			l.ClientIPv4 = true
			q = queryString(c16blIP4) + "." + l.Zone + "."
		case "ip6":
			l.ClientIPv6 = true
			ip = c16blIP6
			q = queryString(c16blIP6) + "." + l.Zone + "."
		case "ehlo":
			l.EHLO = true
			ehlo = "client.c16.example"
			q = ehlo + "." + l.Zone + "."
		default:
			l.MAILFROM = true
			from = "sender@from.c16.example"
			q = "from.c16.example." + l.Zone + "."
		}
		bls = append(bls, l)
		switch o.kind {
		case 'L':
			zones[q] = mockdns.Zone{A: []string{"127.0.0.2"}, AAAA: nil, TXT: []string{"listed"}}
		case 'E':
			if failing == nil || failing[i] {
				zones[q] = mockdns.Zone{Err: o.node.Build()}
			}
		}
	}
	bl := &DNSBL{bls: bls, resolver: &mockdns.Resolver{Zones: zones}, log: log.Logger{Out: log.NopOutput{}}, rejectThres: c.rt, quarantineThres: c.qt}
	return bl.checkLists(context.Background(), ip, ehlo, from)
}

func c16blCanon(res module.CheckResult) (string, *vc16.Seen) {
	switch {
	case res.Reject:
		if res.Reason == nil {
			return "reject without-reason", nil
		}
		s := vc16.Run(c16blConv, res.Reason)
		return "reject " + s.Canon(nil), &s
	case res.Quarantine:
		return "quarantine", nil
	}
	return "pass", nil
}

func c16blRun(out *vh.Out, op string) {
	c := c16blParse(op)
	var failed []int
	for i, o := range c.outs {
		if o.kind == 'E' {
			failed = append(failed, i)
		}
	}
	out.Stat(fmt.Sprintf("dnsbl.lists.%d", len(c.outs)))
	out.Stat(fmt.Sprintf("dnsbl.failed-lookups.%d", len(failed)))
	out.Stat("dnsbl.via." + c.via)
	if len(failed) == 0 {
		obs, seen := c16blCanon(c.run(nil))
		out.Corr(op, obs)
		out.Stat("dnsbl.verdict." + strings.Fields(obs)[0])
		if seen != nil {
			vc16.Check(out, op, *seen, true)
		}
		return
	}
	// every failed lookup alone
	var singles []string
	kinds := ""
	allTemp, allPerm := true, true
	for _, i := range failed {
		o, _ := c16blCanon(c.run(map[int]bool{i: true}))
		singles = append(singles, strings.TrimPrefix(o, "reject "))
		// what is KNOWN about the failure (a value without Temporary() is unclassified: nothing is asked)
		t, known := verr.TempOf(c.outs[i].node)
		switch {
		case verr.HasDeadline(c.outs[i].node) || !known:
			// an expired deadline anywhere below is answered 451 4.4.5 by the endpoint whatever the
			// markers say (exempted by every C16 monitor)
			kinds += "u"
			allTemp, allPerm = false, false
		case t:
			kinds += "t"
			allPerm = false
		default:
			kinds += "p"
			allTemp = false
		}
	}
	out.Stat("dnsbl.failure-order." + kinds)
	multi := "one-of-them"
	for rep := 0; rep < 3; rep++ {
		o, seen := c16blCanon(c.run(nil))
		if seen == nil {
			multi = "not-rejected:" + o
			out.Violation("C16/dnsbl-lookup-failure-not-refused", op, fmt.Sprintf("%d lookups failed, the verdict is %s", len(failed), o))
			break
		}
		vc16.Check(out, op, *seen, true)
		cls := seen.Ep0.Code / 100
		if (allTemp && cls != 4) || (allPerm && cls != 5) {
			out.Violation("C16/dnsbl-reply-class-vs-failures", op, fmt.Sprintf("failed lookups %s, reply %d", kinds, seen.Ep0.Code))
		}
		member := false
		for _, s := range singles {
			if "reject "+s == o {
				member = true
			}
		}
		if !member {
			multi = "other:" + strings.TrimPrefix(o, "reject ")
			out.Violation("C16/dnsbl-reply-of-no-single-failure", op, "all lists together: "+o+"; each failed list alone: "+strings.Join(singles, " || "))
			break
		}
	}
	out.Corr(op, "fail "+strings.Join(singles, " || ")+" multi="+multi)
}

var c16blTrees = []string{"N 0", "N 1", "P", "D", "C", "Q 0 C", "Q 1 C", "Q 0 D", "T 1 P", "T 0 P", "F - - _ N 1", "T 0 N 1", "Q 0 N 1"}

func c16blSystematic() []string {
	var ops []string
	vias := []string{"ip4", "ehlo", "from", "ip6"}
	k := 0
	for _, a := range c16blTrees {
		ops = append(ops, fmt.Sprintf("C16 dnsbl 1 1 %s ; E %s", vias[k%4], a))
		for _, b := range c16blTrees {
			ops = append(ops, fmt.Sprintf("C16 dnsbl 1 1 %s ; E %s ; E %s", vias[k%4], a, b))
			k++
		}
	}
	for _, tr := range []string{"E N 0 ; ok ; E N 1", "L 1 ; E N 0 ; E N 1", "E N 0 ; E N 0 ; E N 1", "E N 1 ; E N 0 ; E N 0", "E P ; L 2 ; E D ; ok", "E N 0 ; E N 1 ; E N 0 ; E N 1"} {
		for _, v := range vias[:3] {
			ops = append(ops, "C16 dnsbl 2 1 "+v+" ; "+tr)
		}
	}
	for _, tr := range []string{"L 1", "L 2", "L 1 ; L 1", "L 1 ; ok", "ok ; ok", "L 3 ; L -2", "L 1 ; L -1", "ok"} {
		ops = append(ops, "C16 dnsbl 2 1 ip4 ; "+tr, "C16 dnsbl 1 1 ehlo ; "+tr)
	}
	return ops
}

func c16blGen(r *vh.Rng) *c16blCase {
	c := &c16blCase{rt: 1 + r.Intn(3), qt: 1 + r.Intn(2), via: r.Pick("ip4", "ip4", "ehlo", "from", "ip6")}
	n := 1 + r.Intn(4)
	for i := 0; i < n; i++ {
		switch p := r.Intn(100); {
		case p < 25:
			c.outs = append(c.outs, c16blOut{kind: 'o'})
		case p < 45:
			c.outs = append(c.outs, c16blOut{kind: 'L', score: []int{1, 1, 2, 3, -1}[r.Intn(5)]})
		case p < 85:
			n, _ := verr.Parse(strings.Fields(c16blTrees[r.Intn(len(c16blTrees))]))
			c.outs = append(c.outs, c16blOut{kind: 'E', node: n})
		default:
			c.outs = append(c.outs, c16blOut{kind: 'E', node: verr.Gen(r, r.Intn(3), r.Chance(60))})
		}
	}
	return c
}

func TestVerifC16DNSBL(t *testing.T) {
	out := vh.Open("c16_dnsbl")
	defer out.Close()
	if ops := vh.Replay(); ops != nil {
		for _, op := range ops {
			if strings.HasPrefix(op, "C16 dnsbl ") {
				c16blRun(out, op)
			}
		}
		return
	}
	for _, op := range c16blSystematic() {
		c16blRun(out, op)
	}
	r := vh.NewRng(vh.Seed() + 1621)
	for i, n := 0, vh.N(4000)/10; i < n; i++ {
		c16blRun(out, c16blGen(r).Op())
	}
}
