package authorize_sender

// C15 — sender authorisation.  Overlay-injected in-package harness (see /verif/BUILDING.md);
// the case generator, header renderer, op-line codec, reference entitlement function and
// monitor live in internal/verifshim/vc15.
//
// Per case: build the real Check (Init with the real configuration directives for the
// normalisers / actions, the tables assigned directly), parse the rendered header bytes with
// go-message textproto, run CheckSender and CheckBody on a fresh state, write the
// correspondence line (the Lean model decides on the shipped library results) and let the
// monitor judge the real decision.

import (
	"bufio"
	"bytes"
	"context"
	"errors"
	"fmt"
	"go/ast"
	"go/parser"
	"go/printer"
	"go/token"
	"strconv"
	"strings"
	"testing"

	"github.com/emersion/go-message/textproto"
	"github.com/foxcpp/maddy/framework/config"
	"github.com/foxcpp/maddy/framework/exterrors"
	"github.com/foxcpp/maddy/framework/log"
	"github.com/foxcpp/maddy/framework/module"
	"github.com/foxcpp/maddy/internal/verifshim/vc15"
	"github.com/foxcpp/maddy/internal/verifshim/vh"
)

func c15NewCheck(cs *vc15.Case) *Check {
	mod, err := New(modName, "c15", nil, nil)
	if err != nil {
		panic(err)
	}
	c := mod.(*Check)
	if err := c.Init(config.NewMap(map[string]interface{}{}, config.Node{Children: cs.ConfigNodes()})); err != nil {
		panic(fmt.Sprintf("Init: %v", err))
	}
	c.log = log.Logger{Out: log.NopOutput{}}
	c.emailPrepare = cs.Prep.Build()
	c.userToEmail = cs.U2E.Build()
	return c
}

// names of the refusals, by the message text of the SMTPError literal
var c15Messages = map[string]string{
	"Authentication required":                       "authRequired",
	"Unable to normalize sender address":            "normFrom",
	"Unable to normalize authorization username":    "normAuth",
	"Internal error during policy check":            "internal",
	"Unauthorized use of sender address":            "noMatch",
	"Missing From header":                           "missingFrom",
	"Malformed From header":                         "malformedFrom",
	"Multiple From addresses are not allowed":       "multipleFromAddrs",
	"Multiple From header fields are not allowed":   "repeatedFrom",
	"Malformed Sender header":                       "malformedSender",
	"Multiple Sender header fields are not allowed": "repeatedSender",
}

func c15Stage(res module.CheckResult) vc15.StageObs {
	o := vc15.StageObs{Reason: "ok", Reject: res.Reject, Quarantine: res.Quarantine}
	if res.Reason == nil {
		return o
	}
	var se *exterrors.SMTPError
	if !errors.As(res.Reason, &se) {
		o.Reason, o.Codes = "other("+res.Reason.Error()+")", "0:0.0.0"
		return o
	}
	name, ok := c15Messages[se.Message]
	if !ok {
		name = "other(" + se.Message + ")"
	}
	o.Reason = name
	o.Codes = fmt.Sprintf("%d:%d.%d.%d", se.Code, se.EnhancedCode[0], se.EnhancedCode[1], se.EnhancedCode[2])
	return o
}

// ---------------------------------------------------------------- facts read off the source (T1)

// c15Facts parses the anchored source files of the CURRENT tree and writes, as correspondence
// cases, the facts the hand-written model was built from: for every refusal site
// `s.c.<x>Action.Apply(module.CheckResult{Reason: &exterrors.SMTPError{…}})` the action field,
// codes and message; the list of messages; the entitlement condition of AuthorizeEmailUse; the
// header accessors CheckBody uses.
func c15Facts(out *vh.Out) {
	fset := token.NewFileSet()
	f, err := parser.ParseFile(fset, "authorize_sender.go", nil, 0)
	if err != nil {
		out.Violation("C15/facts-unreadable", "C15 fact messages", err.Error())
		return
	}
	lit := func(e ast.Expr) string {
		if bl, ok := e.(*ast.BasicLit); ok {
			if bl.Kind == token.STRING {
				s, _ := strconv.Unquote(bl.Value)
				return s
			}
			return bl.Value
		}
		return "?"
	}
	var messages []string
	seen := map[string]bool{}
	nSite := 0
	ast.Inspect(f, func(n ast.Node) bool {
		call, ok := n.(*ast.CallExpr)
		if !ok || len(call.Args) != 1 {
			return true
		}
		sel, ok := call.Fun.(*ast.SelectorExpr)
		if !ok || sel.Sel.Name != "Apply" {
			return true
		}
		act, ok := sel.X.(*ast.SelectorExpr)
		if !ok {
			return true
		}
		res, ok := call.Args[0].(*ast.CompositeLit)
		if !ok {
			return true
		}
		code, enh, msg := "?", "?", "?"
		for _, el := range res.Elts {
			kv, ok := el.(*ast.KeyValueExpr)
			if !ok || fmt.Sprint(kv.Key) != "Reason" {
				continue
			}
			un, ok := kv.Value.(*ast.UnaryExpr)
			if !ok {
				continue
			}
			se, ok := un.X.(*ast.CompositeLit)
			if !ok {
				continue
			}
			for _, el2 := range se.Elts {
				kv2, ok := el2.(*ast.KeyValueExpr)
				if !ok {
					continue
				}
				switch fmt.Sprint(kv2.Key) {
				case "Code":
					code = lit(kv2.Value)
				case "Message":
					msg = lit(kv2.Value)
				case "EnhancedCode":
					if cl, ok := kv2.Value.(*ast.CompositeLit); ok && len(cl.Elts) == 3 {
						enh = lit(cl.Elts[0]) + "." + lit(cl.Elts[1]) + "." + lit(cl.Elts[2])
					}
				}
			}
		}
		out.Corr(fmt.Sprintf("C15 site %d %s", nSite, vh.HexRunes(msg)), fmt.Sprintf("%s %s:%s", act.Sel.Name, code, enh))
		out.Stat("facts.site." + act.Sel.Name)
		nSite++
		if !seen[msg] {
			seen[msg] = true
			messages = append(messages, vh.HexRunes(msg))
		}
		return true
	})
	out.Corr("C15 fact messages", strings.Join(messages, " "))

	// the hdr.… calls of CheckBody, in source order
	var calls []string
	for _, d := range f.Decls {
		fd, ok := d.(*ast.FuncDecl)
		if !ok || fd.Name.Name != "CheckBody" {
			continue
		}
		ast.Inspect(fd.Body, func(n ast.Node) bool {
			call, ok := n.(*ast.CallExpr)
			if !ok {
				return true
			}
			sel, ok := call.Fun.(*ast.SelectorExpr)
			if !ok {
				return true
			}
			if id, ok := sel.X.(*ast.Ident); ok && id.Name == "hdr" && len(call.Args) == 1 {
				calls = append(calls, sel.Sel.Name+":"+lit(call.Args[0]))
			}
			return true
		})
	}
	out.Corr("C15 fact hdrcalls", vh.HexRunes(strings.Join(calls, " ")))

	// the entitlement condition of authz.AuthorizeEmailUse
	lf, err := parser.ParseFile(fset, "../../authz/lookup.go", nil, 0)
	if err != nil {
		out.Violation("C15/facts-unreadable", "C15 fact entcond", err.Error())
		return
	}
	var conds []string
	for _, d := range lf.Decls {
		fd, ok := d.(*ast.FuncDecl)
		if !ok || fd.Name.Name != "AuthorizeEmailUse" {
			continue
		}
		ast.Inspect(fd.Body, func(n ast.Node) bool {
			is, ok := n.(*ast.IfStmt)
			if !ok {
				return true
			}
			if be, ok := is.Cond.(*ast.BinaryExpr); ok && be.Op == token.LOR {
				var b bytes.Buffer
				printer.Fprint(&b, fset, is.Cond)
				conds = append(conds, b.String())
			}
			return true
		})
	}
	out.Corr("C15 fact entcond", vh.HexRunes(strings.Join(conds, " ;; ")))
}

func c15Exec(cs *vc15.Case) (vc15.Run, error) {
	c := c15NewCheck(cs)
	meta := &module.MsgMetadata{ID: "c15"}
	if cs.Conn {
		meta.Conn = &module.ConnState{AuthUser: cs.User}
	}
	var r vc15.Run
	hdr, err := textproto.ReadHeader(bufio.NewReader(bytes.NewReader(append(append([]byte{}, cs.Raw...), '\r', '\n'))))
	if err != nil {
		return r, err
	}
	r.FromVals = hdr.Values("From")
	r.SenderVals = hdr.Values("Sender")

	ctx := context.Background()
	st, err := c.CheckStateForMsg(ctx, meta)
	if err != nil {
		panic(err)
	}
	r.Sender = c15Stage(st.CheckSender(ctx, cs.MailFrom))
	r.Body = c15Stage(st.CheckBody(ctx, hdr, nil))
	st.Close()
	return r, nil
}

func c15Do(out *vh.Out, cs *vc15.Case) {
	var r vc15.Run
	var err error
	panicked := false
	func() {
		defer func() {
			if p := recover(); p != nil {
				panicked = true
				out.Violation("C15/panic", vc15.SessionOpLine(cs), fmt.Sprint(p))
			}
		}()
		r, err = c15Exec(cs)
	}()
	if panicked {
		return
	}
	if err != nil {
		out.Stat("skip.header-unreadable")
		return
	}
	op := vc15.OpLine(cs, &r)
	out.Corr(op, r.Sender.String()+" "+r.Body.String())
	vc15.Monitor(out, cs, &r, op)
	out.Stat("sender." + r.Sender.Reason)
	out.Stat("body." + r.Body.Reason)
	vc15.Distribution(out, cs, &r)
}

func TestVerifC15(t *testing.T) {
	out := vh.Open("c15")
	defer out.Close()
	if ops := vh.Replay(); ops != nil {
		for _, op := range ops {
			if !strings.HasPrefix(op, "C15 run ") {
				continue
			}
			cs, _, err := vc15.ParseOp(op)
			if err != nil {
				out.Note("unparsable replay op: " + err.Error())
				continue
			}
			c15Do(out, cs)
		}
		return
	}
	c15Facts(out)
	for _, cs := range vc15.Fixed() {
		c15Do(out, cs)
	}
	r := vh.NewRng(vh.Seed() + 15)
	n := vh.N(5000)
	for i := 0; i < n; i++ {
		c15Do(out, vc15.GenCase(r.Fork(), false))
	}
}
