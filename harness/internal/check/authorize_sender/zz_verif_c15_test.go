package authorize_sender

// C15 — sender authorisation.  Overlay-injected in-package harness (see /verif/BUILDING.md);
// the case generator, header renderer, op-line codec, reference entitlement function and
// monitor live in internal/verifshim/vc15.
//
// Per case: build the real Check SEVERAL times through the real configuration path — the
// configuration block is written as text (directives that have their default left out in every
// combination, the others in any order, tables as `static { … }` / `file <path>` / `identity` /
// `email_localpart` / a registered in-memory module), read by the server's configuration parser
// and given to Init —, parse the rendered header bytes with go-message textproto, run CheckSender
// and CheckBody on a fresh state of every instance, write the correspondence line (the Lean model
// decides on the shipped library results), let the monitor judge every real decision and demand
// that the instances of the one configuration agree.
//
// TestVerifC15AFile: histories of a `user_to_email file …` table (real table.file) under a
// running check: edits of the file and reloads through the reload hook; after every reload the
// table's content (against the Lean model of the history) and the decisions (against the model
// and, by the monitor, against the CURRENT content of the file).

import (
	"bufio"
	"bytes"
	"context"
	"errors"
	"fmt"
	"go/ast"
	"go/parser"
	"go/printer"
	"go/token"
	"os"
	"sort"
	"strconv"
	"strings"
	"testing"
	"time"

	"github.com/emersion/go-message/textproto"
	"github.com/foxcpp/maddy/framework/config"
	"github.com/foxcpp/maddy/framework/exterrors"
	"github.com/foxcpp/maddy/framework/hooks"
	"github.com/foxcpp/maddy/framework/log"
	"github.com/foxcpp/maddy/framework/module"
	"github.com/foxcpp/maddy/internal/table"
	"github.com/foxcpp/maddy/internal/verifshim/vc15"
	"github.com/foxcpp/maddy/internal/verifshim/vh"
)

// c15NewCheck: one more instance of the check for the configuration of the case, built the way
// the server builds it: configuration text -> parser -> config.Map -> Init.
func c15NewCheck(block config.Node) *Check {
	c, err := c15TryNewCheck(block)
	if err != nil {
		panic(fmt.Sprintf("Init: %v", err))
	}
	return c
}

// c15TryNewCheck: the same; an error = the configuration is refused.
func c15TryNewCheck(block config.Node) (*Check, error) {
	mod, err := New(modName, "c15", nil, nil)
	if err != nil {
		panic(err)
	}
	c := mod.(*Check)
	if err := c.Init(config.NewMap(map[string]interface{}{}, block)); err != nil {
		c15CloseTables(c)
		return nil, err
	}
	c.log = log.Logger{Out: log.NopOutput{}}
	return c, nil
}

// c15FilesClosed counts the file tables whose reloader was stopped: their reload hooks stay
// registered and would block for ever, so the reload hook must not be run any more.
var c15FilesClosed int

func c15CloseTables(c *Check) {
	for _, t := range []module.Table{c.userToEmail, c.emailPrepare} {
		if f, ok := t.(*table.File); ok {
			f.Close()
			c15FilesClosed++
		}
	}
}

// names of the refusals, by the message text of the SMTPError literal
var c15Messages = map[string]string{
	"Authentication required":                       "authRequired",
	"Unable to normalize sender address":            "normFrom",
	"Unable to normalize authorization username":    "normAuth",
	"Internal error during policy check":            "internal",
	"Unauthorized use of sender address":            "noMatch",
	"Missing From header":                           "missingFrom",
	"Malformed From header":                         "malformedFrom",
	"Multiple From addresses are not allowed":       "multipleFromAddrs",
	"Multiple From header fields are not allowed":   "repeatedFrom",
	"Malformed Sender header":                       "malformedSender",
	"Multiple Sender header fields are not allowed": "repeatedSender",
}

func c15Stage(res module.CheckResult) vc15.StageObs {
	o := vc15.StageObs{Reason: "ok", Reject: res.Reject, Quarantine: res.Quarantine}
	if res.Reason == nil {
		return o
	}
	var se *exterrors.SMTPError
	if !errors.As(res.Reason, &se) {
		o.Reason, o.Codes = "other("+res.Reason.Error()+")", "0:0.0.0"
		return o
	}
	// a reply configured with the action (`reject 553 5.7.1 "text"`) is wrapped around the refusal of
	// the check: the outer error is what the client is told, the inner one says why
	if inner, isSMTP := se.Err.(*exterrors.SMTPError); isSMTP && inner != nil {
		if _, known := c15Messages[inner.Message]; known {
			reply := fmt.Sprintf(">%d:%d.%d.%d:%s", se.Code, se.EnhancedCode[0], se.EnhancedCode[1], se.EnhancedCode[2], vh.HexRunes(se.Message))
			o.Reason = c15Messages[inner.Message]
			o.Codes = fmt.Sprintf("%d:%d.%d.%d", inner.Code, inner.EnhancedCode[0], inner.EnhancedCode[1], inner.EnhancedCode[2]) + reply
			return o
		}
	}
	name, ok := c15Messages[se.Message]
	if !ok {
		name = "other(" + se.Message + ")"
	}
	o.Reason = name
	o.Codes = fmt.Sprintf("%d:%d.%d.%d", se.Code, se.EnhancedCode[0], se.EnhancedCode[1], se.EnhancedCode[2])
	return o
}

// ---------------------------------------------------------------- facts read off the source (T1)

// c15Facts parses the anchored source files of the CURRENT tree and writes, as correspondence
// cases, the facts the hand-written model was built from: for every refusal site
// `s.c.<x>Action.Apply(module.CheckResult{Reason: &exterrors.SMTPError{…}})` the action field,
// codes and message; the list of messages; the entitlement condition of AuthorizeEmailUse; the
// header accessors CheckBody uses.
func c15Facts(out *vh.Out) {
	fset := token.NewFileSet()
	f, err := parser.ParseFile(fset, "authorize_sender.go", nil, 0)
	if err != nil {
		out.Violation("C15/facts-unreadable", "C15 fact messages", err.Error())
		return
	}
	lit := func(e ast.Expr) string {
		if bl, ok := e.(*ast.BasicLit); ok {
			if bl.Kind == token.STRING {
				s, _ := strconv.Unquote(bl.Value)
				return s
			}
			return bl.Value
		}
		return "?"
	}
	var messages []string
	seen := map[string]bool{}
	nSite := 0
	ast.Inspect(f, func(n ast.Node) bool {
		call, ok := n.(*ast.CallExpr)
		if !ok || len(call.Args) != 1 {
			return true
		}
		sel, ok := call.Fun.(*ast.SelectorExpr)
		if !ok || sel.Sel.Name != "Apply" {
			return true
		}
		act, ok := sel.X.(*ast.SelectorExpr)
		if !ok {
			return true
		}
		res, ok := call.Args[0].(*ast.CompositeLit)
		if !ok {
			return true
		}
		code, enh, msg := "?", "?", "?"
		for _, el := range res.Elts {
			kv, ok := el.(*ast.KeyValueExpr)
			if !ok || fmt.Sprint(kv.Key) != "Reason" {
				continue
			}
			un, ok := kv.Value.(*ast.UnaryExpr)
			if !ok {
				continue
			}
			se, ok := un.X.(*ast.CompositeLit)
			if !ok {
				continue
			}
			for _, el2 := range se.Elts {
				kv2, ok := el2.(*ast.KeyValueExpr)
				if !ok {
					continue
				}
				switch fmt.Sprint(kv2.Key) {
				case "Code":
					code = lit(kv2.Value)
				case "Message":
					msg = lit(kv2.Value)
				case "EnhancedCode":
					if cl, ok := kv2.Value.(*ast.CompositeLit); ok && len(cl.Elts) == 3 {
						enh = lit(cl.Elts[0]) + "." + lit(cl.Elts[1]) + "." + lit(cl.Elts[2])
					}
				}
			}
		}
		out.Corr(fmt.Sprintf("C15 site %d %s", nSite, vh.HexRunes(msg)), fmt.Sprintf("%s %s:%s", act.Sel.Name, code, enh))
		out.Stat("facts.site." + act.Sel.Name)
		nSite++
		if !seen[msg] {
			seen[msg] = true
			messages = append(messages, vh.HexRunes(msg))
		}
		return true
	})
	out.Corr("C15 fact messages", strings.Join(messages, " "))

	// the hdr.… calls of CheckBody, in source order
	var calls []string
	for _, d := range f.Decls {
		fd, ok := d.(*ast.FuncDecl)
		if !ok || fd.Name.Name != "CheckBody" {
			continue
		}
		ast.Inspect(fd.Body, func(n ast.Node) bool {
			call, ok := n.(*ast.CallExpr)
			if !ok {
				return true
			}
			sel, ok := call.Fun.(*ast.SelectorExpr)
			if !ok {
				return true
			}
			if id, ok := sel.X.(*ast.Ident); ok && id.Name == "hdr" && len(call.Args) == 1 {
				calls = append(calls, sel.Sel.Name+":"+lit(call.Args[0]))
			}
			return true
		})
	}
	out.Corr("C15 fact hdrcalls", vh.HexRunes(strings.Join(calls, " ")))

	// the entitlement condition of authz.AuthorizeEmailUse
	lf, err := parser.ParseFile(fset, "../../authz/lookup.go", nil, 0)
	if err != nil {
		out.Violation("C15/facts-unreadable", "C15 fact entcond", err.Error())
		return
	}
	var conds []string
	for _, d := range lf.Decls {
		fd, ok := d.(*ast.FuncDecl)
		if !ok || fd.Name.Name != "AuthorizeEmailUse" {
			continue
		}
		ast.Inspect(fd.Body, func(n ast.Node) bool {
			is, ok := n.(*ast.IfStmt)
			if !ok {
				return true
			}
			if be, ok := is.Cond.(*ast.BinaryExpr); ok && be.Op == token.LOR {
				var b bytes.Buffer
				printer.Fprint(&b, fset, is.Cond)
				conds = append(conds, b.String())
			}
			return true
		})
	}
	out.Corr("C15 fact entcond", vh.HexRunes(strings.Join(conds, " ;; ")))
}

func c15ReadHeader(cs *vc15.Case) (textproto.Header, error) {
	return textproto.ReadHeader(bufio.NewReader(bytes.NewReader(append(append([]byte{}, cs.Raw...), '\r', '\n'))))
}

// c15Exec: one message through one instance of the check.
func c15Exec(c *Check, cs *vc15.Case, hdr textproto.Header) vc15.Run {
	meta := &module.MsgMetadata{ID: "c15"}
	if cs.Conn {
		meta.Conn = &module.ConnState{AuthUser: cs.User}
	}
	var r vc15.Run
	r.FromVals = hdr.Values("From")
	r.SenderVals = hdr.Values("Sender")

	ctx := context.Background()
	st, err := c.CheckStateForMsg(ctx, meta)
	if err != nil {
		panic(err)
	}
	r.Sender = c15Stage(st.CheckSender(ctx, cs.MailFrom))
	r.Body = c15Stage(st.CheckBody(ctx, hdr, nil))
	st.Close()
	return r
}

func c15Obs(r *vc15.Run) string { return r.Sender.String() + " " + r.Body.String() }

// c15Instances: how many instances of the check are built from the one configuration of a case.
var c15Replaying = vh.Replay() != nil

func c15Instances() int {
	if c15Replaying {
		return 16
	}
	return 2
}

// c15Judge: correspondence line for the first instance, monitor on every distinct decision, and
// the instances must agree.  `ref` is the case the model is asked about, `cur` the case the
// monitor judges by (they differ only in the history harness).
func c15Judge(out *vh.Out, ref, cur *vc15.Case, runs []vc15.Run, vop string) {
	op := vc15.OpLine(ref, &runs[0])
	if vop == "" {
		vop = op
	}
	out.Corr(op, c15Obs(&runs[0]))
	seen := map[string]bool{}
	for i := range runs {
		o := c15Obs(&runs[i])
		if seen[o] {
			continue
		}
		seen[o] = true
		if cur != nil {
			vc15.Monitor(out, cur, &runs[i], vop)
		}
	}
	if len(seen) > 1 {
		var all []string
		for o := range seen {
			all = append(all, o)
		}
		sort.Strings(all)
		out.Violation("C15/instances-of-one-configuration-disagree", vop, strings.Join(all, " <> "))
	}
	out.Stat(fmt.Sprintf("instances.distinct-decisions.%d", len(seen)))
}

func c15Do(out *vh.Out, cs *vc15.Case) {
	panicked := false
	func() {
		defer func() {
			if p := recover(); p != nil {
				panicked = true
				out.Violation("C15/panic", vc15.SessionOpLine(cs), fmt.Sprint(p))
			}
		}()
		hdr, err := c15ReadHeader(cs)
		if err != nil {
			out.Stat("skip.header-unreadable")
			return
		}
		cleanup := cs.Materialize()
		defer cleanup()
		block, _, how := cs.ConfigBlock()
		defer cs.ReleaseMem()
		out.Stat("cfg.built-from." + how)
		var runs []vc15.Run
		refused := 0
		for i, n := 0, c15Instances(); i < n; i++ {
			c, err := c15TryNewCheck(block)
			if err != nil {
				refused++
				continue
			}
			func() {
				defer c15CloseTables(c)
				runs = append(runs, c15Exec(c, cs, hdr))
			}()
		}
		out.Stat("cfg.actions-documented." + vc15.B01(cs.ActionsDocumented()) + ".refused." + vc15.B01(refused > 0))
		if refused > 0 {
			// the configuration is refused (an action directive that is no action): no check, no decision
			op := vc15.OpLine(cs, &vc15.Run{})
			if len(runs) > 0 {
				out.Violation("C15/instances-of-one-configuration-disagree", op, fmt.Sprintf("%d of %d initialisations refused the configuration", refused, refused+len(runs)))
			}
			out.Corr(op, "config-refused")
			return
		}
		c15Judge(out, cs, cs, runs, "")
		r := &runs[0]
		out.Stat("sender." + r.Sender.Reason)
		out.Stat("body." + r.Body.Reason)
		vc15.Distribution(out, cs, r)
	}()
	_ = panicked
}

// ---------------------------------------------------------------- histories of a table file

// c15Reload runs the server's reload hook (what SIGUSR2 does) twice: every file table's hook
// hands a request to the table's reloader goroutine and returns when it was TAKEN; the second
// request can only be taken when the first reload is finished.  So after the second round every
// table has completed a reload that started after the last edit of its file.  (The reload the
// second request starts may still run: the files are replaced atomically, it can only load what
// the first one loaded.)
//
// A hook that is never taken (the reloader goroutine of a table is gone) would block for ever:
// the rounds run beside a generous guard; false = the hook did not come back.
func c15Reload() bool {
	if c15FilesClosed > 0 {
		panic("c15: the reload hook cannot be run after file tables were closed")
	}
	done := make(chan struct{})
	go func() {
		hooks.RunHooks(hooks.EventReload)
		hooks.RunHooks(hooks.EventReload)
		close(done)
	}()
	select {
	case <-done:
		return true
	case <-time.After(60 * time.Second):
		return false
	}
}

// c15HookStuck: the reload hook hangs; no further history can be run in this process.
var c15HookStuck bool

func c15History(out *vh.Out, h *vc15.History, final *vc15.Probe) {
	base := h.Base
	cleanup := base.Materialize()
	defer cleanup()
	path := base.U2E.Path
	if !h.Present {
		os.Remove(path)
	}
	// two instances of the check, each with its own table.file on the one file; never closed
	// (their reload hooks would block), the file is removed at the end
	block, _, _ := base.ConfigBlock()
	defer base.ReleaseMem()
	var checks []*Check
	for i := 0; i < 2; i++ {
		c := c15NewCheck(block)
		if _, ok := c.userToEmail.(*table.File); !ok {
			panic("c15: user_to_email is not a file table")
		}
		checks = append(checks, c)
	}
	// what the harness expects: the file (cur / exists / bad) and, by the rules of the model, the
	// loaded entries
	cur := base.U2E.Lines
	exists, bad := h.Present, false
	var loaded []vc15.Line
	if exists {
		loaded = cur
	}
	probe := func(upto int, p vc15.Probe) {
		ref := h.ProbeCase(p, loaded)
		hdr, err := c15ReadHeader(ref)
		if err != nil {
			out.Stat("skip.header-unreadable")
			return
		}
		var runs []vc15.Run
		panicked := false
		func() {
			defer func() {
				if x := recover(); x != nil {
					panicked = true
					out.Violation("C15/panic", h.OpLine(upto, &p), fmt.Sprint(x))
				}
			}()
			for _, c := range checks {
				runs = append(runs, c15Exec(c, ref, hdr))
			}
		}()
		if panicked {
			return
		}
		var now *vc15.Case
		switch {
		case bad:
			// a damaged file has no content to judge by
			out.Stat("file.probe.file-unparsable")
		case !exists:
			now = h.ProbeCase(p, nil)
			out.Stat("file.probe.file-absent")
		default:
			now = h.ProbeCase(p, cur)
			out.Stat(fmt.Sprintf("file.probe.entry-lines.%d", min(len(cur), 3)))
		}
		c15Judge(out, ref, now, runs, h.OpLine(upto, &p))
		out.Stat("file.probe.sender." + runs[0].Sender.Reason)
	}
	dump := func(upto int) {
		keys := h.HistoryKeys(upto)
		d0 := vc15.DumpTable(checks[0].userToEmail.(module.MultiTable), keys)
		out.Corr(h.OpLine(upto, nil), d0)
		d1 := vc15.DumpTable(checks[1].userToEmail.(module.MultiTable), keys)
		// Two reloaders read the one file at their own pace: a difference that is gone after both were
		// made to reload again was a reload still in flight, not a disagreement. One that stays is reported.
		for try := 0; d1 != d0 && try < 3 && upto >= 0; try++ {
			if !c15Reload() {
				break
			}
			out.Stat("file.dump.re-read-after-difference")
			d0 = vc15.DumpTable(checks[0].userToEmail.(module.MultiTable), keys)
			d1 = vc15.DumpTable(checks[1].userToEmail.(module.MultiTable), keys)
		}
		if d1 != d0 {
			out.Violation("C15/instances-of-one-configuration-disagree", h.OpLine(upto, nil), "table content "+d0+" <> "+d1)
		}
	}
	dump(-1)
	probe(-1, vc15.Probe{Base: true})
	for i, st := range h.Steps {
		out.Stat("file.step." + st.Op)
		switch st.Op {
		case "W":
			vc15.WriteFileAtomically(path, vc15.RenderFile(st.Lines, st.Style))
			cur, exists, bad = st.Lines, true, false
			if len(st.Lines) == 0 {
				out.Stat(fmt.Sprintf("file.emptied.style-%d", st.Style%3))
			}
		case "B":
			vc15.WriteFileAtomically(path, vc15.BadFile)
			exists, bad = true, true
		case "D":
			os.Remove(path)
			exists, bad = false, false
		case "R":
			if !c15Reload() {
				c15HookStuck = true
				out.Violation("C15/reload-hook-does-not-return", h.OpLine(i, nil), "the reload hook of a file table was not taken by its reloader within 60 s")
				return
			}
			switch {
			case !exists:
				loaded = nil
			case !bad:
				loaded = cur
			}
			dump(i)
			for _, p := range st.Probes {
				probe(i, p)
			}
		}
	}
	if final != nil {
		probe(len(h.Steps)-1, *final)
	}
	os.Remove(path)
}

// TestVerifC15AFile must run before TestVerifC15 (which stops the reloaders of its file tables).
func TestVerifC15AFile(t *testing.T) {
	out := vh.Open("c15file")
	defer out.Close()
	log.DefaultLogger.Out = nil // table.file reports every unreadable / missing file
	vc15.SmallEnvironment()
	defer vc15.RemoveTempDir()
	if ops := vh.Replay(); ops != nil {
		for _, op := range ops {
			if !strings.HasPrefix(op, "C15 file ") {
				continue
			}
			h, q, err := vc15.ParseHistory(op)
			if err != nil {
				out.Note("unparsable replay op: " + err.Error())
				continue
			}
			if !c15HookStuck {
				c15History(out, h, q)
			}
		}
		return
	}
	r := vh.NewRng(vh.Seed() + 151515)
	n := 30 + vh.N(5000)/150
	if n > 400 {
		n = 400
	}
	for i := 0; i < n && !c15HookStuck; i++ {
		c15History(out, vc15.GenHistory(r.Fork()), nil)
	}
}

func TestVerifC15(t *testing.T) {
	out := vh.Open("c15")
	defer out.Close()
	defer vc15.RemoveTempDir()
	log.DefaultLogger.Out = nil
	vc15.SmallEnvironment()
	if ops := vh.Replay(); ops != nil {
		for _, op := range ops {
			if !strings.HasPrefix(op, "C15 run ") {
				continue
			}
			cs, _, err := vc15.ParseOp(op)
			if err != nil {
				out.Note("unparsable replay op: " + err.Error())
				continue
			}
			c15Do(out, cs)
		}
		return
	}
	c15Facts(out)
	for _, cs := range vc15.Fixed() {
		c15Do(out, cs)
	}
	r := vh.NewRng(vh.Seed() + 15)
	n := vh.N(5000)
	for i := 0; i < n; i++ {
		c15Do(out, vc15.GenCase(r.Fork(), false))
	}
	// table.email_with_domain as entitlement table, account names of mixed kinds (own stream)
	for _, cs := range vc15.FixedWithDomain() {
		c15Do(out, cs)
	}
	for _, cs := range vc15.FixedWithDomainQuoted() {
		c15Do(out, cs)
	}
	rw := vh.NewRng(vh.Seed() + 1521)
	for i, nw := 0, n/30; i < nw; i++ {
		c15Do(out, vc15.GenWithDomainCase(rw.Fork(), false))
	}
}
