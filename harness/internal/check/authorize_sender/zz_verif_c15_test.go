package authorize_sender

// C15 — sender authorisation.  Overlay-injected harness (see /verif/BUILDING.md).
//
// One case = one configuration (normalisation settings, actions, prepare_email and
// user_to_email tables), one connection state and one message (MAIL FROM + header bytes).
// The message header is RENDERED from a structure (ground truth: which addresses are in
// which From/Sender field) with display-name tricks, groups, quoting, RFC 2047 words,
// folding and repeated fields; the real code parses the bytes (go-message textproto +
// net/mail) and decides.  The op line carries the configuration, what the libraries
// returned (normalisation results, parse results) and — ignored by the model — the raw
// bytes and the ground truth, so that a line can be replayed.
//
// The monitor evaluates the property on the real decision with a reference entitlement
// function written from the property text (exists-entry, coarse spelling equivalence,
// every address of every From field), never consulting the model.

import (
	"bufio"
	"bytes"
	"context"
	"errors"
	"fmt"
	"encoding/base64"
	"net/mail"
	"sort"
	"strings"
	"testing"
	"unicode"

	"github.com/emersion/go-message/textproto"
	"github.com/foxcpp/maddy/framework/config"
	"github.com/foxcpp/maddy/framework/exterrors"
	"github.com/foxcpp/maddy/framework/log"
	"github.com/foxcpp/maddy/framework/module"
	"github.com/foxcpp/maddy/internal/authz"
	"github.com/foxcpp/maddy/internal/table"
	"github.com/foxcpp/maddy/internal/testutils"
	"github.com/foxcpp/maddy/internal/verifshim/vh"
	"golang.org/x/net/idna"
	"golang.org/x/text/unicode/norm"
)

// ---------------------------------------------------------------- case description

type c15Tab struct {
	kind string // I identity, T testutils.Table (single), S table.Static (multi), M multi with error switch
	err  bool
	keys []string // insertion order
	rows map[string][]string
}

func (t *c15Tab) add(k string, vs ...string) {
	if t.rows == nil {
		t.rows = map[string][]string{}
	}
	if _, ok := t.rows[k]; !ok {
		t.keys = append(t.keys, k)
	}
	if t.kind == "T" {
		t.rows[k] = vs[:1]
		return
	}
	t.rows[k] = vs
}

type c15Multi struct {
	m   map[string][]string
	err error
}

func (t c15Multi) Lookup(_ context.Context, k string) (string, bool, error) {
	panic("c15Multi.Lookup must not be used: the table is a MultiTable")
}

func (t c15Multi) LookupMulti(_ context.Context, k string) ([]string, error) {
	if t.err != nil {
		return nil, t.err
	}
	return t.m[k], nil
}

func (t *c15Tab) build() module.Table {
	switch t.kind {
	case "I":
		if t.err {
			panic("identity table cannot fail")
		}
		return &table.Identity{}
	case "T":
		m := map[string]string{}
		for k, v := range t.rows {
			m[k] = v[0]
		}
		var err error
		if t.err {
			err = errors.New("c15: table unavailable")
		}
		return testutils.Table{M: m, Err: err}
	case "S":
		if t.err {
			panic("static table cannot fail")
		}
		mod, err := table.NewStatic("table.static", "c15", nil, nil)
		if err != nil {
			panic(err)
		}
		var nodes []config.Node
		for _, k := range t.keys {
			nodes = append(nodes, config.Node{Name: "entry", Args: append([]string{k}, t.rows[k]...)})
		}
		if err := mod.(*table.Static).Init(config.NewMap(nil, config.Node{Children: nodes})); err != nil {
			panic(err)
		}
		return mod.(module.Table)
	case "M":
		var err error
		if t.err {
			err = errors.New("c15: table unavailable")
		}
		return c15Multi{m: t.rows, err: err}
	}
	panic("bad table kind " + t.kind)
}

func (t *c15Tab) groups(tag string) string {
	var b strings.Builder
	fmt.Fprintf(&b, " | %s %s %s", strings.ToUpper(tag), t.kind, b01(t.err))
	for _, k := range t.keys {
		fmt.Fprintf(&b, " | %s %s", tag, vh.HexRunes(k))
		for _, v := range t.rows[k] {
			b.WriteString(" " + vh.HexRunes(v))
		}
	}
	return b.String()
}

// lookup as the reference sees the table: all values configured for the key.
func (t *c15Tab) refValues(k string) (vals []string, found bool) {
	if t.kind == "I" {
		return []string{k}, true
	}
	v, ok := t.rows[k]
	return v, ok && len(v) > 0
}

type c15Addr struct{ local, domain string }

func (a c15Addr) String() string { return a.local + "@" + a.domain }

type c15Case struct {
	checkHeader      bool
	ua, na, ea       string // r q i
	authNorm, fromNm string // names in authz.NormalizeFuncs
	prep, u2e        c15Tab
	conn             bool
	user             string
	mailFrom         string
	raw              []byte      // header bytes, CRLF lines, without the terminating blank line
	gtKnown          bool        // ground truth below is authoritative (well-formed rendering)
	gtFrom           [][]c15Addr // per From field, in message order
	gtSender         [][]c15Addr // per Sender field (0 or 1 address each)
}

func b01(b bool) string {
	if b {
		return "1"
	}
	return "0"
}

// ---------------------------------------------------------------- running the real code

type c15Run struct {
	sender, body module.CheckResult
	fromVals     []string
	senderVals   []string
	hdrErr       error
}

func c15Action(s string) string {
	switch s {
	case "r":
		return "reject"
	case "q":
		return "quarantine"
	default:
		return "ignore"
	}
}

func c15NewCheck(cs *c15Case) *Check {
	mod, err := New(modName, "c15", nil, nil)
	if err != nil {
		panic(err)
	}
	c := mod.(*Check)
	yn := "no"
	if cs.checkHeader {
		yn = "yes"
	}
	nodes := []config.Node{
		{Name: "check_header", Args: []string{yn}},
		{Name: "unauth_action", Args: []string{c15Action(cs.ua)}},
		{Name: "no_match_action", Args: []string{c15Action(cs.na)}},
		{Name: "err_action", Args: []string{c15Action(cs.ea)}},
		{Name: "auth_normalize", Args: []string{cs.authNorm}},
		{Name: "from_normalize", Args: []string{cs.fromNm}},
	}
	if err := c.Init(config.NewMap(map[string]interface{}{}, config.Node{Children: nodes})); err != nil {
		panic(fmt.Sprintf("Init: %v", err))
	}
	c.log = log.Logger{Out: log.NopOutput{}}
	c.emailPrepare = cs.prep.build()
	c.userToEmail = cs.u2e.build()
	return c
}

func c15Exec(cs *c15Case) c15Run {
	c := c15NewCheck(cs)
	meta := &module.MsgMetadata{ID: "c15"}
	if cs.conn {
		meta.Conn = &module.ConnState{AuthUser: cs.user}
	}
	var r c15Run
	hdr, err := textproto.ReadHeader(bufio.NewReader(bytes.NewReader(append(append([]byte{}, cs.raw...), '\r', '\n'))))
	r.hdrErr = err
	r.fromVals = hdr.Values("From")
	r.senderVals = hdr.Values("Sender")

	ctx := context.Background()
	st, err := c.CheckStateForMsg(ctx, meta)
	if err != nil {
		panic(err)
	}
	r.sender = st.CheckSender(ctx, cs.mailFrom)
	r.body = st.CheckBody(ctx, hdr, nil)
	st.Close()
	return r
}

func c15Reason(res module.CheckResult) string {
	if res.Reason == nil {
		return "ok"
	}
	msg := res.Reason.Error()
	code := 0
	var se *exterrors.SMTPError
	if errors.As(res.Reason, &se) {
		msg, code = se.Message, se.Code
	}
	switch {
	case code == 530:
		return "authRequired"
	case code == 553 && strings.Contains(msg, "Unable to normalize sender"):
		return "normFrom"
	case code == 535:
		return "normAuth"
	case code == 454:
		return "internal"
	case code == 553 && strings.Contains(msg, "Unauthorized use"):
		return "noMatch"
	case strings.Contains(msg, "Missing From header"):
		return "missingFrom"
	case strings.Contains(msg, "Malformed From header"):
		return "malformedFrom"
	case strings.Contains(msg, "Multiple From addresses"):
		return "multipleFromAddrs"
	case strings.Contains(msg, "Multiple From header fields"):
		return "repeatedFrom"
	case strings.Contains(msg, "Malformed Sender header"):
		return "malformedSender"
	case strings.Contains(msg, "Multiple Sender header fields"):
		return "repeatedSender"
	}
	return fmt.Sprintf("other(%d,%s)", code, msg)
}

func c15Obs(res module.CheckResult) string {
	return c15Reason(res) + "/" + b01(res.Reject) + b01(res.Quarantine)
}

// ---------------------------------------------------------------- op line

func c15AddrTok(a c15Addr) string { return vh.HexRunes(a.local) + "/" + vh.HexRunes(a.domain) }

func c15NormRow(tag, name, in string) string {
	out, err := authz.NormalizeFuncs[name](in)
	if err != nil {
		return fmt.Sprintf(" | %s %s 0 -", tag, vh.HexRunes(in))
	}
	return fmt.Sprintf(" | %s %s 1 %s", tag, vh.HexRunes(in), vh.HexRunes(out))
}

func c15OpLine(cs *c15Case, r *c15Run) string {
	var b strings.Builder
	fmt.Fprintf(&b, "C15 run %s %s %s %s %s %s %s", b01(cs.checkHeader), cs.ua, cs.na, cs.ea, b01(cs.conn),
		vh.HexRunes(cs.user), vh.HexRunes(cs.mailFrom))
	fmt.Fprintf(&b, " | N %s %s", cs.authNorm, cs.fromNm)
	b.WriteString(cs.prep.groups("p"))
	b.WriteString(cs.u2e.groups("u"))
	// what the libraries returned
	fnIn := map[string]bool{cs.mailFrom: true}
	var fgroups []string
	for _, v := range r.fromVals {
		l, err := mail.ParseAddressList(v)
		g := " | F " + b01(v == "") + " " + b01(err == nil)
		if err == nil {
			for _, a := range l {
				g += " " + vh.HexRunes(a.Address)
				fnIn[a.Address] = true
			}
		}
		fgroups = append(fgroups, g)
	}
	for _, v := range r.senderVals {
		a, err := mail.ParseAddress(v)
		g := " | S " + b01(v == "") + " " + b01(err == nil)
		if err == nil {
			g += " " + vh.HexRunes(a.Address)
			fnIn[a.Address] = true
		}
		fgroups = append(fgroups, g)
	}
	ins := make([]string, 0, len(fnIn))
	for k := range fnIn {
		ins = append(ins, k)
	}
	sort.Strings(ins)
	for _, in := range ins {
		b.WriteString(c15NormRow("fn", cs.fromNm, in))
	}
	b.WriteString(c15NormRow("an", cs.authNorm, cs.user))
	for _, g := range fgroups {
		b.WriteString(g)
	}
	// replay material, ignored by the model
	fmt.Fprintf(&b, " | H %s | G %s", vh.HexBytes(cs.raw), b01(cs.gtKnown))
	for _, f := range cs.gtFrom {
		b.WriteString(" | GF")
		for _, a := range f {
			b.WriteString(" " + c15AddrTok(a))
		}
	}
	for _, f := range cs.gtSender {
		b.WriteString(" | GS")
		for _, a := range f {
			b.WriteString(" " + c15AddrTok(a))
		}
	}
	return b.String()
}

// ---------------------------------------------------------------- reference entitlement (monitor)

// coarse spelling equivalence of the property: letter case, Unicode normalisation (incl. width) and
// IDN A-label/U-label spellings are the same address.
func c15CoarseText(s string) string {
	for i := 0; i < 3; i++ {
		s = norm.NFKC.String(strings.ToLower(norm.NFKC.String(s)))
	}
	return s
}

func c15CoarseDomain(d string) string {
	d = strings.TrimSuffix(d, ".")
	// A-labels in any letter case
	labels := strings.Split(d, ".")
	for i, l := range labels {
		if len(l) >= 4 && strings.EqualFold(l[:4], "xn--") {
			if u, err := idna.ToUnicode(strings.ToLower(l)); err == nil {
				labels[i] = u
			}
		}
	}
	return c15CoarseText(strings.Join(labels, "."))
}

func c15SplitLast(s string) (string, string, bool) {
	i := strings.LastIndex(s, "@")
	if i < 0 {
		return s, "", false
	}
	return s[:i], s[i+1:], true
}

func c15CoarseWhole(s string) string {
	l, d, ok := c15SplitLast(s)
	if !ok {
		return c15CoarseText(s)
	}
	return c15CoarseText(l) + "@" + c15CoarseDomain(d)
}

// entries the configured mapping gives the authenticated user
func c15RefEntries(cs *c15Case) []string {
	if cs.u2e.err {
		return nil
	}
	nu, err := authz.NormalizeFuncs[cs.authNorm](cs.user)
	if err != nil {
		return nil
	}
	vals, _ := cs.u2e.refValues(nu)
	return vals
}

// is one concrete address (whole string; domain part known separately when hasDomain) covered by an entry?
func c15Covered(entries []string, whole, domain string, hasDomain bool) bool {
	for _, e := range entries {
		if e == "*" {
			return true
		}
		if hasDomain && domain != "" && c15CoarseDomain(e) == c15CoarseDomain(domain) && !strings.Contains(e, "@") {
			return true
		}
		if c15CoarseWhole(e) == c15CoarseWhole(whole) {
			return true
		}
	}
	return false
}

// refEntitled: may the user use this address under the configured mapping?
// `whole` is the address string; local/domain are its parts when structurally known.
func c15RefEntitled(cs *c15Case, whole, domain string, hasDomain bool) bool {
	entries := c15RefEntries(cs)
	if len(entries) == 0 {
		return false
	}
	// prepare_email: the address may be an alias the configuration maps to other addresses
	if cs.prep.kind != "I" && !cs.prep.err {
		if key, err := authz.NormalizeFuncs[cs.fromNm](whole); err == nil {
			if vals, ok := cs.prep.refValues(key); ok {
				for _, v := range vals {
					_, d, has := c15SplitLast(v)
					if c15Covered(entries, v, d, has) {
						return true
					}
				}
				return false
			}
		}
	}
	return c15Covered(entries, whole, domain, hasDomain)
}

func c15Monitor(out *vh.Out, cs *c15Case, r *c15Run, op string) {
	if !cs.conn {
		// locally generated message: not a client; the check must not interfere
		if r.sender.Reason != nil || r.body.Reason != nil {
			out.Violation("C15/local-message-refused", op, c15Obs(r.sender)+" "+c15Obs(r.body))
		}
		out.Stat("monitor.local")
		return
	}
	allReject := cs.ua == "r" && cs.na == "r" && cs.ea == "r"
	// unauthenticated clients are refused
	if cs.user == "" {
		if r.sender.Reason == nil {
			out.Violation("C15/unauthenticated-accepted", op, "sender stage passed without authentication")
		} else if cs.ua == "r" && !r.sender.Reject {
			out.Violation("C15/unauthenticated-not-rejected", op, c15Obs(r.sender))
		}
		if cs.checkHeader && r.body.Reason == nil {
			out.Violation("C15/unauthenticated-accepted", op, "body stage passed without authentication")
		}
		out.Stat("monitor.unauth")
	}
	// a refusal is enforced as configured
	for _, res := range []module.CheckResult{r.sender, r.body} {
		if res.Reason != nil && cs.ua == cs.na && cs.na == cs.ea {
			if res.Reject != (cs.ua == "r") || res.Quarantine != (cs.ua == "q") {
				out.Violation("C15/action-not-applied", op, c15Obs(res))
			}
		}
		if res.Reason == nil && (res.Reject || res.Quarantine) {
			out.Violation("C15/flag-without-reason", op, c15Obs(res))
		}
	}
	// envelope sender
	if r.sender.Reason == nil && cs.user != "" {
		_, d, has := c15SplitLast(cs.mailFrom)
		if !c15RefEntitled(cs, cs.mailFrom, d, has) {
			out.Violation("C15/envelope-sender-not-entitled", op, fmt.Sprintf("user %q accepted MAIL FROM %q", cs.user, cs.mailFrom))
		}
		out.Stat("monitor.envelope-pass")
	}
	// header author
	if cs.checkHeader && r.body.Reason == nil && cs.user != "" {
		from, sender := cs.gtFrom, cs.gtSender
		if !cs.gtKnown {
			// mutated (possibly ill-formed) bytes: the only available reading is the library's
			from, sender = nil, nil
			for _, v := range r.fromVals {
				l, _ := mail.ParseAddressList(v)
				var f []c15Addr
				for _, a := range l {
					lp, d, _ := c15SplitLast(a.Address)
					f = append(f, c15Addr{lp, d})
				}
				from = append(from, f)
			}
			for _, v := range r.senderVals {
				var f []c15Addr
				if a, err := mail.ParseAddress(v); err == nil {
					lp, d, _ := c15SplitLast(a.Address)
					f = append(f, c15Addr{lp, d})
				}
				sender = append(sender, f)
			}
			out.Stat("monitor.header-pass.parsed-reading")
		} else {
			out.Stat("monitor.header-pass.ground-truth")
		}
		nFrom, fromOK := 0, true
		for _, f := range from {
			for _, a := range f {
				nFrom++
				if !c15RefEntitled(cs, a.String(), a.domain, true) {
					fromOK = false
				}
			}
		}
		nSender, senderOK := 0, true
		for _, f := range sender {
			for _, a := range f {
				nSender++
				if !c15RefEntitled(cs, a.String(), a.domain, true) {
					senderOK = false
				}
			}
		}
		switch {
		case nFrom > 0 && fromOK:
			out.Stat("monitor.author.from")
		case nSender > 0 && senderOK:
			out.Stat("monitor.author.sender")
		case nFrom == 0 && nSender == 0:
			out.Violation("C15/accepted-without-author", op, "no From and no Sender address, header check passed")
		default:
			sig := "C15/header-author-not-entitled"
			if len(from) > 1 {
				sig = "C15/repeated-from-field-not-examined"
			} else if len(sender) > 1 && !(nFrom > 0 && fromOK) {
				sig = "C15/repeated-sender-field-not-examined"
			}
			out.Violation(sig, op, fmt.Sprintf("user %q accepted From %v Sender %v", cs.user, from, sender))
		}
	}
	if allReject && !r.sender.Reject && !r.body.Reject {
		out.Stat("monitor.accepted")
	} else if allReject {
		out.Stat("monitor.rejected")
	}
}

// ---------------------------------------------------------------- one case end to end

func c15Do(out *vh.Out, cs *c15Case) {
	var r c15Run
	func() {
		defer func() {
			if p := recover(); p != nil {
				out.Violation("C15/panic", "C15 run (panic before op line) H "+vh.HexBytes(cs.raw), fmt.Sprint(p))
			}
		}()
		r = c15Exec(cs)
	}()
	if r.hdrErr != nil {
		out.Stat("skip.header-unreadable")
		return
	}
	op := c15OpLine(cs, &r)
	out.Corr(op, c15Obs(r.sender)+" "+c15Obs(r.body))
	c15Monitor(out, cs, &r, op)
	// distribution
	out.Stat("sender." + c15Reason(r.sender))
	out.Stat("body." + c15Reason(r.body))
	out.Stat("cfg.authnorm." + cs.authNorm)
	out.Stat("cfg.fromnorm." + cs.fromNm)
	out.Stat("cfg.prepare." + cs.prep.kind + b01(cs.prep.err))
	out.Stat("cfg.u2e." + cs.u2e.kind + b01(cs.u2e.err))
	out.Stat("cfg.actions." + cs.ua + cs.na + cs.ea)
	out.Stat(fmt.Sprintf("hdr.fromfields.%d", len(r.fromVals)))
	out.Stat(fmt.Sprintf("hdr.senderfields.%d", len(r.senderVals)))
	out.Stat("hdr.gtknown." + b01(cs.gtKnown))
	if cs.gtKnown {
		// does the library's reading agree with the structure the bytes were rendered from?
		agree := len(r.fromVals) == len(cs.gtFrom)
		for i := 0; agree && i < len(r.fromVals); i++ {
			l, err := mail.ParseAddressList(r.fromVals[i])
			if len(cs.gtFrom[i]) == 0 && len(l) == 0 {
				continue
			}
			if err != nil || len(l) != len(cs.gtFrom[i]) {
				agree = false
				break
			}
			for j, a := range l {
				if a.Address != cs.gtFrom[i][j].String() {
					agree = false
				}
			}
		}
		out.Stat("hdr.parse-agrees-with-structure." + b01(agree))
	}
}

// ---------------------------------------------------------------- generators

var c15Domains = []string{"example.org", "example.com", "münchen.de", "пример.рф", "corp.example.net", "bücher.example"}
var c15Locals = []string{"alice", "bob", "carol", "rené", "дима", "first.last", "a+tag", "o'neil", "big.boss", "straße", "sigmaς"}
var c15Users = []string{"alice", "bob@example.org", "carol", "rené", "дима@пример.рф", "big.boss@corp.example.net", "example.org", "svc-mailer", "straße"}

var c15NormNames = []string{"auto", "precis_casefold_email", "precis_casefold", "precis_email", "precis", "casefold", "noop"}

func c15Upper(s string) string {
	var b strings.Builder
	for _, ch := range s {
		up := unicode.ToUpper(ch)
		if unicode.ToLower(up) == ch {
			b.WriteRune(up)
		} else {
			b.WriteRune(ch)
		}
	}
	return b.String()
}

func c15MixCase(r *vh.Rng, s string) string {
	var b strings.Builder
	for _, ch := range s {
		up := unicode.ToUpper(ch)
		if r.Bool() && unicode.ToLower(up) == ch {
			b.WriteRune(up)
		} else {
			b.WriteRune(ch)
		}
	}
	return b.String()
}

func c15Wide(r *vh.Rng, s string) string {
	var b strings.Builder
	for _, ch := range s {
		if ch >= 'a' && ch <= 'z' && r.Chance(40) {
			b.WriteRune(ch - 'a' + 'ａ')
		} else {
			b.WriteRune(ch)
		}
	}
	return b.String()
}

func c15TextVariant(r *vh.Rng, s string) string {
	switch r.Intn(6) {
	case 0:
		return c15Upper(s)
	case 1:
		return c15MixCase(r, s)
	case 2:
		return norm.NFD.String(s)
	case 3:
		return norm.NFD.String(c15MixCase(r, s))
	case 4:
		return c15Wide(r, s)
	}
	return s
}

func c15DomainVariant(r *vh.Rng, d string) string {
	switch r.Intn(6) {
	case 0:
		return c15Upper(d)
	case 1:
		if a, err := idna.ToASCII(d); err == nil {
			return a
		}
	case 2:
		if a, err := idna.ToASCII(d); err == nil {
			return strings.ToUpper(a)
		}
	case 3:
		return norm.NFD.String(d)
	case 4:
		return c15MixCase(r, d)
	}
	return d
}

func c15AddrVariant(r *vh.Rng, a c15Addr) c15Addr {
	if r.Chance(35) {
		return a
	}
	out := a
	if r.Bool() {
		out.local = c15TextVariant(r, a.local)
	}
	if r.Bool() {
		out.domain = c15DomainVariant(r, a.domain)
	}
	return out
}

func c15RandAddr(r *vh.Rng) c15Addr {
	return c15Addr{c15Locals[r.Intn(len(c15Locals))], c15Domains[r.Intn(len(c15Domains))]}
}

// near misses of an entitled address / domain
func c15NearMiss(r *vh.Rng, a c15Addr) c15Addr {
	switch r.Intn(8) {
	case 0:
		return c15Addr{a.local, "sub." + a.domain}
	case 1:
		return c15Addr{a.local, a.domain + ".evil.example"}
	case 2:
		return c15Addr{a.local, "evil-" + a.domain}
	case 3:
		return c15Addr{a.String(), "evil.example"} // quoted local part containing the entitled address
	case 4:
		return c15Addr{a.local + "x", a.domain}
	case 5:
		return c15Addr{a.local, strings.TrimSuffix(a.domain, a.domain[strings.LastIndex(a.domain, "."):]) + ".test"}
	case 6:
		return c15Addr{"*", a.domain + "x"}
	default:
		return c15Addr{a.domain, a.local + ".example"} // swapped
	}
}

type c15World struct {
	entitled []c15Addr // concrete addresses the sending user is entitled to (canonical spelling)
	entDoms  []string  // domains the user is entitled to
	star     bool
	others   []c15Addr // addresses of other users
}

func c15NormOrSelf(name, s string) string {
	if o, err := authz.NormalizeFuncs[name](s); err == nil {
		return o
	}
	return s
}

func c15GenCase(r *vh.Rng) *c15Case {
	cs := &c15Case{checkHeader: !r.Chance(8), ua: "r", na: "r", ea: "r", conn: !r.Chance(5), gtKnown: true}
	if r.Chance(25) {
		cs.ua, cs.na, cs.ea = r.Pick("r", "q", "i"), r.Pick("r", "q", "i"), r.Pick("r", "q", "i")
	} else if r.Chance(10) {
		a := r.Pick("q", "i")
		cs.ua, cs.na, cs.ea = a, a, a
	}
	cs.authNorm = c15NormNames[r.Intn(len(c15NormNames))]
	cs.fromNm = c15NormNames[r.Intn(len(c15NormNames))]
	if r.Chance(40) {
		cs.authNorm, cs.fromNm = "auto", "auto" // the defaults
	}

	// --- who is who
	userCanon := c15Users[r.Intn(len(c15Users))]
	w := &c15World{}
	cs.u2e.kind = r.Pick("I", "T", "S", "S", "M")
	if cs.u2e.kind == "T" || cs.u2e.kind == "M" {
		cs.u2e.err = r.Chance(6)
	}
	keyOf := func(u string) string {
		if r.Chance(85) {
			return c15NormOrSelf(cs.authNorm, u)
		}
		return u
	}
	entrySpelling := func(s string, isAddr bool) string {
		if r.Chance(80) {
			if isAddr {
				return c15NormOrSelf(cs.fromNm, s)
			}
			return c15NormOrSelf("casefold", norm.NFC.String(s))
		}
		if isAddr {
			l, d, _ := c15SplitLast(s)
			return c15AddrVariant(r, c15Addr{l, d}).String()
		}
		return c15DomainVariant(r, s)
	}
	if cs.u2e.kind == "I" {
		// identity: the user name itself is the entry (address, domain or plain name)
		if l, d, ok := c15SplitLast(userCanon); ok {
			w.entitled = append(w.entitled, c15Addr{l, d})
		} else if strings.Contains(userCanon, ".") {
			w.entDoms = append(w.entDoms, userCanon)
		}
	} else {
		// the sending user's row
		var vals []string
		n := 1 + r.Intn(3)
		if cs.u2e.kind == "T" {
			n = 1
		}
		for i := 0; i < n; i++ {
			switch k := r.Intn(10); {
			case k < 6:
				a := c15RandAddr(r)
				w.entitled = append(w.entitled, a)
				vals = append(vals, entrySpelling(a.String(), true))
			case k < 9:
				d := c15Domains[r.Intn(len(c15Domains))]
				w.entDoms = append(w.entDoms, d)
				vals = append(vals, entrySpelling(d, false))
			default:
				w.star = true
				vals = append(vals, "*")
			}
		}
		if !r.Chance(7) { // sometimes the user has no row at all
			cs.u2e.add(keyOf(userCanon), vals...)
		} else {
			w.entitled, w.entDoms, w.star = nil, nil, false
		}
		// other users' rows
		for i, n := 0, r.Intn(3); i < n; i++ {
			ou := c15Users[r.Intn(len(c15Users))]
			if ou == userCanon {
				continue
			}
			a := c15RandAddr(r)
			w.others = append(w.others, a)
			vs := []string{entrySpelling(a.String(), true)}
			if cs.u2e.kind != "T" && r.Bool() {
				d := c15Domains[r.Intn(len(c15Domains))]
				vs = append(vs, d)
				w.others = append(w.others, c15Addr{"someone", d})
			}
			cs.u2e.add(keyOf(ou), vs...)
		}
	}
	for len(w.others) < 2 {
		w.others = append(w.others, c15RandAddr(r))
	}

	// --- user spelling
	cs.user = userCanon
	switch k := r.Intn(20); {
	case k < 2:
		cs.user = ""
	case k < 9:
		cs.user = c15TextVariant(r, userCanon)
		if l, d, ok := c15SplitLast(userCanon); ok && r.Bool() {
			cs.user = c15AddrVariant(r, c15Addr{l, d}).String()
		}
	case k == 9:
		cs.user = r.Pick("mallory", "al ice", "alice​", "ali\u0000ce", "*", "x@", "@example.org", "ｍallory")
	}

	// --- prepare_email
	cs.prep.kind = "I"
	var aliases []c15Addr // alias addresses that map to something
	if r.Chance(25) {
		cs.prep.kind = r.Pick("T", "S", "M")
		if cs.prep.kind != "S" {
			cs.prep.err = r.Chance(8)
		}
		for i, n := 0, 1+r.Intn(2); i < n; i++ {
			alias := c15Addr{r.Pick("sales", "info", "alias", "ops"), c15Domains[r.Intn(len(c15Domains))]}
			var targets []string
			for j, m := 0, 1+r.Intn(2); j < m; j++ {
				switch k := r.Intn(10); {
				case k < 5 && len(w.entitled) > 0:
					targets = append(targets, c15NormOrSelf(cs.fromNm, w.entitled[r.Intn(len(w.entitled))].String()))
				case k < 8:
					targets = append(targets, w.others[r.Intn(len(w.others))].String())
				case k == 8:
					targets = append(targets, r.Pick("no-at-sign", "@nolocal.example", "nodomain@", ""))
				default:
					targets = append(targets, c15RandAddr(r).String())
				}
			}
			key := alias.String()
			if r.Chance(85) {
				key = c15NormOrSelf(cs.fromNm, key)
			}
			cs.prep.add(key, targets...)
			aliases = append(aliases, alias)
		}
	}

	// --- address picker
	pick := func() c15Addr {
		switch k := r.Intn(20); {
		case k < 7 && len(w.entitled) > 0:
			return c15AddrVariant(r, w.entitled[r.Intn(len(w.entitled))])
		case k < 10 && len(w.entDoms) > 0:
			return c15AddrVariant(r, c15Addr{c15Locals[r.Intn(len(c15Locals))], w.entDoms[r.Intn(len(w.entDoms))]})
		case k < 13:
			return c15AddrVariant(r, w.others[r.Intn(len(w.others))])
		case k < 15 && len(aliases) > 0:
			return c15AddrVariant(r, aliases[r.Intn(len(aliases))])
		case k < 17:
			if len(w.entitled) > 0 {
				return c15NearMiss(r, w.entitled[r.Intn(len(w.entitled))])
			}
			if len(w.entDoms) > 0 {
				return c15NearMiss(r, c15Addr{"alice", w.entDoms[r.Intn(len(w.entDoms))]})
			}
			return c15RandAddr(r)
		case k == 17:
			return c15Addr{r.Pick("ali ce", "a\"b", "a\\b", "a,b", "a@b", "<alice>", "(alice)"), c15Domains[r.Intn(len(c15Domains))]}
		default:
			return c15AddrVariant(r, c15RandAddr(r))
		}
	}
	trickName := func() string {
		// display names that look like addresses: an entitled one when possible
		var a c15Addr
		if len(w.entitled) > 0 && r.Chance(70) {
			a = w.entitled[r.Intn(len(w.entitled))]
		} else {
			a = pick()
		}
		switch r.Intn(6) {
		case 0:
			return a.String()
		case 1:
			return "<" + a.String() + ">"
		case 2:
			return "Alice, <" + a.String() + ">"
		case 3:
			return a.String() + ", bob@example.com"
		case 4:
			return "\"" + a.String() + "\" <" + a.String() + ">"
		default:
			return r.Pick("Alice", "Bob B.", "René Müller", "Дима", "CEO")
		}
	}

	// --- MAIL FROM
	switch k := r.Intn(20); {
	case k == 0:
		cs.mailFrom = r.Pick("", "postmaster", "POSTMASTER", "no-at-sign", "@example.org", "alice@", "a@b@example.org")
	case k == 1:
		a := pick()
		cs.mailFrom = a.local + "@" + a.domain + "."
	default:
		a := pick()
		cs.mailFrom = a.String()
		if r.Chance(5) {
			cs.mailFrom = c15QuoteLocal(a.local, true) + "@" + a.domain
		}
	}

	// --- header
	c15GenHeader(r, cs, pick, trickName)
	return cs
}

// ---- rendering

func c15IsAtext(ch rune) bool {
	if ch >= 0x80 {
		return true
	}
	if ch >= 'a' && ch <= 'z' || ch >= 'A' && ch <= 'Z' || ch >= '0' && ch <= '9' {
		return true
	}
	return strings.ContainsRune("!#$%&'*+-/=?^_`{|}~", ch)
}

func c15IsDotAtom(s string) bool {
	if s == "" || strings.HasPrefix(s, ".") || strings.HasSuffix(s, ".") || strings.Contains(s, "..") {
		return false
	}
	for _, ch := range s {
		if ch != '.' && !c15IsAtext(ch) {
			return false
		}
	}
	return true
}

func c15Quote(s string) string {
	var b strings.Builder
	b.WriteByte('"')
	for _, ch := range s {
		if ch == '"' || ch == '\\' {
			b.WriteByte('\\')
		}
		b.WriteRune(ch)
	}
	b.WriteByte('"')
	return b.String()
}

func c15QuoteLocal(local string, force bool) string {
	if c15IsDotAtom(local) && !force {
		return local
	}
	return c15Quote(local)
}

type c15Mbox struct {
	addr  c15Addr
	name  string
	style int // 0 bare, 1 angle, 2 atom name, 3 quoted name, 4 encoded-word name, 5 trailing comment
	fq    bool
}

func c15IsPhraseAtoms(s string) bool {
	if s == "" {
		return false
	}
	for _, w := range strings.Split(s, " ") {
		if w == "" {
			return false
		}
		for _, ch := range w {
			if !c15IsAtext(ch) || ch >= 0x80 {
				return false
			}
		}
		if strings.HasPrefix(w, "=?") {
			return false
		}
	}
	return true
}

func (m c15Mbox) render(r *vh.Rng, fold func() string) string {
	spec := c15QuoteLocal(m.addr.local, m.fq) + "@" + m.addr.domain
	switch m.style {
	case 1:
		return "<" + spec + ">"
	case 2:
		if c15IsPhraseAtoms(m.name) {
			return m.name + fold() + "<" + spec + ">"
		}
		return c15Quote(m.name) + fold() + "<" + spec + ">"
	case 3:
		return c15Quote(m.name) + fold() + "<" + spec + ">"
	case 4:
		return c15EncodedWords(r, m.name, fold) + fold() + "<" + spec + ">"
	case 5:
		c := strings.Map(func(ch rune) rune {
			if ch == '(' || ch == ')' || ch == '\\' {
				return -1
			}
			return ch
		}, m.name)
		return spec + " (" + c + ")"
	}
	return spec
}

// RFC 2047 encoded words as allowed inside a phrase: every byte that is not a letter or digit is
// escaped (Q) or the whole chunk is base64 (B); long names are split into several words.
func c15EncodedWords(r *vh.Rng, name string, fold func() string) string {
	runes := []rune(name)
	var words []string
	for len(runes) > 0 {
		n := 1 + r.Intn(10)
		if n > len(runes) {
			n = len(runes)
		}
		chunk := string(runes[:n])
		runes = runes[n:]
		if r.Bool() {
			words = append(words, "=?"+r.Pick("utf-8", "UTF-8")+"?"+r.Pick("b", "B")+"?"+base64.StdEncoding.EncodeToString([]byte(chunk))+"?=")
			continue
		}
		var b strings.Builder
		for _, c := range []byte(chunk) {
			switch {
			case c >= 'a' && c <= 'z' || c >= 'A' && c <= 'Z' || c >= '0' && c <= '9':
				b.WriteByte(c)
			case c == ' ':
				b.WriteByte('_')
			default:
				fmt.Fprintf(&b, "=%02X", c)
			}
		}
		words = append(words, "=?utf-8?"+r.Pick("q", "Q")+"?"+b.String()+"?=")
	}
	out := ""
	for i, w := range words {
		if i > 0 {
			out += fold()
		}
		out += w
	}
	return out
}

func c15GenMbox(r *vh.Rng, a c15Addr, trickName func() string) c15Mbox {
	m := c15Mbox{addr: a, style: r.Intn(6), fq: r.Chance(8)}
	if m.style >= 2 {
		m.name = trickName()
		if m.style == 4 && m.name == "" {
			m.style = 1
		}
	}
	return m
}

// one address-list field value + its ground truth
func c15GenList(r *vh.Rng, pick func() c15Addr, trickName func() string, nAddr int, single bool) (string, []c15Addr) {
	fold := func() string {
		if r.Chance(20) {
			return r.Pick("\r\n ", "\r\n\t", "  ", "\r\n  ")
		}
		return " "
	}
	var parts []string
	var gt []c15Addr
	remaining := nAddr
	for remaining > 0 || (nAddr == 0 && len(parts) == 0) {
		if !single && (nAddr == 0 || r.Chance(15)) {
			// a group with 0..remaining members
			k := 0
			if remaining > 0 {
				k = 1 + r.Intn(remaining)
			}
			var ms []string
			for i := 0; i < k; i++ {
				a := pick()
				gt = append(gt, a)
				ms = append(ms, c15GenMbox(r, a, trickName).render(r, fold))
			}
			remaining -= k
			gname := r.Pick("team", "undisclosed-recipients", "\"a, b\"", "Friends")
			parts = append(parts, gname+":"+fold()+strings.Join(ms, ","+fold())+";")
			if nAddr == 0 {
				break
			}
			continue
		}
		a := pick()
		gt = append(gt, a)
		parts = append(parts, c15GenMbox(r, a, trickName).render(r, fold))
		remaining--
	}
	return strings.Join(parts, ","+fold()), gt
}

func c15FieldName(r *vh.Rng, name string) string {
	switch r.Intn(10) {
	case 0:
		return strings.ToUpper(name)
	case 1:
		return strings.ToLower(name)
	case 2:
		return c15MixCase(r, strings.ToLower(name))
	}
	return name
}

func c15Mutate(r *vh.Rng, v string) string {
	if v == "" {
		return r.Pick("<", "@", ",", ";", "\"")
	}
	bs := []rune(v)
	pos := r.Intn(len(bs) + 1)
	ins := []rune(r.Pick("<", ">", ",", ";", ":", "\"", "(", ")", "@", "\\", " ", ".", "[", "]", "=?utf-8?q?x?="))
	switch r.Intn(3) {
	case 0: // insert
		bs = append(bs[:pos], append(ins, bs[pos:]...)...)
	case 1: // delete
		if pos < len(bs) {
			bs = append(bs[:pos], bs[pos+1:]...)
		}
	default: // replace
		if pos < len(bs) {
			bs = append(bs[:pos], append(ins, bs[pos+1:]...)...)
		}
	}
	s := string(bs)
	// keep the field a single (folded) field: no bare CR/LF damage
	s = strings.ReplaceAll(s, "\r\n", "\x00")
	s = strings.NewReplacer("\r", "", "\n", "").Replace(s)
	return strings.ReplaceAll(s, "\x00", "\r\n")
}

func c15GenHeader(r *vh.Rng, cs *c15Case, pick func() c15Addr, trickName func() string) {
	type fld struct {
		name, value string
		gt          []c15Addr
		kind        int // 0 other, 1 From, 2 Sender
	}
	var fields []fld
	nFrom := 1
	switch k := r.Intn(20); {
	case k == 0:
		nFrom = 0
	case k < 4:
		nFrom = 2
	case k == 4:
		nFrom = 3
	}
	for i := 0; i < nFrom; i++ {
		nAddr := 1
		switch k := r.Intn(20); {
		case k == 0:
			nAddr = 0
		case k < 3:
			nAddr = 2
		case k == 3:
			nAddr = 3
		}
		if nAddr == 0 && r.Bool() {
			fields = append(fields, fld{"From", "", nil, 1}) // empty field
			continue
		}
		v, gt := c15GenList(r, pick, trickName, nAddr, false)
		fields = append(fields, fld{"From", v, gt, 1})
	}
	nSender := 0
	switch k := r.Intn(20); {
	case k < 7:
		nSender = 1
	case k == 7:
		nSender = 2
	}
	for i := 0; i < nSender; i++ {
		if r.Chance(5) {
			fields = append(fields, fld{"Sender", "", nil, 2})
			continue
		}
		v, gt := c15GenList(r, pick, trickName, 1, true)
		fields = append(fields, fld{"Sender", v, gt, 2})
	}
	fields = append(fields, fld{"To", "someone@example.net", nil, 0}, fld{"Subject", "hello", nil, 0})
	if r.Bool() {
		fields = append(fields, fld{"Message-ID", "<1@example.net>", nil, 0})
	}
	// shuffle
	for i := len(fields) - 1; i > 0; i-- {
		j := r.Intn(i + 1)
		fields[i], fields[j] = fields[j], fields[i]
	}
	mutate := r.Chance(10)
	var b bytes.Buffer
	for _, f := range fields {
		v := f.value
		if mutate && f.kind != 0 && r.Bool() {
			v = c15Mutate(r, v)
			cs.gtKnown = false
		}
		name := f.name
		if f.kind != 0 {
			name = c15FieldName(r, f.name)
		}
		sep := ": "
		if r.Chance(10) {
			sep = r.Pick(":", ":  ", ":\r\n ", " : ")
		}
		if v == "" {
			sep = ":"
		}
		b.WriteString(name + sep + v + "\r\n")
		switch f.kind {
		case 1:
			cs.gtFrom = append(cs.gtFrom, f.gt)
		case 2:
			cs.gtSender = append(cs.gtSender, f.gt)
		}
	}
	cs.raw = b.Bytes()
}

// ---------------------------------------------------------------- replay

func c15ParseOp(op string) (*c15Case, error) {
	groups := strings.Split(op, " | ")
	head := strings.Fields(groups[0])
	if len(head) != 9 || head[0] != "C15" || head[1] != "run" {
		return nil, fmt.Errorf("bad head")
	}
	cs := &c15Case{checkHeader: head[2] == "1", ua: head[3], na: head[4], ea: head[5], conn: head[6] == "1",
		user: vh.UnhexRunes(head[7]), mailFrom: vh.UnhexRunes(head[8]), authNorm: "auto", fromNm: "auto"}
	cs.prep.kind, cs.u2e.kind = "I", "I"
	unAddr := func(t string) c15Addr {
		p := strings.SplitN(t, "/", 2)
		return c15Addr{vh.UnhexRunes(p[0]), vh.UnhexRunes(p[1])}
	}
	for _, g := range groups[1:] {
		t := strings.Fields(g)
		if len(t) == 0 {
			continue
		}
		switch t[0] {
		case "N":
			cs.authNorm, cs.fromNm = t[1], t[2]
		case "P":
			cs.prep.kind, cs.prep.err = t[1], t[2] == "1"
		case "U":
			cs.u2e.kind, cs.u2e.err = t[1], t[2] == "1"
		case "p", "u":
			var vs []string
			for _, x := range t[2:] {
				vs = append(vs, vh.UnhexRunes(x))
			}
			tab := &cs.prep
			if t[0] == "u" {
				tab = &cs.u2e
			}
			if tab.rows == nil {
				tab.rows = map[string][]string{}
			}
			k := vh.UnhexRunes(t[1])
			tab.keys = append(tab.keys, k)
			tab.rows[k] = vs
		case "H":
			cs.raw = vh.UnhexBytes(t[1])
		case "G":
			cs.gtKnown = t[1] == "1"
		case "GF", "GS":
			var as []c15Addr
			for _, x := range t[1:] {
				as = append(as, unAddr(x))
			}
			if t[0] == "GF" {
				cs.gtFrom = append(cs.gtFrom, as)
			} else {
				cs.gtSender = append(cs.gtSender, as)
			}
		}
	}
	if _, ok := authz.NormalizeFuncs[cs.authNorm]; !ok {
		return nil, fmt.Errorf("bad norm")
	}
	if _, ok := authz.NormalizeFuncs[cs.fromNm]; !ok {
		return nil, fmt.Errorf("bad norm")
	}
	return cs, nil
}

// ---------------------------------------------------------------- fixed scenarios (always run)

func c15Fixed() []*c15Case {
	mk := func(user, mailFrom string, u2e c15Tab, hdr string, gtFrom [][]c15Addr, gtSender [][]c15Addr) *c15Case {
		cs := &c15Case{checkHeader: true, ua: "r", na: "r", ea: "r", authNorm: "auto", fromNm: "auto", conn: true,
			user: user, mailFrom: mailFrom, u2e: u2e, raw: []byte(hdr), gtKnown: true, gtFrom: gtFrom, gtSender: gtSender}
		cs.prep.kind = "I"
		return cs
	}
	ident := c15Tab{kind: "I"}
	alice := c15Addr{"alice", "example.org"}
	bob := c15Addr{"bob", "example.com"}
	var st c15Tab
	st.kind = "S"
	st.add("alice", "alice@example.org", "corp.example.net")
	return []*c15Case{
		// the upstream integration cases: own address, someone else's address
		mk("alice@example.org", "alice@example.org", ident, "From: <alice@example.org>\r\n", [][]c15Addr{{alice}}, nil),
		mk("alice@example.org", "bob@example.com", ident, "From: <bob@example.com>\r\n", [][]c15Addr{{bob}}, nil),
		// DESIGN §6 (m): two From fields, first entitled, second not — and the opposite order
		mk("alice@example.org", "alice@example.org", ident, "From: <alice@example.org>\r\nFrom: <bob@example.com>\r\n", [][]c15Addr{{alice}, {bob}}, nil),
		mk("alice@example.org", "alice@example.org", ident, "From: <bob@example.com>\r\nFrom: <alice@example.org>\r\n", [][]c15Addr{{bob}, {alice}}, nil),
		// From not the user's, Sender is; two Sender fields, first entitled, second not
		mk("alice@example.org", "alice@example.org", ident, "From: <bob@example.com>\r\nSender: <alice@example.org>\r\n", [][]c15Addr{{bob}}, [][]c15Addr{{alice}}),
		mk("alice@example.org", "alice@example.org", ident, "From: <bob@example.com>\r\nSender: <alice@example.org>\r\nSender: <bob@example.com>\r\n", [][]c15Addr{{bob}}, [][]c15Addr{{alice}, {bob}}),
		// display-name trick, group, domain wildcard, missing From
		mk("alice@example.org", "alice@example.org", ident, "From: \"alice@example.org\" <bob@example.com>\r\n", [][]c15Addr{{bob}}, nil),
		mk("alice", "alice@example.org", st, "From: team: x@corp.example.net;\r\n", [][]c15Addr{{{"x", "corp.example.net"}}}, nil),
		mk("alice", "ALICE@EXAMPLE.ORG", st, "To: x@example.net\r\n", nil, nil),
		mk("", "alice@example.org", ident, "From: <alice@example.org>\r\n", [][]c15Addr{{alice}}, nil),
	}
}

// ---------------------------------------------------------------- entry point

func TestVerifC15(t *testing.T) {
	out := vh.Open("c15")
	defer out.Close()
	if ops := vh.Replay(); ops != nil {
		for _, op := range ops {
			if !strings.HasPrefix(op, "C15 ") {
				continue
			}
			cs, err := c15ParseOp(op)
			if err != nil {
				out.Note("unparsable replay op: " + err.Error())
				continue
			}
			c15Do(out, cs)
		}
		return
	}
	for _, cs := range c15Fixed() {
		c15Do(out, cs)
	}
	r := vh.NewRng(vh.Seed() + 15)
	n := vh.N(5000)
	for i := 0; i < n; i++ {
		c15Do(out, c15GenCase(r.Fork()))
	}
}
