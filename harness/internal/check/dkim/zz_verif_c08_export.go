package dkim

// Overlay-only export for the C08 harness (never part of the repository tree).

import (
	"github.com/foxcpp/maddy/framework/config"
	"github.com/foxcpp/maddy/framework/dns"
	"github.com/foxcpp/maddy/framework/log"
	"github.com/foxcpp/maddy/framework/module"
)

// C08NewCheck returns check.dkim on top of the given resolver; required_fields is reduced to From
// (the default also demands Subject, which is a policy about what is signed, not about validity).
func C08NewCheck(r dns.Resolver) (module.Check, error) {
	c := &Check{instName: "c08", log: log.Logger{Out: log.NopOutput{}}, resolver: r}
	if err := c.Init(config.NewMap(nil, config.Node{Children: []config.Node{{Name: "required_fields", Args: []string{"From"}}}})); err != nil {
		return nil, err
	}
	return c, nil
}
