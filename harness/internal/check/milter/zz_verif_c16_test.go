package milter

import (
	"fmt"
	"strings"
	"testing"

	"github.com/emersion/go-milter"
	"github.com/foxcpp/maddy/framework/exterrors"
	"github.com/foxcpp/maddy/framework/log"
	"github.com/foxcpp/maddy/internal/verifshim/vh"
)

// op: C16 milter <code>
func c16Milter(out *vh.Out, op string) {
	toks := strings.Fields(op)
	code := 0
	fmt.Sscan(toks[2], &code)
	s := &state{c: &Check{milterUrl: "tcp://127.0.0.1:1"}, log: log.Logger{Out: log.NopOutput{}}}
	res := s.handleAction(&milter.Action{Code: milter.ActReplyCode, SMTPCode: code})
	se, ok := res.Reason.(*exterrors.SMTPError)
	if !ok {
		out.Corr(op, fmt.Sprintf("not-smtp-error %T", res.Reason))
		return
	}
	out.Corr(op, fmt.Sprintf("%d %d.%d.%d", se.Code, se.EnhancedCode[0], se.EnhancedCode[1], se.EnhancedCode[2]))
	out.Stat(fmt.Sprintf("milter.class%d", code/100))
	if (code/100 == 4 || code/100 == 5) && se.EnhancedCode[0] != se.Code/100 {
		out.Violation("C16/milter-reply-class-mismatch", op, fmt.Sprintf("milter reply %d relayed as %d %d.%d.%d", code, se.Code, se.EnhancedCode[0], se.EnhancedCode[1], se.EnhancedCode[2]))
	}
}

func TestVerifC16Milter(t *testing.T) {
	out := vh.Open("c16_milter")
	defer out.Close()
	if ops := vh.Replay(); ops != nil {
		for _, op := range ops {
			if strings.HasPrefix(op, "C16 milter") {
				c16Milter(out, op)
			}
		}
		return
	}
	for _, code := range []int{421, 450, 451, 452, 454, 500, 550, 551, 552, 553, 554, 571} {
		c16Milter(out, fmt.Sprintf("C16 milter %d", code))
	}
}
