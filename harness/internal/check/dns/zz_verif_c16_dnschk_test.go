package dns

// C16 harness (round 10): the two remaining sites that build a rejection from a DNS failure with the
// helper pair SMTPCode / SMTPEnchCode — require_mx_record (the MX lookup of the sender's domain
// fails) and require_matching_rdns (the rDNS lookup of the connection failed) — with ANY error value
// (temporary, permanent, unclassified, an interrupted lookup: cancelled context / deadline as the
// resolver wraps them).  The rejection VALUE goes through the real wrapErr and toSMTPErr.

import (
	"context"
	"fmt"
	"net"
	"strings"
	"testing"

	"github.com/foxcpp/go-mockdns"
	"github.com/foxcpp/maddy/framework/future"
	"github.com/foxcpp/maddy/framework/log"
	"github.com/foxcpp/maddy/framework/module"
	"github.com/foxcpp/maddy/internal/check"
	smtpep "github.com/foxcpp/maddy/internal/endpoint/smtp"
	"github.com/foxcpp/maddy/internal/target/queue"
	"github.com/foxcpp/maddy/internal/verifshim/vc16"
	"github.com/foxcpp/maddy/internal/verifshim/verr"
	"github.com/foxcpp/maddy/internal/verifshim/vh"
)

var c16dcConv = vc16.Conv{WrapErr: smtpep.VerifC16WrapErr, ToSMTPErr: queue.VerifC16ToSMTPErr}

func c16dcRun(out *vh.Out, op string) {
	t := strings.Fields(op)
	site := t[2]
	n, _ := verr.Parse(t[3:])
	nop := log.Logger{Out: log.NopOutput{}}
	var res module.CheckResult
	switch site {
	case "mx":
		res = requireMXRecord(check.StatelessCheckContext{
			Context:  context.Background(),
			Resolver: &mockdns.Resolver{Zones: map[string]mockdns.Zone{"c16.invalid.": {Err: n.Build()}}},
			MsgMeta:  &module.MsgMetadata{ID: "verif"},
			Logger:   nop,
		}, "sender@c16.invalid")
	case "rdns":
		f := future.New()
		f.Set(nil, n.Build())
		res = requireMatchingRDNS(check.StatelessCheckContext{
			Context:  context.Background(),
			Resolver: &mockdns.Resolver{Zones: map[string]mockdns.Zone{}},
			MsgMeta: &module.MsgMetadata{ID: "verif", Conn: &module.ConnState{
				RemoteAddr: &net.TCPAddr{IP: net.IPv4(192, 0, 2, 9), Port: 55555}, Hostname: "client.c16.example", RDNSName: f}},
			Logger: nop,
		})
	default:
		return
	}
	out.Stat("dnschk.site." + site)
	if res.Reason == nil {
		out.Corr(op, "no-reason")
		out.Violation("C16/policy-lookup-failure-not-reported", op, "the lookup failed with "+n.String()+", the check has no verdict")
		return
	}
	seen := vc16.Run(c16dcConv, res.Reason)
	out.Corr(op, seen.Canon(nil))
	vc16.Check(out, op, seen, true)
	out.Stat(fmt.Sprintf("dnschk.reply-class%d", seen.Stored.Code/100))
}

var c16dcTrees = []string{"N 0", "N 1", "P", "D", "C", "Q 0 C", "Q 1 C", "Q 0 D", "Q 1 D", "T 1 P", "T 0 P", "F - - _ C", "F - - _ N 1", "T 0 N 1", "Q 0 N 1", "Q 0 F - - _ C", "T 0 C", "T 1 C"}

func TestVerifC16PolicyLookups(t *testing.T) {
	out := vh.Open("c16_dnschk")
	defer out.Close()
	if ops := vh.Replay(); ops != nil {
		for _, op := range ops {
			if strings.HasPrefix(op, "C16 dnschk ") {
				c16dcRun(out, op)
			}
		}
		return
	}
	for _, site := range []string{"mx", "rdns"} {
		for _, tr := range c16dcTrees {
			c16dcRun(out, "C16 dnschk "+site+" "+tr)
		}
	}
	r := vh.NewRng(vh.Seed() + 1623)
	for i, n := 0, vh.N(4000)/20; i < n; i++ {
		c16dcRun(out, "C16 dnschk "+r.Pick("mx", "rdns")+" "+verr.Gen(r, r.Intn(3), r.Chance(50)).String())
	}
}
