package dmarc

import (
	"bufio"
	"context"
	"fmt"
	"math/rand"
	"net"
	"os"
	"strconv"
	"strings"
	"testing"

	"github.com/emersion/go-message/textproto"
	"github.com/emersion/go-msgauth/authres"
	"github.com/foxcpp/go-mockdns"
	"github.com/foxcpp/maddy/internal/verifshim/vdmarc"
	"github.com/foxcpp/maddy/internal/verifshim/vh"
)

// c07SeedWorks reports whether rand.Seed still determines the top-level source (it does up to
// go1.23; later toolchains may ignore it, then pct cases are not compared).
func c07SeedWorks() bool {
	rand.Seed(12345)
	a, b := rand.Int31n(100), rand.Int31n(1000)
	rand.Seed(12345)
	return a == rand.Int31n(100) && b == rand.Int31n(1000)
}

func c07Draw(seed int64) int {
	rand.Seed(seed)
	return int(rand.Int31n(100))
}

func c07FieldValues(hdr textproto.Header) []string {
	var vals []string
	for f := hdr.FieldsByKey("From"); f.Next(); {
		vals = append(vals, f.Value())
	}
	return vals
}

func c07Reason(v authres.ResultValue, reason string) string {
	switch {
	case strings.HasPrefix(reason, "Policy lookup failed: "):
		return "lookupFailed"
	case strings.HasPrefix(reason, "Not enough information"):
		return "notEnough"
	case reason == "DKIM authentication temp error":
		return "dkimTemp"
	case reason == "SPF authentication temp error":
		return "spfTemp"
	case reason == "No aligned identifiers":
		return "noAligned"
	case reason == "":
		return "blank"
	}
	return "?" + reason
}

func c07b(b bool) string {
	if b {
		return "1"
	}
	return "0"
}

// c07CtxResolver answers like the scripted resolver, but - as net.Resolver does - not before the
// answer has "arrived" (gate) and not at all when the context of the lookup is cancelled before
// that: the lookup then ends with the context's error.
type c07CtxResolver struct {
	r    *mockdns.Resolver
	gate chan struct{}
}

func (r *c07CtxResolver) LookupTXT(ctx context.Context, name string) ([]string, error) {
	select {
	case <-r.gate:
	case <-ctx.Done():
	}
	if err := ctx.Err(); err != nil {
		if err == context.DeadlineExceeded {
			return nil, &net.DNSError{Err: "i/o timeout", Name: name, IsTimeout: true}
		}
		return nil, &net.DNSError{Err: "operation was canceled", Name: name}
	}
	return r.r.LookupTXT(ctx, name)
}

var c07VerifyCount int

// c07Several: the generator wrote a single From field with two or more addresses (shape "<n>", or
// "m<n>" when the address parser refuses one of the display names).
func c07Several(shape string) bool {
	n, err := strconv.Atoi(strings.TrimPrefix(shape, "m"))
	return err == nil && n >= 2
}

// one case against the real Verifier
func c07Verify(out *vh.Out, c *vdmarc.Case, seedOK bool) {
	hdr, err := textproto.ReadHeader(bufio.NewReader(strings.NewReader(c.HdrRaw)))
	if err != nil {
		out.Note("generated header does not parse: " + err.Error())
		return
	}
	c.Rnd = 0
	if seedOK {
		c.Rnd = c07Draw(c.Seed)
	}
	op := c.Op("verify", c07FieldValues(hdr), out)

	// the DNS answers arrive either at once or only after Verifier.FetchRecord has returned (the
	// lookup is asynchronous); alternating, the verdict must not depend on it
	res0 := &c07CtxResolver{r: &mockdns.Resolver{Zones: c.MockZones()}, gate: make(chan struct{})}
	c07VerifyCount++
	early := c07VerifyCount%2 == 0
	if early {
		close(res0.gate)
	}
	v := NewVerifier(res0)
	v.FetchRecord(context.Background(), hdr)
	if !early {
		close(res0.gate)
	}
	if seedOK {
		rand.Seed(c.Seed)
	}
	res, policy := v.Apply(c.AuthResults())
	v.Close()

	val := string(res.Authres.Value)
	if val == "" {
		val = "empty"
	}
	out.Corr(op, fmt.Sprintf("%s %s %s %s %s", val, c07Reason(res.Authres.Value, res.Authres.Reason), c07b(res.SPFAligned), c07b(res.DKIMAligned), string(policy)))

	// ---- monitor: the property itself ----
	e := c.Expectation()
	pass := res.Authres.Value == authres.ResultPass
	if e.CheckPass && pass != e.Pass {
		sig := "C07/pass-without-alignment"
		switch {
		case c07Several(c.Shape):
			sig = "C07/pass-with-several-author-addresses"
		case c.Shape != "1":
			sig = "C07/pass-without-single-author"
		case e.Pass:
			sig = "C07/aligned-but-no-pass"
		}
		out.Violation(sig, op, fmt.Sprintf("verdict %s, policy %s; expected pass=%v: %s", val, policy, e.Pass, e.Why))
	}
	if e.CheckFate {
		// what the caller does with (verdict, policy), per the contract in Apply's comment
		got := "accept"
		switch policy {
		case PolicyReject:
			got = "perm"
			if res.Authres.Value == authres.ResultTempError {
				got = "temp"
			}
		case PolicyQuarantine:
			got = "quarantine"
		}
		if got != e.Fate {
			out.Violation("C07/action-"+e.Fate+"-expected-got-"+got, op, fmt.Sprintf("verdict %s, policy %s => %s; expected %s: %s", val, policy, got, e.Fate, e.Why))
		}
	}
	// ---- distribution ----
	out.Stat("verdict." + val)
	out.Stat("policy." + string(policy))
	out.Stat("shape." + c.Shape)
	out.Stat("reason." + c07Reason(res.Authres.Value, res.Authres.Reason))
	nd := 0
	for _, r := range c.Res {
		if r.Kind == 'd' {
			nd++
		}
	}
	if nd > 4 {
		nd = 4
	}
	out.Stat(fmt.Sprintf("dkim.results.%d", nd))
	for _, r := range c.Res {
		if r.Kind == 'd' {
			out.Stat("dkim.identity." + vdmarc.IdentClass(r.Ident, r.Dom, c.Author))
		}
		if r.Kind == 'o' {
			out.Stat(fmt.Sprintf("other.result.%d", r.Other))
		}
	}
	switch {
	case !e.CheckPass && !e.CheckFate:
		out.Stat("oracle.outside-property")
	case e.CheckFate:
		out.Stat("oracle.fate." + e.Fate)
	default:
		out.Stat("oracle.pass-only")
	}
	if e.Pass {
		out.Stat("oracle.pass")
	}
	for _, n := range c.Names {
		out.Stat("zone." + c.Zones[n].Kind)
	}
}

func TestVerifC07Verify(t *testing.T) {
	out := vh.Open("c07_verify")
	defer out.Close()
	seedOK := c07SeedWorks()
	if !seedOK {
		out.Note("math/rand.Seed has no effect with this toolchain: pct draws are not compared")
	}
	if ops := vh.Replay(); ops != nil {
		for _, op := range ops {
			kind, c, err := vdmarc.ParseOp(op)
			if err != nil || (kind != "verify" && kind != "reply") {
				continue
			}
			c07Verify(out, c, seedOK)
		}
		return
	}
	r := vh.NewRng(vh.Seed() + 71).Fork() // Fork: the raw splitmix streams of neighbouring seeds are shifts of each other
	for _, c := range vdmarc.Corpus() {
		c07Verify(out, c, seedOK)
	}
	n := vh.N(20000)
	for i := 0; i < n; i++ {
		c07Verify(out, vdmarc.Random(r), seedOK)
	}
	// strided sweep of the property's stated product (offset by the seed)
	target := 30000
	if vh.Thorough() {
		target = 600000
	}
	if v, err := strconv.Atoi(os.Getenv("VERIF_C07_ENUM")); err == nil && v > 0 {
		target = v
	}
	stride := vdmarc.EnumStride(target)
	k := vdmarc.Enumerate(stride, int(vh.Seed()), func(c *vdmarc.Case) { c07Verify(out, c, seedOK) })
	out.StatN("enumerated", k)
	out.StatN("enumeration.stride", stride)
}

// op: C07 aligned <from> <auth> <r|s> | tables — the real isAligned over the whole fixed set
func TestVerifC07Aligned(t *testing.T) {
	out := vh.Open("c07_aligned")
	defer out.Close()
	run := func(from, auth, mode string) {
		op := vdmarc.AlignedOp(from, auth, mode, out)
		got := isAligned(from, auth, AlignmentMode(mode))
		out.Corr(op, c07b(got))
		want := vdmarc.KnownAligned(from, auth, mode == "s")
		if got != want {
			out.Violation("C07/alignment-wrong", op, fmt.Sprintf("isAligned(%q, %q, %s) = %v, the known organizational domains say %v", from, auth, mode, got, want))
		}
		out.Stat("aligned." + mode + "." + c07b(got))
	}
	if ops := vh.Replay(); ops != nil {
		for _, op := range ops {
			f := strings.Fields(op)
			if len(f) >= 5 && f[1] == "aligned" {
				run(vdmarc.Untok(f[2]), vdmarc.Untok(f[3]), f[4])
			}
		}
		return
	}
	for _, a := range vdmarc.Doms {
		if a.Name == "" {
			continue
		}
		for _, b := range vdmarc.Doms {
			run(a.Name, b.Name, "r")
			run(a.Name, b.Name, "s")
		}
	}
	// the laws tying publicsuffix/EqualFold/ToLower to the hand-written organizational domains
	out.Corr(vdmarc.LawsOp(out), "ok")
}

// op: C07 extract | F … — ExtractFromDomain over header shapes
func TestVerifC07Extract(t *testing.T) {
	out := vh.Open("c07_extract")
	defer out.Close()
	run := func(raw, shape, author string) {
		hdr, err := textproto.ReadHeader(bufio.NewReader(strings.NewReader(raw)))
		if err != nil {
			out.Note("generated header does not parse: " + err.Error())
			return
		}
		au := "-"
		if shape == "1" {
			au = vdmarc.Tok(author)
		}
		op := "C07 extract | I " + shape + " " + au + " 0 | H " + vh.HexBytes([]byte(raw)) + " | " + strings.Join(vdmarc.FieldToks(c07FieldValues(hdr)), " | ")
		d, err := ExtractFromDomain(hdr)
		if err != nil {
			kind := "?"
			switch {
			case strings.Contains(err.Error(), "multiple From header fields"):
				kind = "multipleFields"
			case strings.Contains(err.Error(), "missing From header field"):
				kind = "missingField"
			case strings.Contains(err.Error(), "multiple addresses"):
				kind = "multipleAddrs"
			case strings.Contains(err.Error(), "missing address"):
				kind = "missingAddr"
			case strings.Contains(err.Error(), "malformed From header field: address:"): // address.Split's errors start like that; net/mail's may quote the field
				kind = "malformedAddr"
			case strings.Contains(err.Error(), "malformed From header field"):
				kind = "malformed"
			}
			out.Corr(op, "err "+kind)
			out.Stat("extract.err." + kind)
			if shape == "1" {
				out.Violation("C07/single-author-not-extracted", op, fmt.Sprintf("header with exactly one author address at %q: %v", author, err))
			}
			return
		}
		out.Corr(op, "ok "+vdmarc.Tok(d))
		out.Stat("extract.ok")
		if c07Several(shape) {
			out.Violation("C07/author-from-several-addresses", op, fmt.Sprintf("header shape %s yields author domain %q", shape, d))
		} else if shape != "1" {
			out.Violation("C07/author-from-non-single-header", op, fmt.Sprintf("header shape %s yields author domain %q", shape, d))
		} else if d != author {
			out.Violation("C07/wrong-author-domain", op, fmt.Sprintf("author domain %q, expected %q", d, author))
		}
	}
	if ops := vh.Replay(); ops != nil {
		for _, op := range ops {
			_, c, err := vdmarc.ParseOp(op)
			if err == nil && strings.HasPrefix(op, "C07 extract") {
				run(c.HdrRaw, c.Shape, c.Author)
			}
		}
		return
	}
	r := vh.NewRng(vh.Seed() + 72).Fork()
	n := vh.N(20000) / 10
	for i := 0; i < n; i++ {
		c := vdmarc.Random(r)
		run(c.HdrRaw, c.Shape, c.Author)
	}
}
