package msgpipeline

import "github.com/foxcpp/maddy/framework/module"

// VerifC15Placed builds a pipeline like Mock, with the check group declared at `place` (overlay-only file, see
// /verif/DESIGN.md; used by the C15 harness of internal/endpoint/smtp): g = globally, s = in the (default)
// source block, d = in the destination block of relayDomain.  Recipients of relayDomain go to relayTgt, all
// others to tgt through a block without checks, as the configuration
//
//	destination relayDomain { check { … }; deliver_to relayTgt }
//	default_destination { deliver_to tgt }
//
// is read by parseMsgPipelineRootCfg.
func VerifC15Placed(place, relayDomain string, tgt, relayTgt module.DeliveryTarget, checks []module.Check) *MsgPipeline {
	d := Mock(tgt, nil)
	relay := &rcptBlock{targets: []module.DeliveryTarget{relayTgt}}
	d.defaultSource.perRcpt[relayDomain] = relay
	switch place {
	case "g":
		d.globalChecks = checks
	case "s":
		d.defaultSource.checks = checks
	default:
		relay.checks = checks
	}
	return d
}
