package msgpipeline

import (
	"bytes"
	"fmt"
	"os"
	"path/filepath"
	"sort"
	"strings"
	"testing"

	parser "github.com/foxcpp/maddy/framework/cfgparser"
	"github.com/foxcpp/maddy/framework/config"
	"github.com/foxcpp/maddy/framework/module"
	"github.com/foxcpp/maddy/internal/testutils"
	"github.com/foxcpp/maddy/internal/verifshim/vh"
)

// C20, last clause: the configuration files shipped with maddy parse and pass pipeline validation.
// The real parser reads the files; every block that carries a message pipeline (msgpipeline,
// smtp/submission/lmtp endpoints, the bounce block of target.queue) is handed to the real pipeline
// configuration code (parseMsgPipelineRootCfg). Modules that are not part of this package (checks,
// modifiers, tables, delivery targets named in the files) are stubs: what is validated is the
// pipeline structure, not those modules' own options.

var c20PipelineDirectives = map[string]bool{
	"check": true, "modify": true, "source": true, "source_in": true, "default_source": true,
	"destination": true, "destination_in": true, "default_destination": true,
	"deliver_to": true, "reroute": true, "reject": true, "dmarc": true,
}

type c20Table struct {
	testutils.Table
	testutils.MultiTable
	name string
}

func (t c20Table) InstanceName() string   { return t.name }
func (t c20Table) Name() string           { return "c20_table" }
func (t c20Table) Init(*config.Map) error { return nil }

func c20RegisterStub(kind, name string) {
	full := kind + "." + name
	if module.Get(full) != nil {
		return
	}
	switch kind {
	case "check":
		module.Register(full, func(_, instName string, _, _ []string) (module.Module, error) {
			return &testutils.Check{InstName: instName}, nil
		})
	case "modify":
		module.Register(full, func(_, instName string, _, _ []string) (module.Module, error) {
			return testutils.Modifier{InstName: instName}, nil
		})
	}
}

// collect the module names used inside check { } / modify { } groups anywhere below nodes
func c20CollectGroups(nodes []config.Node, out map[string]bool) {
	for _, n := range nodes {
		if (n.Name == "check" || n.Name == "modify") && len(n.Args) == 0 {
			for _, c := range n.Children {
				out[n.Name+"."+c.Name] = true
			}
		}
		c20CollectGroups(n.Children, out)
	}
}

func c20PipelineBlocks(nodes []config.Node) (blocks [][]config.Node, labels []string) {
	for _, n := range nodes {
		switch {
		case n.Name == "msgpipeline":
			blocks = append(blocks, n.Children)
			labels = append(labels, n.Name+" "+strings.Join(n.Args, " "))
		case n.Name == "smtp" || n.Name == "submission" || n.Name == "lmtp":
			var sub []config.Node
			for _, c := range n.Children {
				if c20PipelineDirectives[c.Name] {
					sub = append(sub, c)
				}
			}
			blocks = append(blocks, sub)
			labels = append(labels, n.Name+" "+strings.Join(n.Args, " "))
		case n.Name == "target.queue":
			for _, c := range n.Children {
				if c.Name == "bounce" {
					blocks = append(blocks, c.Children)
					labels = append(labels, n.Name+" "+strings.Join(n.Args, " ")+" bounce")
				}
			}
		}
	}
	return
}

func TestVerifC20ShippedPipelines(t *testing.T) {
	out := vh.Open("c20shipped")
	defer out.Close()
	if vh.Replay() != nil {
		return
	}
	os.Setenv("MADDY_HOSTNAME", "mx.example.org")
	os.Setenv("MADDY_DOMAIN", "example.org")
	for _, fn := range []string{"maddy.conf", "maddy.conf.docker"} {
		op := "C20 shipped " + fn
		b, err := os.ReadFile(filepath.Join("..", "..", fn))
		if err != nil {
			out.Violation("C20/shipped-missing", op, err.Error())
			continue
		}
		nodes, err := parser.Read(bytes.NewReader(b), fn)
		if err != nil {
			out.Violation("C20/shipped-does-not-parse", op, err.Error())
			continue
		}
		out.Stat("shipped.parsed")
		// stubs for what lives outside this package
		func() {
			defer func() {
				if p := recover(); p != nil {
					out.Violation("C20/shipped-pipeline", op, fmt.Sprint("panic while registering stubs: ", p))
				}
			}()
			for _, n := range nodes {
				if len(n.Args) == 0 || module.HasInstance(n.Args[0]) {
					continue
				}
				if strings.HasPrefix(n.Name, "table.") {
					module.RegisterInstance(c20Table{name: n.Args[0]}, nil)
				} else if strings.Contains(n.Name, ".") || n.Name == "msgpipeline" {
					module.RegisterInstance(&testutils.Target{InstName: n.Args[0]}, nil)
				}
			}
			groups := map[string]bool{}
			c20CollectGroups(nodes, groups)
			var names []string
			for k := range groups {
				names = append(names, k)
			}
			sort.Strings(names)
			for _, k := range names {
				kv := strings.SplitN(k, ".", 2)
				c20RegisterStub(kv[0], kv[1])
			}
		}()
		blocks, labels := c20PipelineBlocks(nodes)
		if len(blocks) < 3 {
			out.Violation("C20/shipped-pipeline", op, fmt.Sprintf("expected at least 3 pipeline-bearing blocks, found %d", len(blocks)))
		}
		for i, blk := range blocks {
			func() {
				defer func() {
					if p := recover(); p != nil {
						out.Violation("C20/shipped-pipeline", op, fmt.Sprintf("%s: panic: %v", labels[i], p))
					}
				}()
				cfg, err := parseMsgPipelineRootCfg(map[string]interface{}{}, blk)
				if err != nil {
					out.Violation("C20/shipped-pipeline", op, labels[i]+": "+err.Error())
					return
				}
				out.Stat("shipped.pipeline-blocks-validated")
				if len(cfg.perSource) == 0 && len(cfg.defaultSource.perRcpt) == 0 && cfg.defaultSource.defaultRcpt == nil && cfg.defaultSource.rejectErr == nil {
					out.Violation("C20/shipped-pipeline", op, labels[i]+": pipeline configuration came out empty")
				}
			}()
		}
	}
}
