package msgpipeline

// Property C06, round 11: ONE RCPT command that a global / per-source modifier expands into several
// addresses (alias, mailing list).  Op line:
//
//	C06 alias <smtp|lmtp> <g|s> <checks of block 0>;<block 1>;… <id>:<blk>,<id>:<blk>,… <script>;<script>;…
//
// The client names list@alias.example; the scripted modifier of the global (g) or the source (s)
// group rewrites it to u<id>@b<blk>.example for every listed result, in that order.  Block b
// delivers to target b%2.  A script (one per check): <body verdict>/<id>:<verdict>,… (or -); a verdict is
// two characters as in run ops (0i nothing, 1r reject, 1q quarantine, 1i ignore-with-reason).
// The oracle is written from the property: every result is a recipient of the message - each check
// of the block handling it is shown it exactly once (until the command is refused), a reject
// verdict about any result refuses the command and keeps that address from every target, a
// quarantine verdict about any result flags the message at every target, every check of a block
// that took a result sees the body once.  The expansion is not an input of the Lean model (its
// modifiers are identities): these ops are judged by the monitor only.

import (
	"context"
	"errors"
	"fmt"
	"strconv"
	"strings"
	"sync"
	"testing"

	"github.com/emersion/go-message/textproto"
	"github.com/emersion/go-smtp"
	"github.com/foxcpp/go-mockdns"
	"github.com/foxcpp/maddy/framework/buffer"
	"github.com/foxcpp/maddy/framework/config"
	"github.com/foxcpp/maddy/framework/log"
	"github.com/foxcpp/maddy/framework/module"
	"github.com/foxcpp/maddy/internal/modify"
	"github.com/foxcpp/maddy/internal/verifshim/vh"
)

const c06AliasAddr = "list@alias.example"

type c06Alias struct {
	mode    string
	where   byte
	blocks  [][]int
	results []c06Rcpt
	scripts []c06Script
}

func (a *c06Alias) op() string {
	var bl, rs, sc []string
	for _, b := range a.blocks {
		bl = append(bl, c06Ids(b))
	}
	for _, r := range a.results {
		rs = append(rs, fmt.Sprintf("%d:%d", r.id, r.blk))
	}
	for _, s := range a.scripts {
		var rv []string
		for id := 1; id <= 9; id++ {
			if v, ok := s.rcpt[id]; ok {
				rv = append(rv, fmt.Sprintf("%d:%s", id, v))
			}
		}
		if len(rv) == 0 {
			rv = []string{"-"}
		}
		sc = append(sc, s.body.String()+"/"+strings.Join(rv, ","))
	}
	return strings.Join([]string{"C06", "alias", a.mode, string(a.where), strings.Join(bl, ";"), strings.Join(rs, ","), strings.Join(sc, ";")}, " ")
}

func c06ParseAlias(op string) (a *c06Alias, err error) {
	defer func() {
		if r := recover(); r != nil {
			err = fmt.Errorf("bad op: %v", r)
		}
	}()
	t := strings.Fields(op)
	if len(t) != 7 || t[0] != "C06" || t[1] != "alias" || (t[2] != "smtp" && t[2] != "lmtp") || (t[3] != "g" && t[3] != "s") {
		return nil, errors.New("not a C06 alias op")
	}
	a = &c06Alias{mode: t[2], where: t[3][0]}
	for _, b := range strings.Split(t[4], ";") {
		a.blocks = append(a.blocks, c06ParseIds(b))
	}
	seen := map[int]bool{}
	for _, r := range strings.Split(t[5], ",") {
		p := strings.Split(r, ":")
		id, e1 := strconv.Atoi(p[0])
		blk, e2 := strconv.Atoi(p[1])
		if e1 != nil || e2 != nil || id < 1 || id > 9 || seen[id] || blk < 0 || blk >= len(a.blocks) {
			return nil, errors.New("bad result " + r)
		}
		seen[id] = true
		a.results = append(a.results, c06Rcpt{id: id, blk: blk})
	}
	okV := func(s string) bool {
		return len(s) == 2 && (s[0] == '0' || s[0] == '1') && strings.IndexByte("iqr", s[1]) >= 0
	}
	for _, s := range strings.Split(t[6], ";") {
		p := strings.Split(s, "/")
		if len(p) != 2 || !okV(p[0]) {
			return nil, errors.New("bad script " + s)
		}
		sc := c06Script{conn: c06V{'0', 'i'}, sender: c06V{'0', 'i'}, body: c06ParseV(p[0]), rcpt: map[int]c06V{}}
		if p[1] != "-" {
			for _, rv := range strings.Split(p[1], ",") {
				q := strings.Split(rv, ":")
				id, e := strconv.Atoi(q[0])
				if e != nil || !okV(q[1]) {
					return nil, errors.New("bad script " + s)
				}
				sc.rcpt[id] = c06ParseV(q[1])
			}
		}
		a.scripts = append(a.scripts, sc)
	}
	for _, b := range a.blocks {
		for _, k := range b {
			if k >= len(a.scripts) {
				return nil, errors.New("a block names a check that does not exist")
			}
		}
	}
	return a, nil
}

type c06AliasMod struct{ to []string }

func (m *c06AliasMod) Init(*config.Map) error { return nil }
func (m *c06AliasMod) Name() string           { return "verif_alias" }
func (m *c06AliasMod) InstanceName() string   { return "verif_alias" }
func (m *c06AliasMod) ModStateForMsg(context.Context, *module.MsgMetadata) (module.ModifierState, error) {
	return m, nil
}
func (m *c06AliasMod) RewriteSender(_ context.Context, from string) (string, error) { return from, nil }
func (m *c06AliasMod) RewriteRcpt(_ context.Context, to string) ([]string, error) {
	if to == c06AliasAddr {
		return append([]string(nil), m.to...), nil
	}
	return []string{to}, nil
}
func (m *c06AliasMod) RewriteBody(context.Context, *textproto.Header, buffer.Buffer) error { return nil }
func (m *c06AliasMod) Close() error                                                        { return nil }

type c06AliasCollector struct {
	mu   sync.Mutex
	errs int
	oks  int
}

func (c *c06AliasCollector) SetStatus(_ string, err error) {
	c.mu.Lock()
	if err != nil {
		c.errs++
	} else {
		c.oks++
	}
	c.mu.Unlock()
}

func c06AliasRun(out *vh.Out, a *c06Alias) {
	op := a.op()
	var addrs []string
	for _, r := range a.results {
		addrs = append(addrs, c06Addr(r.id, r.blk))
	}
	sender := "someone@s.example"
	tc := &c06TxCtx{id: "tx0", scripts: a.scripts, delays: make([][4]int, len(a.scripts)), rec: c06NewRec(), sender: sender, addrs: map[string]bool{c06AliasAddr: true}, body: c06Body("tx0")}
	for _, x := range addrs {
		tc.addrs[x] = true
	}
	sh := &c06Shared{txs: map[string]*c06TxCtx{"tx0": tc}}
	checks := make([]module.Check, len(a.scripts))
	for i := range checks {
		checks[i] = &c06Check{id: i, sh: sh}
	}
	tgts := []*c06Target{{id: 0}, {id: 1}}
	refuse := errors.New("no such block")
	perRcpt := map[string]*rcptBlock{}
	for b, ids := range a.blocks {
		var l []module.Check
		for _, k := range ids {
			l = append(l, checks[k])
		}
		perRcpt[fmt.Sprintf("b%d.example", b)] = &rcptBlock{checks: l, targets: []module.DeliveryTarget{tgts[b%2]}}
	}
	mod := modify.Group{Modifiers: []module.Modifier{&c06AliasMod{to: addrs}}}
	cfg := msgpipelineCfg{
		perSource:     map[string]sourceBlock{},
		defaultSource: sourceBlock{perRcpt: perRcpt, defaultRcpt: &rcptBlock{rejectErr: refuse}},
	}
	if a.where == 'g' {
		cfg.globalModifiers = mod
	} else {
		cfg.defaultSource.modifiers = mod
	}
	p := &MsgPipeline{msgpipelineCfg: cfg, Hostname: "mx.verif.example", Resolver: &mockdns.Resolver{Zones: map[string]mockdns.Zone{}}, Log: log.Logger{Out: log.NopOutput{}}}
	ctx := context.Background()
	meta := &module.MsgMetadata{ID: "tx0", DontTraceSender: true, OriginalFrom: sender}
	dl, err := p.Start(ctx, meta, sender)
	if err != nil {
		out.Violation("C06/unexpected-error", op, "MAIL refused: "+err.Error())
		return
	}
	out.Stat("alias.cases")
	tc.rec.setCmd(1)
	rcptErr := dl.AddRcpt(ctx, c06AliasAddr, smtp.RcptOptions{})

	calls := func(check int, stage string) int {
		tc.rec.mu.Lock()
		defer tc.rec.mu.Unlock()
		n := 0
		for _, c := range tc.rec.calls {
			if c.check == check && c.stage == stage {
				n++
			}
		}
		return n
	}
	atTarget := func(id int) bool {
		for _, t := range tgts {
			for _, d := range t.dlvs {
				if c06Has(d.rcpts, id) {
					return true
				}
			}
		}
		return false
	}
	// the oracle, result by result
	wantQ, rejAt := false, -1
	taking := map[int]bool{} // blocks that took a result
	for i, r := range a.results {
		stage := "r" + strconv.Itoa(r.id)
		for k := range a.scripts {
			n := calls(k, stage)
			switch {
			case c06Has(a.blocks[r.blk], k) && n == 0:
				out.Violation("C06/stage-not-seen", op, fmt.Sprintf("result %d of the expansion (recipient %d, %s) is handled by block %d: its check %d was not shown the recipient", i+1, r.id, c06Addr(r.id, r.blk), r.blk, k))
			case c06Has(a.blocks[r.blk], k) && n > 1:
				out.Violation("C06/stage-seen-twice", op, fmt.Sprintf("check %d was shown recipient %d %d times", k, r.id, n))
				// (a check of ANOTHER block that gets its state object at a later result is shown the earlier
				// recipients of the message then - the runner's replay to lazily created states: not judged here)
			}
		}
		for _, k := range a.blocks[r.blk] {
			switch a.scripts[k].at(stage).proper() {
			case "r":
				if rejAt < 0 {
					rejAt = i
				}
			case "q":
				wantQ = true
			}
		}
		if rejAt >= 0 {
			break
		}
		taking[r.blk] = true
	}
	if rejAt >= 0 {
		out.Stat("alias.result-rejected")
		if rejAt > 0 {
			out.Stat("alias.later-result-rejected")
		}
		r := a.results[rejAt]
		if rcptErr == nil {
			out.Violation("C06/reject-not-enforced", op, fmt.Sprintf("a check of block %d rejects result %d of the expansion (recipient %d): the RCPT command was accepted", r.blk, rejAt+1, r.id))
		}
		if atTarget(r.id) {
			out.Violation("C06/refused-recipient-reached-target", op, fmt.Sprintf("recipient %d (rejected by a check of block %d) was handed to a target", r.id, r.blk))
		}
		if rcptErr != nil {
			dl.Abort(ctx)
			for _, t := range tgts {
				for _, d := range t.dlvs {
					if d.bodySeen {
						out.Violation("C06/rejected-message-reached-target", op, "no recipient command was accepted, a target was given the body")
					}
				}
			}
			return
		}
	} else if rcptErr != nil {
		out.Violation("C06/refused-without-reject", op, "no check rejects any result of the expansion, RCPT refused: "+rcptErr.Error())
		dl.Abort(ctx)
		return
	}
	if wantQ {
		out.Stat("alias.result-quarantined")
	}
	// DATA
	tc.rec.setCmd(2)
	hdr := textproto.Header{}
	hdr.Add("Subject", "verif")
	hdr.Add("From", "<someone@s.example>")
	body := buffer.MemoryBuffer{Slice: []byte(tc.body)}
	refused := false
	if a.mode == "smtp" {
		if err := dl.Body(ctx, hdr, body); err != nil {
			refused = true
			dl.Abort(ctx)
		} else {
			dl.Commit(ctx)
		}
	} else {
		col := &c06AliasCollector{}
		dl.(module.PartialDelivery).BodyNonAtomic(ctx, col, hdr, body)
		refused = col.errs > 0
		dl.Commit(ctx)
	}
	// a quarantine verdict about a result by a check of another block that took a LATER result: the
	// replay shows that check the earlier recipient, its verdict may raise the flag (allowed, not demanded)
	mayQ := false
	for i, r := range a.results {
		for _, l := range a.results[i+1:] {
			for _, k := range a.blocks[l.blk] {
				if a.scripts[k].at("r"+strconv.Itoa(r.id)).proper() == "q" {
					mayQ = true
				}
			}
		}
	}
	bodyRej := false
	for k := range a.scripts {
		applies := false
		for b := range taking {
			if c06Has(a.blocks[b], k) {
				applies = true
			}
		}
		n := calls(k, "b")
		if applies {
			switch a.scripts[k].body.proper() {
			case "r":
				bodyRej = true
			case "q":
				wantQ = true
			}
		}
		switch {
		case applies && n > 1:
			out.Violation("C06/stage-seen-twice", op, fmt.Sprintf("check %d saw the body %d times", k, n))
		case !applies && n > 0:
			out.Violation("C06/inapplicable-check-called", op, fmt.Sprintf("check %d belongs to no block that took a recipient and saw the body", k))
		}
	}
	if !bodyRej {
		for k := range a.scripts {
			for b := range taking {
				if c06Has(a.blocks[b], k) && calls(k, "b") == 0 {
					out.Violation("C06/stage-not-seen", op, fmt.Sprintf("the message passed the checks, check %d (block %d took a recipient) saw the body 0 times", k, b))
				}
			}
		}
	}
	for _, t := range tgts {
		for _, d := range t.dlvs {
			if !d.bodySeen {
				continue
			}
			if bodyRej {
				out.Violation("C06/rejected-message-reached-target", op, fmt.Sprintf("a check rejects the body, target %d was given it", t.id))
			} else if wantQ && !d.bodyQ {
				out.Violation("C06/quarantine-not-flagged", op, fmt.Sprintf("a check quarantines (a result of the expansion or the body), target %d saw the message without the flag", t.id))
			} else if !wantQ && !mayQ && d.bodyQ {
				out.Violation("C06/quarantined-without-verdict", op, fmt.Sprintf("no applicable check quarantines, target %d saw the flag", t.id))
			}
		}
	}
	if bodyRej && !refused {
		out.Violation("C06/reject-not-enforced", op, "an applicable check rejects the body, DATA was accepted")
	}
	if !bodyRej && refused {
		out.Violation("C06/refused-without-reject", op, "no applicable check rejects the body, DATA was refused")
	}
	if !bodyRej {
		for _, r := range a.results {
			if !atTarget(r.id) {
				out.Violation("C06/unexpected-error", op, fmt.Sprintf("recipient %d of the accepted expansion reached no target", r.id))
			}
		}
	}
}

func c06GenAlias(r *vh.Rng) *c06Alias {
	a := &c06Alias{mode: r.Pick("smtp", "lmtp"), where: r.Pick("g", "s")[0]}
	nC := 2 + r.Intn(3)
	nB := 1 + r.Intn(3)
	for b := 0; b < nB; b++ {
		var l []int
		n := 1 + r.Intn(2)
		for len(l) < n {
			if x := r.Intn(nC); !c06Has(l, x) {
				l = append(l, x)
			}
		}
		a.blocks = append(a.blocks, l)
	}
	nR := 2 + r.Intn(3)
	blk := r.Intn(nB)
	for id := 1; id <= nR; id++ {
		// mostly: the results land in one destination block
		if r.Chance(30) {
			blk = r.Intn(nB)
		}
		a.results = append(a.results, c06Rcpt{id: id, blk: blk})
	}
	for k := 0; k < nC; k++ {
		sc := c06Script{conn: c06V{'0', 'i'}, sender: c06V{'0', 'i'}, body: c06V{'0', 'i'}, rcpt: map[int]c06V{}}
		if r.Chance(12) {
			sc.body = c06V{'1', r.Pick("r", "q", "i")[0]}
		}
		for id := 1; id <= nR; id++ {
			if r.Chance(6) {
				sc.rcpt[id] = c06V{'1', r.Pick("r", "q", "i")[0]}
			}
		}
		a.scripts = append(a.scripts, sc)
	}
	if r.Chance(60) {
		// a verdict of a check of the block about a LATER result
		i := 1 + r.Intn(nR-1)
		res := a.results[i]
		l := a.blocks[res.blk]
		a.scripts[l[r.Intn(len(l))]].rcpt[res.id] = c06V{'1', r.Pick("r", "q")[0]}
	}
	return a
}

func TestVerifC06Alias(t *testing.T) {
	out := vh.Open("c06_alias")
	defer out.Close()
	if ops := vh.Replay(); ops != nil {
		for _, op := range ops {
			if !strings.HasPrefix(op, "C06 alias ") {
				continue
			}
			a, err := c06ParseAlias(op)
			if err != nil {
				t.Fatalf("%v: %s", err, op)
			}
			c06AliasRun(out, a)
		}
		return
	}
	r := vh.NewRng(vh.Seed() + 6111)
	n := vh.N(400)/4 + 40
	for i := 0; i < n; i++ {
		a := c06GenAlias(r)
		if b, err := c06ParseAlias(a.op()); err != nil || b.op() != a.op() {
			t.Fatalf("op line does not round-trip: %s (%v)", a.op(), err)
		}
		c06AliasRun(out, a)
	}
}
