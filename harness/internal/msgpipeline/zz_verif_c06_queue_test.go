package msgpipeline_test

// C06, round 9: REAL target.queue objects as targets of the generated pipelines.
//
// internal/target/queue imports internal/msgpipeline, so the in-package harness
// (zz_verif_c06_test.go, package msgpipeline) cannot name it; this file belongs to the external
// test package of the same directory (linked into the same test binary) and hands the
// constructor over through the hook msgpipeline.VerifC06NewQueue.
//
// One queue = queue.NewQueue + Init on generated configuration (own spool directory, max_tries 1,
// `target` = the case's recording downstream target); the harness waits until the spool is empty
// (the one attempt was made - the message was delivered or given up - or the delivery was
// aborted), then closes the queue: Close waits for the delivery goroutines, so what the downstream
// target recorded is complete and visible.

import (
	"errors"
	"os"
	"sync"

	"github.com/foxcpp/maddy/framework/config"
	"github.com/foxcpp/maddy/framework/log"
	"github.com/foxcpp/maddy/framework/module"
	"github.com/foxcpp/maddy/internal/msgpipeline"
	"github.com/foxcpp/maddy/internal/target/queue"
)

var (
	c06qMu   sync.Mutex
	c06qDown module.Module // what `target verif_c06_down` stands for while a queue is being initialised
)

func init() {
	module.Register("target.verif_c06_down", func(_, _ string, _, _ []string) (module.Module, error) {
		if c06qDown == nil {
			return nil, errors.New("verif_c06_down: no downstream target set")
		}
		return c06qDown, nil
	})
	msgpipeline.VerifC06NewQueue = func(dir string, down module.DeliveryTarget) (module.DeliveryTarget, func() bool, func() error, error) {
		c06qMu.Lock()
		defer c06qMu.Unlock()
		dm, ok := down.(module.Module)
		if !ok {
			return nil, nil, nil, errors.New("downstream target is not a module")
		}
		mod, err := queue.NewQueue("target.queue", "verif_c06_queue", nil, nil)
		if err != nil {
			return nil, nil, nil, err
		}
		q := mod.(*queue.Queue)
		q.Log = log.Logger{Out: log.NopOutput{}}
		c06qDown = dm
		defer func() { c06qDown = nil }()
		node := config.Node{Children: []config.Node{
			{Name: "location", Args: []string{dir}},
			{Name: "max_tries", Args: []string{"1"}},
			{Name: "target", Args: []string{"verif_c06_down"}},
		}}
		globals := map[string]interface{}{"hostname": "mx.verif.example", "debug": false}
		if err := q.Init(config.NewMap(globals, node)); err != nil {
			return nil, nil, nil, err
		}
		q.Log = log.Logger{Out: log.NopOutput{}}
		if q.Target != down {
			return nil, nil, nil, errors.New("the queue's target is not the downstream target")
		}
		idle := func() bool {
			ents, err := os.ReadDir(dir)
			return err == nil && len(ents) == 0
		}
		return q, idle, q.Close, nil
	}
}
