package msgpipeline

// C04 — routing follows the documented precedence (see /verif/DESIGN.md §4 C04, /verif/notes/C04.md).
//
// One case = one generated pipeline configuration (rendered to configuration text, read by the real
// framework/cfgparser and loaded by the real msgpipeline.New) + a handful of envelopes sent through
// the loaded pipeline (Start / AddRcpt / Body / Commit) with recording delivery targets and in-memory
// tables registered as module instances.
//
//   T2: the op line (configuration tree, envelopes, tables of the real address.ForLookup /
//       dns.ForLookup / validMatchRule / address.Valid over the strings of the case) goes to the Lean
//       model; load verdict, MAIL/RCPT replies and the ordered list of (target, sender, recipient)
//       hand-offs are compared.
//   T3: an oracle written from the documentation (first matching of: tables in order, full-address
//       rules in order, domain rules in order, default; sender then recipient; on rewritten addresses)
//       is evaluated directly on the configuration tree and compared with what the recording targets
//       saw; accepted recipients nobody saw, loaded blocks without any decision and envelope spellings
//       with equal lookup keys that are routed differently are violations as well.
//       The oracle computes lookup keys, splits addresses and validates replacement values with its OWN
//       statement of the documented normalisation (c04DocKey & co.: NFC + lower case, A-labels decoded,
//       trailing dot dropped, everything else left alone) - never with framework/address or
//       framework/dns, so a normaliser that starts to refuse or to change addresses it has to pass
//       through (underscores, address literals, "--" in positions 3-4, leading/trailing hyphens, joiners,
//       digits, single labels) shows up as a recipient that did not reach the block the documented
//       precedence selects.  The tables sent to the Lean model still come from the real functions.

import (
	"context"
	"errors"
	"fmt"
	"os"
	"runtime"
	"runtime/debug"
	"sort"
	"strconv"
	"strings"
	"sync"
	"testing"
	"time"

	"github.com/emersion/go-message/textproto"
	"github.com/emersion/go-smtp"
	"github.com/foxcpp/maddy/framework/address"
	"github.com/foxcpp/maddy/framework/buffer"
	parser "github.com/foxcpp/maddy/framework/cfgparser"
	"github.com/foxcpp/maddy/framework/config"
	"github.com/foxcpp/maddy/framework/dns"
	"github.com/foxcpp/maddy/framework/exterrors"
	"github.com/foxcpp/maddy/framework/log"
	"github.com/foxcpp/maddy/framework/module"
	_ "github.com/foxcpp/maddy/internal/table"
	"github.com/foxcpp/maddy/internal/verifshim/vh"
	"golang.org/x/net/idna"
	"golang.org/x/text/unicode/norm"
)

// ---------------------------------------------------------------- configuration tree

type c04Entry struct {
	k    string
	vals []string
}

type c04Mod struct {
	sender  bool
	entries []c04Entry
}

// kinds: SI SR SD (source_in / source / default_source), TI RU DF (destination_in / destination /
// default_destination), C (check) M (modify) D (deliver_to) RR (reroute) RJ (reject) X (other)
// reject tokens: "RJ <code> <e0> <e1> <e2>" (rendered without arguments when 554 5.7.0, else with two), "RJx" ('reject 200'),
// "RJA <n> <arg>…" = the n arguments as they are written in the configuration (hex runes, "-" = empty string), well-formed or not
type c04Node struct {
	kind  string
	ok    bool     // C, M: module exists; SI, TI: table exists; RJ: arguments valid
	keys  []string // SI, TI
	delay int      // SI, TI: the table module answers after this many units of virtual time
	rules []string // SR, RU
	mods  []c04Mod // M
	darg  int      // D: -2 no argument, -1 unknown reference, >= 0 target id
	reply [4]int   // RJ (legacy token: no argument when 554 5.7.0, else basic code + enhanced code)
	raw   bool     // RJ: args are the arguments of the directive as they are written in the configuration (token RJA)
	args  []string // RJ with raw
	xvar  int      // X: which misplaced directive is rendered
	ch    []*c04Node
}

type c04Env struct {
	variant bool // same lookup keys as the previous envelope, other spelling
	from    string
	rcpts   []string
}

type c04Case struct {
	depth int
	root  []*c04Node
	envs  []c04Env
}

func c04IsBlock(k string) bool {
	switch k {
	case "SI", "SR", "SD", "TI", "RU", "DF", "RR":
		return true
	}
	return false
}

// ---------------------------------------------------------------- wire encoding

// strings are emitted as "$<hex runes>" and then pooled by c04Pool ("#<index>")
func c04S(x string) string { return "$" + vh.HexRunes(x) }

func c04EncStrs(b *[]string, xs []string) {
	*b = append(*b, strconv.Itoa(len(xs)))
	for _, x := range xs {
		*b = append(*b, c04S(x))
	}
}

// c04Pool replaces the string tokens of an op by references into a pool that is put after the depth:
// C04 case <depth> P <n> <hex>... <rest with #i>
func c04Pool(toks []string) []string {
	idx := map[string]int{}
	var pool []string
	out := make([]string, 0, len(toks))
	for _, t := range toks {
		if strings.HasPrefix(t, "$") {
			i, ok := idx[t]
			if !ok {
				i = len(pool)
				idx[t] = i
				pool = append(pool, t[1:])
			}
			out = append(out, "#"+strconv.Itoa(i))
		} else {
			out = append(out, t)
		}
	}
	res := append([]string{}, out[:3]...)
	res = append(res, "P", strconv.Itoa(len(pool)))
	res = append(res, pool...)
	return append(res, out[3:]...)
}

func c04EncNodes(b *[]string, ns []*c04Node) {
	*b = append(*b, strconv.Itoa(len(ns)))
	for _, n := range ns {
		c04EncNode(b, n)
	}
}

func c04EncNode(b *[]string, n *c04Node) {
	switch n.kind {
	case "SI", "TI":
		*b = append(*b, n.kind)
		if !n.ok {
			*b = append(*b, "x")
		} else {
			if n.delay > 0 {
				*b = append(*b, "TD", strconv.Itoa(n.delay))
			} else {
				*b = append(*b, "T")
			}
			c04EncStrs(b, n.keys)
		}
		c04EncNodes(b, n.ch)
	case "SR", "RU":
		*b = append(*b, n.kind)
		c04EncStrs(b, n.rules)
		c04EncNodes(b, n.ch)
	case "SD", "DF", "RR":
		*b = append(*b, n.kind)
		c04EncNodes(b, n.ch)
	case "C":
		if n.ok {
			*b = append(*b, "C1")
		} else {
			*b = append(*b, "C0")
		}
	case "M":
		if !n.ok {
			*b = append(*b, "Mx")
			return
		}
		*b = append(*b, "M", strconv.Itoa(len(n.mods)))
		for _, m := range n.mods {
			if m.sender {
				*b = append(*b, "S")
			} else {
				*b = append(*b, "R")
			}
			*b = append(*b, strconv.Itoa(len(m.entries)))
			for _, e := range m.entries {
				*b = append(*b, c04S(e.k))
				c04EncStrs(b, e.vals)
			}
		}
	case "D":
		switch {
		case n.darg == -2:
			*b = append(*b, "D0")
		case n.darg == -1:
			*b = append(*b, "Dx")
		default:
			*b = append(*b, "D", strconv.Itoa(n.darg))
		}
	case "RJ":
		if n.raw {
			*b = append(*b, "RJA", strconv.Itoa(len(n.args)))
			for _, a := range n.args {
				if a == "" {
					*b = append(*b, "-")
				} else {
					*b = append(*b, vh.HexRunes(a))
				}
			}
		} else if !n.ok {
			*b = append(*b, "RJx")
		} else {
			*b = append(*b, "RJ", strconv.Itoa(n.reply[0]), strconv.Itoa(n.reply[1]), strconv.Itoa(n.reply[2]), strconv.Itoa(n.reply[3]))
		}
	case "X":
		*b = append(*b, "X"+strconv.Itoa(n.xvar))
	default:
		panic("c04: bad node kind " + n.kind)
	}
}

func c04Encode(c *c04Case) []string {
	b := []string{"C04", "case", strconv.Itoa(c.depth)}
	c04EncNodes(&b, c.root)
	b = append(b, "|", strconv.Itoa(len(c.envs)))
	for _, e := range c.envs {
		if e.variant {
			b = append(b, "V")
		} else {
			b = append(b, "E")
		}
		b = append(b, c04S(e.from))
		c04EncStrs(&b, e.rcpts)
	}
	return b
}

type c04Reader struct {
	t    []string
	i    int
	pool []string
}

// a string token: "#<pool index>", "$<hex runes>" or bare hex runes
func (r *c04Reader) str() string {
	t := r.next()
	switch {
	case strings.HasPrefix(t, "#"):
		i, err := strconv.Atoi(t[1:])
		if err != nil || i < 0 || i >= len(r.pool) {
			panic("c04: bad pool reference " + t)
		}
		return r.pool[i]
	case strings.HasPrefix(t, "$"):
		return vh.UnhexRunes(t[1:])
	}
	return vh.UnhexRunes(t)
}

func (r *c04Reader) next() string {
	if r.i >= len(r.t) {
		panic("c04: op line too short")
	}
	r.i++
	return r.t[r.i-1]
}
func (r *c04Reader) num() int {
	v, err := strconv.Atoi(r.next())
	if err != nil {
		panic("c04: number expected in op line")
	}
	return v
}
func (r *c04Reader) strs() []string {
	n := r.num()
	var out []string
	for i := 0; i < n; i++ {
		out = append(out, r.str())
	}
	return out
}
func (r *c04Reader) nodes() []*c04Node {
	n := r.num()
	var out []*c04Node
	for i := 0; i < n; i++ {
		out = append(out, r.node())
	}
	return out
}
func (r *c04Reader) node() *c04Node {
	k := r.next()
	n := &c04Node{}
	switch {
	case k == "SI" || k == "TI":
		n.kind = k
		switch r.next() {
		case "T":
			n.ok = true
			n.keys = r.strs()
		case "TD":
			n.ok = true
			n.delay = r.num()
			n.keys = r.strs()
		}
		n.ch = r.nodes()
	case k == "SR" || k == "RU":
		n.kind = k
		n.rules = r.strs()
		n.ch = r.nodes()
	case k == "SD" || k == "DF" || k == "RR":
		n.kind = k
		n.ch = r.nodes()
	case k == "C1" || k == "C0":
		n.kind, n.ok = "C", k == "C1"
	case k == "Mx":
		n.kind = "M"
	case k == "M":
		n.kind, n.ok = "M", true
		nm := r.num()
		for i := 0; i < nm; i++ {
			m := c04Mod{sender: r.next() == "S"}
			ne := r.num()
			for j := 0; j < ne; j++ {
				e := c04Entry{k: r.str()}
				e.vals = r.strs()
				m.entries = append(m.entries, e)
			}
			n.mods = append(n.mods, m)
		}
	case k == "D0":
		n.kind, n.darg = "D", -2
	case k == "Dx":
		n.kind, n.darg = "D", -1
	case k == "D":
		n.kind, n.darg = "D", r.num()
	case k == "RJA":
		n.kind, n.raw, n.args = "RJ", true, []string{}
		for i, cnt := 0, r.num(); i < cnt; i++ {
			if t := r.next(); t == "-" {
				n.args = append(n.args, "")
			} else {
				n.args = append(n.args, vh.UnhexRunes(t))
			}
		}
		_, n.ok = c04DocReject(n.args)
	case k == "RJx":
		n.kind = "RJ"
	case k == "RJ":
		n.kind, n.ok = "RJ", true
		for i := 0; i < 4; i++ {
			n.reply[i] = r.num()
		}
	case strings.HasPrefix(k, "X"):
		n.kind = "X"
		n.xvar, _ = strconv.Atoi(k[1:])
	default:
		panic("c04: bad token " + k)
	}
	return n
}

func c04Decode(op string) *c04Case {
	r := &c04Reader{t: strings.Fields(op)}
	if r.next() != "C04" || r.next() != "case" {
		panic("c04: not a case op")
	}
	c := &c04Case{depth: r.num()}
	if r.i < len(r.t) && r.t[r.i] == "P" {
		r.next()
		n := r.num()
		for i := 0; i < n; i++ {
			r.pool = append(r.pool, vh.UnhexRunes(r.next()))
		}
	}
	c.root = r.nodes()
	if r.next() != "|" {
		panic("c04: '|' expected")
	}
	ne := r.num()
	for i := 0; i < ne; i++ {
		e := c04Env{variant: r.next() == "V"}
		e.from = r.str()
		e.rcpts = r.strs()
		c.envs = append(c.envs, e)
	}
	return c
}

// ---------------------------------------------------------------- rendering to configuration text

func c04Q(s string) string { return `"` + s + `"` }

var c04XNames = [][]string{
	{"bogus_directive"}, // pipeline root
	{"bogus_directive", "source", "default_source", "source_in"},                 // source block
	{"bogus_directive", "destination", "default_destination", "source", "dmarc"}, // destination block
}

// level: 0 pipeline root, 1 inside a source block, 2 inside a destination block
func c04Render(b *strings.Builder, ns []*c04Node, level int, ind string, tblNames *[]*c04TableMod) {
	for _, n := range ns {
		b.WriteString(ind)
		sub := level
		switch n.kind {
		case "SI", "SR", "SD":
			sub = 1
		case "TI", "RU", "DF":
			sub = 2
		case "RR":
			sub = 0
		}
		switch n.kind {
		case "SI", "TI":
			name := "source_in"
			if n.kind == "TI" {
				name = "destination_in"
			}
			if !n.ok {
				b.WriteString(name + " &c04_no_such_table {\n")
			} else {
				tm := &c04TableMod{inst: fmt.Sprintf("c04tbl%d", len(*tblNames)), m: map[string]bool{}, delay: n.delay}
				for _, k := range n.keys {
					tm.m[k] = true
				}
				*tblNames = append(*tblNames, tm)
				b.WriteString(name + " &" + tm.inst + " {\n")
			}
		case "SR", "RU":
			name := "source"
			if n.kind == "RU" {
				name = "destination"
			}
			b.WriteString(name)
			for _, r := range n.rules {
				b.WriteString(" " + c04Q(r))
			}
			b.WriteString(" {\n")
		case "SD":
			b.WriteString("default_source {\n")
		case "DF":
			b.WriteString("default_destination {\n")
		case "RR":
			b.WriteString("reroute {\n")
		case "C":
			if n.ok {
				b.WriteString("check {\n" + ind + "  test_check\n" + ind + "}\n")
			} else {
				b.WriteString("check {\n" + ind + "  c04_no_such_check\n" + ind + "}\n")
			}
		case "M":
			if !n.ok {
				b.WriteString("modify {\n" + ind + "  c04_no_such_modifier\n" + ind + "}\n")
				break
			}
			b.WriteString("modify {\n")
			for _, m := range n.mods {
				if m.sender {
					b.WriteString(ind + "  replace_sender static {\n")
				} else {
					b.WriteString(ind + "  replace_rcpt static {\n")
				}
				for _, e := range m.entries {
					b.WriteString(ind + "    entry " + c04Q(e.k))
					for _, v := range e.vals {
						b.WriteString(" " + c04Q(v))
					}
					b.WriteString("\n")
				}
				b.WriteString(ind + "  }\n")
			}
			b.WriteString(ind + "}\n")
		case "D":
			switch {
			case n.darg == -2:
				b.WriteString("deliver_to\n")
			case n.darg == -1:
				b.WriteString("deliver_to &c04_no_such_target\n")
			default:
				b.WriteString(fmt.Sprintf("deliver_to &c04tgt%d\n", n.darg))
			}
		case "RJ":
			switch {
			case n.raw:
				b.WriteString("reject")
				for _, a := range n.args {
					b.WriteString(" " + c04CfgWord(a))
				}
				b.WriteString("\n")
			case !n.ok:
				b.WriteString("reject 200\n")
			case n.reply == [4]int{554, 5, 7, 0}:
				b.WriteString("reject\n")
			default:
				b.WriteString(fmt.Sprintf("reject %d %d.%d.%d\n", n.reply[0], n.reply[1], n.reply[2], n.reply[3]))
			}
		case "X":
			names := c04XNames[level]
			b.WriteString(names[n.xvar%len(names)] + " whatever\n")
		}
		if c04IsBlock(n.kind) {
			c04Render(b, n.ch, sub, ind+"  ", tblNames)
			b.WriteString(ind + "}\n")
		}
	}
}

// ---------------------------------------------------------------- module instances

type c04TableMod struct {
	inst  string
	m     map[string]bool
	delay int       // answer latency in units of virtual time
	sched *c04Sched // the virtual clock of the case
}

// Virtual time for the table modules of one case.  A lookup of a table with latency d that is started
// at (virtual) time t is answered at t+d; the clock moves only when every lookup in flight is waiting,
// and the lookup with the earliest answer time is released first (ties: the one started first).  A
// lookup whose context ends while it waits returns the context's error at once (the modules honour
// their context, as a table backed by a database or a directory server does).  Nothing sleeps: the
// release order is the one the case scripts with the latencies, whatever the machine does.
//
// The code under test consults the tables one after the other on the goroutine that called
// Start/AddRcpt: then there is nothing to wait for and the answer is given at once.  When a lookup
// arrives on another goroutine (or several are in flight) the module cannot know whether more lookups
// are about to be started, so it lets the other goroutines run (c04QuietYields calls of
// runtime.Gosched without any lookup being started or answered) before it takes the clock forward.
// That only happens on trees that consult the tables concurrently; what is observed there still
// depends on the scripted order only, not on the clock of the machine.
type c04Sched struct {
	mu      sync.Mutex
	now     int64
	seq     int
	gen     int // changes whenever a lookup is started or answered
	pending []*c04Wait
	driver  string // id of the goroutine that sends the envelopes
	base    int    // runtime.NumGoroutine() when the driver called into the pipeline
}

type c04Wait struct {
	at  int64
	seq int
}

const c04QuietYields = 2000

// one unit of virtual time, when it has to be compared with a context deadline
const c04TimeUnit = time.Second

var c04CurSched *c04Sched

func c04Goid() string {
	var buf [64]byte
	n := runtime.Stack(buf[:], false)
	f := strings.Fields(string(buf[:n])) // "goroutine 123 [running]:"
	if len(f) >= 2 {
		return f[1]
	}
	return "?"
}

// c04Enter is called by the driver before every call into the pipeline
func (s *c04Sched) enter() {
	if s == nil {
		return
	}
	s.mu.Lock()
	s.base = runtime.NumGoroutine()
	s.mu.Unlock()
}

func (s *c04Sched) drop(w *c04Wait) {
	for i, o := range s.pending {
		if o == w {
			s.pending = append(s.pending[:i], s.pending[i+1:]...)
			break
		}
	}
	s.gen++
}

func (s *c04Sched) wait(ctx context.Context, delay int) error {
	if err := ctx.Err(); err != nil {
		return err
	}
	if delay == 0 || s == nil {
		return nil
	}
	if dl, ok := ctx.Deadline(); ok && time.Until(dl) < time.Duration(delay)*c04TimeUnit {
		return context.DeadlineExceeded // the caller stops waiting before this table answers
	}
	s.mu.Lock()
	w := &c04Wait{at: s.now + int64(delay), seq: s.seq}
	s.seq++
	s.gen++
	s.pending = append(s.pending, w)
	alone, base, driver := len(s.pending) == 1, s.base, s.driver
	s.mu.Unlock()
	need := c04QuietYields
	onDriver := c04Goid() == driver
	if (!alone || !onDriver) && c04SchedStat != nil {
		c04SchedStat("table.lookup.concurrent-or-foreign-goroutine")
	}
	if alone && onDriver {
		// the ordinary case: called by the goroutine that called Start/AddRcpt, nothing else going on
		for i := 0; i < 200; i++ {
			if runtime.NumGoroutine() == base {
				need = 0
				break
			}
			runtime.Gosched() // goroutines of the checks that are just finishing
		}
	}
	quiet, last := 0, -1
	for {
		if err := ctx.Err(); err != nil {
			s.mu.Lock()
			s.drop(w)
			s.mu.Unlock()
			return err
		}
		s.mu.Lock()
		if s.gen != last {
			last, quiet = s.gen, 0
		}
		first := true
		for _, o := range s.pending {
			if o != w && (o.at < w.at || o.at == w.at && o.seq < w.seq) {
				first = false
			}
		}
		if first && quiet >= need {
			if w.at > s.now {
				s.now = w.at
			}
			s.drop(w)
			s.mu.Unlock()
			return nil
		}
		s.mu.Unlock()
		quiet++
		runtime.Gosched()
	}
}

var c04SchedStat func(string)

func (t *c04TableMod) Init(*config.Map) error { return nil }
func (t *c04TableMod) Name() string           { return "c04_table" }
func (t *c04TableMod) InstanceName() string   { return t.inst }
func (t *c04TableMod) Lookup(ctx context.Context, k string) (string, bool, error) {
	if err := t.sched.wait(ctx, t.delay); err != nil {
		return "", false, err
	}
	if t.m[k] {
		return "1", true, nil
	}
	return "", false, nil
}

type c04Deliv struct {
	tgt      int
	from, to string
}

var c04Log []c04Deliv

type c04Target struct{ id int }

func (t *c04Target) Init(*config.Map) error { return nil }
func (t *c04Target) Name() string           { return "c04_target" }
func (t *c04Target) InstanceName() string   { return fmt.Sprintf("c04tgt%d", t.id) }
func (t *c04Target) Start(_ context.Context, _ *module.MsgMetadata, from string) (module.Delivery, error) {
	return &c04Delivery{t: t, from: from}, nil
}

type c04Delivery struct {
	t    *c04Target
	from string
}

func (d *c04Delivery) AddRcpt(_ context.Context, to string, _ smtp.RcptOptions) error {
	c04Log = append(c04Log, c04Deliv{d.t.id, d.from, to})
	return nil
}
func (d *c04Delivery) Body(context.Context, textproto.Header, buffer.Buffer) error { return nil }
func (d *c04Delivery) Abort(context.Context) error                                 { return nil }
func (d *c04Delivery) Commit(context.Context) error                                { return nil }

const c04NTargets = 4

func c04Register(m module.Module) {
	module.RegisterInstance(m, nil)
	module.Initialized[m.InstanceName()] = true
}

// ---------------------------------------------------------------- running the real code

func c04LoadErrName(err error) string {
	s := err.Error()
	has := func(x string) bool { return strings.Contains(s, x) }
	switch {
	case has("empty pipeline configuration"):
		return "emptyLevel.src"
	case has("empty source block"):
		return "emptyLevel.dst"
	case has("together with source rules"):
		return "handlingWithRules.src"
	case has("together with destination rules"):
		return "handlingWithRules.dst"
	case has("missing or empty default source block"):
		return "missingDefault.src"
	case has("missing or empty default destination block"):
		return "missingDefault.dst"
	case has("duplicate 'default_source'"):
		return "dupDefault.src"
	case has("duplicate 'default_destination'"):
		return "dupDefault.dst"
	case has("expected at least one source matching rule"):
		return "noRule.src"
	case has("expected at least one destination match rule"):
		return "noRule.dst"
	case has("invalid source match rule"), has("invalid source routing rule"):
		return "invalidRule.src"
	case has("invalid destination match rule"):
		return "invalidRule.dst"
	case has("can't use 'reject' and 'deliver_to' together"):
		return "rejectAndDeliver"
	case has("required at least one argument"):
		return "deliverNoArgs"
	case has("missing or empty reroute pipeline configuration"):
		return "emptyReroute"
	case has("error code should start with either 4 or 5"), has("message can't be empty"), has("wrong amount of enhanced code parts"),
		has("enhanced code should use either 4 or 5 as a first number"), has("invalid error code integer"), has("invalid count of arguments"),
		has("strconv.Atoi: parsing"):
		return "badReject"
	case has("without 'deliver_to', 'reroute' or 'reject'"):
		return "noDecision"
	case has("unknown pipeline directive"), has("invalid directive"):
		return "unknownDirective"
	case has("unknown module"), has("unknown config block"):
		return "moduleErr"
	}
	return "other:" + s
}

// the message of a reply is part of the observation unless it is the default text of 'reject' or the fixed text of one of
// the four replies the pipeline produces itself
const c04DefaultRejectMsg = "Message rejected due to a local policy"

var c04StdMsgs = map[string]bool{
	c04DefaultRejectMsg:                         true,
	"Unable to normalize the sender address":    true,
	"Invalid sender address":                    true,
	"Unable to normalize the recipient address": true,
	"Invalid recipient address":                 true,
}

// one argument as it is written in a configuration file
func c04CfgWord(a string) string {
	plain := a != ""
	for _, r := range a {
		if !(r >= 'a' && r <= 'z' || r >= 'A' && r <= 'Z' || r >= '0' && r <= '9' || r == '.' || r == '-' || r == '+' || r == '_') {
			plain = false
		}
	}
	if plain {
		return a
	}
	return `"` + strings.ReplaceAll(a, `"`, `\"`) + `"` // the lexer knows one escape: \" (the generator uses no backslash)
}

// The documentation of 'reject' read on the arguments as written: "reject [smtp_code] [smtp_enhanced_code] [error_description]",
// defaults 554 / 5.7.0 / "Message rejected due to a local policy"; the basic code is a number 4xx or 5xx, the enhanced code three
// numbers separated by dots of which the first is 4 or 5, the description is not empty.  Returns the reply the block is
// configured with in the form of c04Refusal, and whether the directive is well-formed.  Own decimal reader, no call into the
// code under test.
func c04DocReject(args []string) (string, bool) {
	dec := func(s string) (int64, bool) {
		neg := false
		if s != "" && (s[0] == '-' || s[0] == '+') {
			neg = s[0] == '-'
			s = s[1:]
		}
		if s == "" || len(s) > 18 {
			return 0, false
		}
		var v int64
		for _, c := range []byte(s) {
			if c < '0' || c > '9' {
				return 0, false
			}
			v = v*10 + int64(c-'0')
		}
		if neg {
			v = -v
		}
		return v, true
	}
	code, enh, msg := int64(554), [3]int64{5, 7, 0}, c04DefaultRejectMsg
	if len(args) > 3 {
		return "", false
	}
	if len(args) >= 1 {
		v, ok := dec(args[0])
		if !ok || v < 400 || v > 599 {
			return "", false
		}
		code = v
	}
	if len(args) >= 2 {
		parts := strings.Split(args[1], ".")
		if len(parts) != 3 {
			return "", false
		}
		for i, p := range parts {
			v, ok := dec(p)
			if !ok {
				return "", false
			}
			enh[i] = v
		}
		if enh[0] != 4 && enh[0] != 5 {
			return "", false
		}
	}
	if len(args) == 3 {
		if args[2] == "" {
			return "", false
		}
		msg = args[2]
	}
	res := fmt.Sprintf("%d/%d.%d.%d", code, enh[0], enh[1], enh[2])
	if !c04StdMsgs[msg] {
		res += "/" + vh.HexRunes(msg)
	}
	return res, true
}

func c04Refusal(err error) string {
	if err == nil {
		return "ok"
	}
	var se *exterrors.SMTPError
	if errors.As(err, &se) {
		res := fmt.Sprintf("%d/%d.%d.%d", se.Code, se.EnhancedCode[0], se.EnhancedCode[1], se.EnhancedCode[2])
		if !c04StdMsgs[se.Message] {
			res += "/" + vh.HexRunes(se.Message)
		}
		return res
	}
	s := err.Error()
	switch {
	case strings.HasPrefix(s, "malformed address"):
		return "malformed"
	case strings.HasPrefix(s, "refusing to replace"):
		return "badrepl"
	}
	return "other:" + s
}

func c04ShowDelivs(ds []c04Deliv) string {
	var p []string
	for _, d := range ds {
		p = append(p, fmt.Sprintf("%d,%s,%s", d.tgt, vh.HexRunes(d.from), vh.HexRunes(d.to)))
	}
	return "[" + strings.Join(p, ";") + "]"
}

type c04RcptObs struct {
	res    string
	delivs []c04Deliv
}

type c04EnvObs struct {
	mail  string
	rcpts []c04RcptObs
}

func c04RunEnv(p *MsgPipeline, e c04Env) (obs c04EnvObs, bad string) {
	ctx := context.Background()
	meta := &module.MsgMetadata{ID: "c04", OriginalFrom: e.from, SMTPOpts: smtp.MailOptions{UTF8: true}}
	c04Log = nil
	c04CurSched.enter()
	d, err := p.Start(ctx, meta, e.from)
	obs.mail = c04Refusal(err)
	if err != nil {
		if len(c04Log) != 0 {
			bad = "deliveries during a refused MAIL"
		}
		return
	}
	accepted := 0
	for _, r := range e.rcpts {
		c04Log = nil
		c04CurSched.enter()
		err := d.AddRcpt(ctx, r, smtp.RcptOptions{})
		obs.rcpts = append(obs.rcpts, c04RcptObs{res: c04Refusal(err), delivs: c04Log})
		if err == nil {
			accepted++
		}
	}
	c04Log = nil
	if accepted > 0 {
		hdr := textproto.Header{}
		hdr.Add("Subject", "c04")
		if err := d.Body(ctx, hdr, buffer.MemoryBuffer{Slice: []byte("hello\r\n")}); err != nil {
			bad = "Body failed: " + err.Error()
			d.Abort(ctx)
			return
		}
		if err := d.Commit(ctx); err != nil {
			bad = "Commit failed: " + err.Error()
		}
	} else if err := d.Abort(ctx); err != nil {
		bad = "Abort failed: " + err.Error()
	}
	if len(c04Log) != 0 {
		bad = "recipients added after the RCPT stage"
	}
	return
}

// every rcptBlock reachable in a loaded configuration
func c04WalkBlocks(cfg *msgpipelineCfg, f func(*rcptBlock)) {
	src := func(sb sourceBlock) {
		blk := func(b *rcptBlock) {
			if b == nil {
				return
			}
			f(b)
			for _, t := range b.targets {
				if mp, ok := t.(*MsgPipeline); ok {
					c04WalkBlocks(&mp.msgpipelineCfg, f)
				}
			}
		}
		for _, in := range sb.rcptIn {
			blk(in.block)
		}
		var ks []string
		for k := range sb.perRcpt {
			ks = append(ks, k)
		}
		sort.Strings(ks)
		for _, k := range ks {
			blk(sb.perRcpt[k])
		}
		blk(sb.defaultRcpt)
	}
	for _, in := range cfg.sourceIn {
		src(in.block)
	}
	var ks []string
	for k := range cfg.perSource {
		ks = append(ks, k)
	}
	sort.Strings(ks)
	for _, k := range ks {
		src(cfg.perSource[k])
	}
	src(cfg.defaultSource)
}

// ---------------------------------------------------------------- the documented normalisation (oracle side)
//
// Written from the documentation ("matching is case-insensitive, Unicode-normalised, domains compared
// in U-label form") with golang.org/x/text and the raw Punycode codec only; nothing here calls
// framework/address or framework/dns.  An address/domain the documentation gives no reason to refuse
// HAS a key: domains are not checked against STD3 / IDNA2008 rules.

func c04AsciiLower(s string) string {
	b := []byte(s)
	for i, ch := range b {
		if ch >= 'A' && ch <= 'Z' {
			b[i] = ch + ('a' - 'A')
		}
	}
	return string(b)
}

func c04HasACE(label string) bool {
	return len(label) >= 4 && c04AsciiLower(label[:4]) == "xn--"
}

// lookup key of a domain: A-labels (prefix in any letter case) decoded, NFC, lower case, no trailing dot
func c04DocDomKey(d string) (string, bool) {
	labels := strings.Split(d, ".")
	for i, l := range labels {
		if !c04HasACE(l) {
			continue
		}
		for _, ch := range l {
			if ch >= 0x80 {
				return "", false // an A-label is ASCII
			}
		}
		u, err := idna.Punycode.ToUnicode(c04AsciiLower(l))
		if err != nil {
			return "", false
		}
		labels[i] = u
	}
	k := strings.ToLower(norm.NFC.String(strings.Join(labels, ".")))
	return strings.TrimSuffix(k, "."), true
}

// local part and domain of an address ("postmaster" has no domain)
func c04DocSplit(a string) (mbox, dom string, ok bool) {
	if strings.EqualFold(a, "postmaster") {
		return a, "", true
	}
	at := strings.LastIndex(a, "@")
	if at <= 0 || at == len(a)-1 {
		return "", "", false
	}
	return a[:at], a[at+1:], true
}

// lookup key of an envelope address / full-address rule
func c04DocKey(a string) (string, bool) {
	if a == "" {
		return "", true // null sender
	}
	mbox, dom, ok := c04DocSplit(a)
	if !ok {
		return "", false
	}
	mbox = strings.ToLower(norm.NFC.String(mbox))
	if dom == "" {
		return mbox, true
	}
	dk, ok := c04DocDomKey(dom)
	if !ok {
		return "", false
	}
	if dk == "" {
		return "", false // not generated ("x@xn--", "x@."): the documentation does not say
	}
	return mbox + "@" + dk, true
}

func c04DocNormRule(r string) (string, bool) {
	if strings.Contains(r, "@") {
		return c04DocKey(r)
	}
	return c04DocDomKey(r)
}

func c04DocValidDomain(d string) bool {
	if d == "" || len(d) > 255 || strings.HasPrefix(d, ".") || strings.Contains(d, "..") {
		return false
	}
	for _, l := range strings.Split(d, ".") {
		a := l
		if c04HasACE(l) { // in any letter case
			if _, err := idna.Punycode.ToUnicode(c04AsciiLower(l)); err != nil {
				return false
			}
		} else if x, err := idna.Punycode.ToASCII(l); err == nil {
			a = x
		} else {
			return false
		}
		if len(a) > 64 {
			return false
		}
	}
	return true
}

// is v usable as a replacement address (RFC 5321 mailbox; unquoted local parts only - quoted ones
// are not generated and are left to the real function)
func c04DocValid(v string) bool {
	if len(v) > 320 {
		return false
	}
	mbox, dom, ok := c04DocSplit(v)
	if !ok {
		return false
	}
	if dom == "" {
		return true
	}
	if strings.HasPrefix(mbox, `"`) {
		return address.ValidMailboxName(mbox) && c04DocValidDomain(dom)
	}
	for _, ch := range mbox {
		switch {
		case ch >= 0x80, ch >= '0' && ch <= '9', ch >= 'a' && ch <= 'z', ch >= 'A' && ch <= 'Z':
		case strings.ContainsRune("!#$%&'*+-/=?^_`{|}~.", ch):
		default:
			return false
		}
	}
	return c04DocValidDomain(dom)
}

// ---------------------------------------------------------------- oracle (the documented rules)

type c04Out struct {
	delivs  []c04Deliv
	refused bool
	reply   string // "" = a refusal that is not a configured reply (address cannot be normalised, modifier error)
}

// the REAL functions: only for the tables sent to the model (c04NormTokens), never in the oracle
func c04RealKey(a string) (string, bool) {
	k, err := address.ForLookup(a)
	return k, err == nil
}

func c04RealNormRule(r string) (string, bool) {
	var k string
	var err error
	if strings.Contains(r, "@") {
		k, err = address.ForLookup(r)
	} else {
		k, err = dns.ForLookup(r)
	}
	return k, err == nil
}

func c04RuleMatches(rules []string, k string) bool {
	for _, r := range rules {
		if n, ok := c04DocNormRule(r); ok && n == k {
			return true
		}
	}
	return false
}

// documented behaviour of replace_rcpt / replace_sender (docs/reference/modifiers/envelope.md):
// the whole normalised address is looked up first, then the local part alone; values without a
// domain get the domain of the original address.
func c04Replace(m c04Mod, a string) ([]string, bool) {
	stat := func(what string) {
		if c04PickStat != nil {
			c04PickStat("rewrite." + what)
		}
	}
	k, ok := c04DocKey(a)
	if !ok {
		stat("malformed")
		return nil, false
	}
	find := func(key string) []string {
		for _, e := range m.entries {
			if e.k == key {
				return e.vals
			}
		}
		return nil
	}
	if vals := find(k); len(vals) > 0 {
		for _, v := range vals {
			if !c04DocValid(v) {
				stat("full-address.invalid-value")
				return nil, false
			}
		}
		stat(fmt.Sprintf("full-address.to%d", min(len(vals), 3)))
		return vals, true
	}
	mbox, dom, splitOK := c04DocSplit(k)
	if !splitOK {
		stat("unsplittable-unchanged")
		return []string{a}, true
	}
	vals := find(mbox)
	if len(vals) == 0 {
		stat("unchanged")
		return []string{a}, true
	}
	var out []string
	for _, v := range vals {
		if strings.Contains(v, "@") && !strings.HasPrefix(v, `"`) && !strings.HasSuffix(v, `"`) {
			if !c04DocValid(v) {
				stat("local-part.invalid-value")
				return nil, false
			}
			stat("local-part.value-with-domain")
			out = append(out, v)
		} else {
			stat("local-part.value-gets-domain")
			out = append(out, v+"@"+dom)
		}
	}
	return out, true
}

func c04ModsOf(ns []*c04Node) []c04Mod {
	var out []c04Mod
	for _, n := range ns {
		if n.kind == "M" && n.ok {
			out = append(out, n.mods...)
		}
	}
	return out
}

func c04RwSender(ms []c04Mod, a string) (string, bool) {
	for _, m := range ms {
		if !m.sender {
			continue
		}
		r, ok := c04Replace(m, a)
		if !ok {
			return "", false
		}
		a = r[0]
	}
	return a, true
}

func c04RwRcpt(ms []c04Mod, as []string) ([]string, bool) {
	for _, m := range ms {
		if m.sender {
			continue
		}
		var next []string
		for _, a := range as {
			r, ok := c04Replace(m, a)
			if !ok {
				return nil, false
			}
			next = append(next, r...)
		}
		as = next
	}
	return as, true
}

// the block of a level that handles key k: (children of the block, ok); tblKind/ruleKind/dfltKind name
// the level's three block directives.  c04PickStat (when set) is told which rule of the precedence fired.
var c04PickStat func(string)

func c04Pick(ns []*c04Node, tblKind, ruleKind, dfltKind string, k string, nullSenderOK bool) ([]*c04Node, bool) {
	stat := func(what string) {
		if c04PickStat != nil {
			c04PickStat("sel." + ruleKind + "." + what)
		}
	}
	var hit *c04Node
	hits, laterFirst := 0, false
	for _, n := range ns { // 1. tables, in declaration order - whichever of them answers first
		if n.kind == tblKind && n.ok {
			for _, key := range n.keys {
				if key == k {
					hits++
					if hit == nil {
						hit = n
					} else if n.delay < hit.delay {
						laterFirst = true
					}
					break
				}
			}
		}
	}
	if hit != nil {
		stat("table")
		if hit.delay > 0 {
			stat("table.slow")
		}
		if hits > 1 {
			stat("table.several-match")
		}
		if laterFirst {
			stat("table.several-match.later-declared-answers-first")
		}
		return hit.ch, true
	}
	first := func(key string) *c04Node {
		var hit *c04Node
		hits := 0
		for _, n := range ns {
			if n.kind == ruleKind && c04RuleMatches(n.rules, key) {
				if hit == nil {
					hit = n
				}
				hits++
			}
		}
		if hits > 1 {
			stat("overlap-first-wins")
		}
		return hit
	}
	if n := first(k); n != nil { // 2. full-address rules, first declaration wins
		stat("address-rule")
		return n.ch, true
	}
	_, dom, splitOK := c04DocSplit(k)
	if !splitOK {
		if !(nullSenderOK && k == "") {
			stat("unsplittable")
			return nil, false
		}
		dom = ""
	}
	if n := first(dom); n != nil { // 3. domain rules
		stat("domain-rule")
		return n.ch, true
	}
	for _, n := range ns { // 4. default block ...
		if n.kind == dfltKind {
			if len(n.ch) > 0 {
				stat("default-block")
				return n.ch, true
			}
			break
		}
	}
	var rest []*c04Node // ... or "the entire block is the default block"
	for _, n := range ns {
		switch n.kind {
		case tblKind, ruleKind, dfltKind, "C", "M", "X":
		default:
			rest = append(rest, n)
		}
	}
	stat("default-implied")
	return rest, true
}

func c04Oracle(root []*c04Node, from, to string) c04Out {
	gm := c04ModsOf(root)
	f1, ok := c04RwSender(gm, from)
	if !ok {
		return c04Out{refused: true}
	}
	k := ""
	if f1 != "" {
		if k, ok = c04DocKey(f1); !ok {
			return c04Out{refused: true}
		}
	}
	src, ok := c04Pick(root, "SI", "SR", "SD", k, true)
	if !ok {
		return c04Out{refused: true}
	}
	sm := c04ModsOf(src)
	f2, ok := c04RwSender(sm, f1)
	if !ok {
		return c04Out{refused: true}
	}
	tos, ok := c04RwRcpt(gm, []string{to})
	if ok {
		tos, ok = c04RwRcpt(sm, tos)
	}
	if !ok {
		return c04Out{refused: true}
	}
	out := c04Out{}
	for _, t := range tos {
		rk, ok := c04DocKey(t)
		if !ok {
			out.refused = true
			return out
		}
		blk, ok := c04Pick(src, "TI", "RU", "DF", rk, false)
		if !ok {
			out.refused = true
			return out
		}
		var rej *c04Node
		for _, n := range blk {
			if n.kind == "RJ" && n.ok {
				rej = n
			}
		}
		if rej != nil {
			out.refused = true
			if rej.raw {
				out.reply, _ = c04DocReject(rej.args)
			} else {
				out.reply = fmt.Sprintf("%d/%d.%d.%d", rej.reply[0], rej.reply[1], rej.reply[2], rej.reply[3])
			}
			return out
		}
		finals, ok := c04RwRcpt(c04ModsOf(blk), []string{t})
		if !ok {
			out.refused = true
			return out
		}
		for _, ft := range finals {
			for _, n := range blk {
				switch n.kind {
				case "D":
					if n.darg >= 0 {
						out.delivs = append(out.delivs, c04Deliv{n.darg, f2, ft})
					}
				case "RR":
					sub := c04Oracle(n.ch, f2, ft)
					out.delivs = append(out.delivs, sub.delivs...)
					if sub.refused {
						out.refused, out.reply = true, sub.reply
						return out
					}
				}
			}
		}
	}
	return out
}

// ---------------------------------------------------------------- tables of the real normalisation functions

type c04Norm struct {
	key, dkey, vrule, vaddr map[string]bool
}

func c04Collect(ns []*c04Node, n *c04Norm, mboxVals map[string]bool) {
	for _, x := range ns {
		for _, r := range x.rules {
			if strings.Contains(r, "@") {
				n.key[r] = true
			} else {
				n.dkey[r] = true
			}
			if k, ok := c04RealNormRule(r); ok {
				n.vrule[k] = true
			}
		}
		for _, m := range x.mods {
			for _, e := range m.entries {
				for _, v := range e.vals {
					n.vaddr[v] = true
					n.key[v] = true
					if !(strings.Contains(v, "@") && !strings.HasPrefix(v, `"`) && !strings.HasSuffix(v, `"`)) {
						mboxVals[v] = true
					}
				}
			}
		}
		c04Collect(x.ch, n, mboxVals)
	}
}

func c04Sorted(m map[string]bool) []string {
	var ks []string
	for k := range m {
		ks = append(ks, k)
	}
	sort.Strings(ks)
	return ks
}

func c04NormTokens(c *c04Case) []string {
	n := &c04Norm{map[string]bool{}, map[string]bool{}, map[string]bool{}, map[string]bool{}}
	mboxVals := map[string]bool{}
	c04Collect(c.root, n, mboxVals)
	for _, e := range c.envs {
		n.key[e.from] = true
		for _, r := range e.rcpts {
			n.key[r] = true
		}
	}
	// closure: "value@domain" strings the modifiers can build
	for round := 0; round < 4; round++ {
		doms := map[string]bool{}
		for a := range n.key {
			if k, ok := c04RealKey(a); ok {
				if _, d, err := address.Split(k); err == nil {
					doms[d] = true
				}
			}
		}
		grew := false
		for v := range mboxVals {
			for d := range doms {
				s := v + "@" + d
				if !n.key[s] {
					n.key[s] = true
					grew = true
				}
			}
		}
		if !grew {
			break
		}
	}
	var b []string
	for _, a := range c04Sorted(n.key) {
		if k, ok := c04RealKey(a); ok {
			b = append(b, "k", c04S(a), c04S(k))
		} else {
			b = append(b, "k", c04S(a), "!")
		}
	}
	for _, a := range c04Sorted(n.dkey) {
		if k, err := dns.ForLookup(a); err == nil {
			b = append(b, "d", c04S(a), c04S(k))
		} else {
			b = append(b, "d", c04S(a), "!")
		}
	}
	for _, a := range c04Sorted(n.vrule) {
		if validMatchRule(a) {
			b = append(b, "v", c04S(a))
		}
	}
	for _, a := range c04Sorted(n.vaddr) {
		if address.Valid(a) {
			b = append(b, "a", c04S(a))
		}
	}
	return b
}

// ---------------------------------------------------------------- one case

func c04Decision(o c04RcptObs) string {
	var p []string
	for _, d := range o.delivs {
		fk, ok := c04DocKey(d.from)
		if !ok {
			fk = "!" + strings.ToLower(d.from)
		}
		tk, ok := c04DocKey(d.to)
		if !ok {
			tk = "!" + strings.ToLower(d.to)
		}
		p = append(p, fmt.Sprintf("%d,%s,%s", d.tgt, fk, tk))
	}
	return o.res + "[" + strings.Join(p, ";") + "]"
}

func c04Depth(ns []*c04Node) int {
	d := 0
	for _, n := range ns {
		x := c04Depth(n.ch)
		if n.kind == "RR" {
			x++
		}
		if x > d {
			d = x
		}
	}
	return d
}

func c04BadRejectIn(ns []*c04Node) []string {
	for _, n := range ns {
		if n.kind == "RJ" && !n.ok {
			if n.raw {
				q := []string{}
				for _, a := range n.args {
					q = append(q, c04CfgWord(a))
				}
				return q
			}
			return []string{"200"}
		}
		if bad := c04BadRejectIn(n.ch); bad != nil {
			return bad
		}
	}
	return nil
}

// input distribution of the 'reject' directives of a loaded configuration
func c04RejectStats(out *vh.Out, ns []*c04Node) {
	for _, n := range ns {
		c04RejectStats(out, n.ch)
		if n.kind != "RJ" || !n.ok {
			continue
		}
		if !n.raw {
			out.Stat("reject.legacy-token")
			continue
		}
		out.Stat(fmt.Sprintf("reject.args%d", len(n.args)))
		if len(n.args) >= 2 {
			if strings.TrimLeft(n.args[0], "+")[0] != n.args[1][0] {
				out.Stat("reject.classes-differ." + strings.TrimLeft(n.args[0], "+")[:1] + "xx-with-" + n.args[1][:1])
			} else {
				out.Stat("reject.classes-agree")
			}
		}
	}
}

func c04RunCase(t *testing.T, out *vh.Out, c *c04Case) {
	toks := c04Encode(c)
	toks = append(toks, "|")
	toks = append(toks, c04NormTokens(c)...)
	op := strings.Join(c04Pool(toks), " ")

	var text strings.Builder
	var tbls []*c04TableMod
	c04Render(&text, c.root, 0, "", &tbls)
	sched := &c04Sched{driver: c04Goid()}
	c04CurSched = sched
	for _, tm := range tbls {
		tm.sched = sched
		c04Register(tm)
	}
	nodes, err := parser.Read(strings.NewReader(text.String()), "c04")
	if err != nil {
		out.Note("c04: cfgparser refused generated text: " + err.Error() + " :: " + text.String())
		t.Errorf("cfgparser refused generated configuration: %v", err)
		return
	}
	p, err := New(nil, nodes)
	if err != nil {
		name := c04LoadErrName(err)
		out.Corr(op, "L:"+name)
		out.Stat("load.err." + strings.SplitN(name, ":", 2)[0])
		return
	}
	out.Stat("load.ok")
	out.Stat(fmt.Sprintf("load.ok.depth%d", c04Depth(c.root)))
	c04RejectStats(out, c.root)
	// T3: a 'reject' whose arguments are not a refusal reply (no 4xx/5xx basic code, no enhanced code of class 4 or 5, empty
	// description, too many arguments) is not a decision for the block; the configuration must not load
	if bad := c04BadRejectIn(c.root); bad != nil {
		out.Violation("C04/malformed-reject-accepted", op, fmt.Sprintf("configuration with 'reject %s' was accepted\n%s", strings.Join(bad, " "), text.String()))
	}
	c04PickStat = out.Stat
	c04SchedStat = out.Stat
	defer func() { c04PickStat, c04SchedStat = nil, nil }()

	// T3: every loaded block carries a decision
	incomplete := 0
	c04WalkBlocks(&p.msgpipelineCfg, func(b *rcptBlock) {
		if len(b.targets) == 0 && b.rejectErr == nil {
			incomplete++
		}
	})
	if incomplete > 0 {
		out.Violation("C04/incomplete-config-accepted", op,
			fmt.Sprintf("%d loaded destination block(s) have neither a delivery target nor a reject reply; configuration:\n%s", incomplete, text.String()))
	}

	obsLine := []string{"L:ok"}
	var prev c04EnvObs
	var prevEnv c04Env
	for _, e := range c.envs {
		obs, bad := c04RunEnv(p, e)
		if bad != "" {
			out.Note("c04: " + bad + " :: " + op)
			t.Errorf("c04: %s", bad)
		}
		seg := "| M:" + obs.mail
		for _, r := range obs.rcpts {
			seg += " R:" + r.res + c04ShowDelivs(r.delivs)
		}
		obsLine = append(obsLine, seg)
		if obs.mail == "ok" {
			out.Stat("mail.ok")
		} else {
			out.Stat("mail.refused." + obs.mail)
		}
		if cl := c04DomClass(e.from); cl != "" && cl != "main" {
			out.Stat("sender.domain." + cl + map[bool]string{true: ".accepted", false: ".refused"}[obs.mail == "ok"])
		}

		// T3: documented precedence, evaluated on the configuration tree
		for i, r := range e.rcpts {
			want := c04Oracle(c.root, e.from, r)
			if obs.mail != "ok" {
				// MAIL refused: the oracle must refuse too, without any hand-off
				if !want.refused || len(want.delivs) != 0 {
					out.Violation("C04/precedence", op, fmt.Sprintf("MAIL FROM %q refused with %s, documented rules accept it (rcpt %q)", e.from, obs.mail, r))
				}
				continue
			}
			got := obs.rcpts[i]
			ok := c04ShowDelivs(got.delivs) == c04ShowDelivs(want.delivs) && (got.res != "ok") == want.refused
			if ok && want.refused && want.reply != "" && got.res != want.reply {
				ok = false
			}
			if !ok {
				out.Violation("C04/precedence", op, fmt.Sprintf("from %q rcpt %q: real %s%s, documented rules refused=%v reply=%q %s\n%s",
					e.from, r, got.res, c04ShowDelivs(got.delivs), want.refused, want.reply, c04ShowDelivs(want.delivs), text.String()))
			}
			if got.res == "ok" && len(got.delivs) == 0 {
				out.Violation("C04/silent-drop", op, fmt.Sprintf("from %q rcpt %q accepted, no delivery target saw it\n%s", e.from, r, text.String()))
			}
			switch {
			case got.res == "ok":
				out.Stat(fmt.Sprintf("rcpt.ok.handoffs%d", min(len(got.delivs), 4)))
			case want.reply != "":
				out.Stat("rcpt.refused.configured")
				if want.reply[0] != want.reply[4] {
					out.Stat("rcpt.refused.configured.classes-differ")
				}
				if strings.Count(want.reply, "/") > 1 {
					out.Stat("rcpt.refused.configured.own-message")
				}
			default:
				out.Stat("rcpt.refused." + got.res)
			}
			if got.res != "ok" && len(got.delivs) > 0 {
				out.Stat("rcpt.refused.after-partial-handoff")
			}
			if cl := c04DomClass(r); cl != "" && cl != "main" {
				out.Stat("rcpt.domain." + cl + map[bool]string{true: ".accepted", false: ".refused"}[got.res == "ok"])
			}
			if cl := c04LocalClass(r); cl != "" {
				out.Stat("rcpt.local." + cl + map[bool]string{true: ".accepted", false: ".refused"}[got.res == "ok"])
			}
		}

		// T3: spelling variants with equal lookup keys get the same decision
		if e.variant {
			same := obs.mail == prev.mail && len(obs.rcpts) == len(prev.rcpts)
			if same {
				for i := range obs.rcpts {
					if c04Decision(obs.rcpts[i]) != c04Decision(prev.rcpts[i]) {
						same = false
					}
				}
			}
			if !same {
				out.Violation("C04/spelling-sensitive", op, fmt.Sprintf("envelopes %q %q and %q %q have equal lookup keys and are routed differently\n%s",
					prevEnv.from, prevEnv.rcpts, e.from, e.rcpts, text.String()))
			}
			out.Stat("variant.pairs")
		}
		prev, prevEnv = obs, e
	}
	out.Corr(op, strings.Join(obsLine, " "))
}

// ---------------------------------------------------------------- generator

var c04Domains = [][]string{
	{"example.org", "EXAMPLE.ORG", "Example.Org", "example.org."},
	{"example.com", "EXAMPLE.com"},
	{"m\u00fcnchen.de", "mu\u0308nchen.de", "xn--mnchen-3ya.de", "XN--MNCHEN-3YA.DE", "M\u00dcNCHEN.DE", "Xn--Mnchen-3ya.de"},
	{"sub.example.org", "SUB.Example.org"},
}

// Domains maddy accepts in envelopes, match rules and replacement values (address.Valid,
// validMatchRule) that are NOT clean STD3 / IDNA2008 host names.  The documentation gives them no
// special treatment: they match their own rules (in any letter case) and otherwise go to the default
// block.  One row = one equivalence class.
var c04OddDomains = [][]string{
	{"build_host.example.net", "BUILD_Host.Example.NET", "build_host.example.net."},
	{"[192.0.2.1]"},
	{"[IPv6:2001:db8::1]", "[IPv6:2001:DB8::1]", "[ipv6:2001:db8::1]"},
	{"ab--c.example.net", "AB--C.example.net"},
	{"3com.example", "3COM.Example"},
	{"localhost", "LOCALHOST", "localhost."},
	{"-lead.example.org", "-LEAD.Example.org"},
	{"trail-.example.org", "Trail-.EXAMPLE.org"},
	{"a\u200db.example.org", "A\u200dB.example.org"},
	{"stra\u00dfe.de", "xn--strae-oqa.de", "Stra\u00dfe.DE", "XN--STRAE-OQA.de"},
	{"1.2.3.4"},
	{"_dmarc.sub.example.org", "_DMARC.Sub.Example.org"},
}

var c04OddNames = []string{"underscore", "ipv4-literal", "ipv6-literal", "hyphen34", "leading-digit", "single-label",
	"leading-hyphen", "trailing-hyphen", "joiner", "sharp-s", "all-numeric", "underscore-sub",
	"mix.dotted-I", "mix.angstrom", "mix.tonos", "mix.sigma", "mix.j-caron"}

// Domains with letters for which case mapping and normalisation interact: U+0130 (its NFD form is
// I + U+0307; lower case of the NFC form is plain i), U+212B ANGSTROM SIGN (NFC: U+00C5), Greek with
// tonos (U+0386 / U+0391 U+0301 / oxia U+1F71), capital sigma at the end of a word (lower case by
// the simple mapping: U+03C3, never the final form), U+01F0 (precomposed in lower case only).  One row
// = one domain by the documented normalisation (NFC, then lower case, A-labels decoded): every
// spelling of a row is the same domain in another letter case / normalisation form / as A-label.
var c04MixDomains = [][]string{
	{"istanbul.example", "\u0130stanbul.example", "I\u0307stanbul.example", "ISTANBUL.Example"},
	{"\u00e5ngstr\u00f6m.example", "\u212bngstr\u00f6m.example", "A\u030angstro\u0308m.EXAMPLE", "xn--ngstrm-hua5l.example", "XN--NGSTRM-HUA5L.Example", "\u00c5NGSTR\u00d6M.example"},
	{"\u03ac\u03bb\u03c6\u03b1.example", "\u0386\u039b\u03a6\u0391.example", "\u0391\u0301\u039b\u03a6\u0391.example", "\u1f71\u03bb\u03c6\u03b1.example", "\u03b1\u0301\u03bb\u03c6\u03b1.example", "xn--hxak3a7b.example"},
	{"\u03ba\u03ce\u03c3\u03c4\u03b1\u03c3.example", "\u039a\u038f\u03a3\u03a4\u0391\u03a3.example", "\u039a\u03a9\u0301\u03a3\u03a4\u0391\u03a3.EXAMPLE", "\u03ba\u03c9\u0301\u03c3\u03c4\u03b1\u03c3.example", "xn--mxar1abd2d.example"},
	{"\u01f0an.example", "j\u030can.example", "xn--an-t5a.example", "\u01f0an.EXAMPLE."},
}

// c04Domains followed by c04OddDomains and c04MixDomains; c04Addr.d indexes this table
var c04AllDomains = append(append(append([][]string{}, c04Domains...), c04OddDomains...), c04MixDomains...)

// "main" or the name of the odd class the domain of a belongs to ("" = not from the alphabet)
func c04DomClass(a string) string {
	at := strings.LastIndex(a, "@")
	if at < 0 {
		return ""
	}
	for i, r := range c04AllDomains {
		for _, v := range r {
			if v == a[at+1:] {
				if i < len(c04Domains) {
					return "main"
				}
				return c04OddNames[i-len(c04Domains)]
			}
		}
	}
	return ""
}

// "unusual" when the local part of a is quoted or comes from c04OddLocals
func c04LocalClass(a string) string {
	at := strings.LastIndex(a, "@")
	if at <= 0 {
		return ""
	}
	if strings.HasPrefix(a, `"`) {
		return "quoted"
	}
	for _, r := range c04OddLocals {
		for _, v := range r {
			if v == a[:at] {
				return "unusual"
			}
		}
	}
	for _, r := range c04MixLocals {
		for _, v := range r {
			if v == a[:at] {
				return "case-norm-mix"
			}
		}
	}
	return ""
}

var c04Locals = [][]string{
	{"alice", "ALICE", "Alice"},
	{"bob", "Bob"},
	{"\u00e9", "e\u0301", "\u00c9"},
	{"carol", "CAROL"},
}

// unusual but valid local parts (RFC 5321 atext, digits only); one row = one equivalence class
var c04OddLocals = [][]string{
	{"first.last+tag", "First.Last+TAG"},
	{"o'brien", "O'Brien"},
	{"user_name", "USER_NAME"},
	{"42"},
	{"a=b~c", "A=B~C"},
}

// local parts with the letters of c04MixDomains; one row = one local part by the documented
// normalisation (NFC, then lower case) in several spellings
var c04MixLocals = [][]string{
	{"ibrahim", "\u0130brahim", "I\u0307brahim", "IBRAHIM", "\u0130BRAH\u0130M", "I\u0307BRAHI\u0307M"},
	{"\u00e5ngstr\u00f6m", "\u212bngstr\u00f6m", "A\u030angstro\u0308m", "\u00c5NGSTR\u00d6M", "a\u030aNGSTRO\u0308M"},
	{"\u03ac\u03bb\u03c6\u03b1", "\u0386\u039b\u03a6\u0391", "\u0391\u0301\u039b\u03a6\u0391", "\u1f71\u03bb\u03c6\u03b1", "\u03b1\u0301\u03bb\u03c6\u03b1"},
	{"\u03ba\u03ce\u03c3\u03c4\u03b1\u03c3", "\u039a\u038f\u03a3\u03a4\u0391\u03a3", "\u039a\u03a9\u0301\u03a3\u03a4\u0391\u03a3", "\u03ba\u03c9\u0301\u03c3\u03c4\u03b1\u03c3"},
	{"\u01f0an", "j\u030can"},
}

// c04Locals followed by c04OddLocals and c04MixLocals; c04Addr.l indexes this table
var c04AllLocals = append(append(append([][]string{}, c04Locals...), c04OddLocals...), c04MixLocals...)

// The rows of the alphabet are equivalence classes by construction; this is a test of the harness (not
// of maddy): the oracle's statement of the documented normalisation gives every spelling of a row the
// same key and different rows different keys.
func c04CheckAlphabet(t *testing.T) {
	seen := map[string]int{}
	for i, row := range c04AllDomains {
		k0, ok := c04DocDomKey(row[0])
		if !ok {
			t.Fatalf("c04 alphabet: domain %q has no key", row[0])
		}
		for _, v := range row {
			if k, ok := c04DocDomKey(v); !ok || k != k0 {
				t.Fatalf("c04 alphabet: domain spellings %q and %q of row %d differ: %+q %+q", row[0], v, i, k0, k)
			}
		}
		if j, dup := seen["d:"+k0]; dup {
			t.Fatalf("c04 alphabet: domain rows %d and %d are the same domain", j, i)
		}
		seen["d:"+k0] = i
	}
	for i, row := range c04AllLocals {
		k0, _ := c04DocKey(row[0] + "@example.org")
		for _, v := range row {
			if k, ok := c04DocKey(v + "@example.org"); !ok || k != k0 {
				t.Fatalf("c04 alphabet: local part spellings %q and %q of row %d differ: %+q %+q", row[0], v, i, k0, k)
			}
		}
		if j, dup := seen["l:"+k0]; dup {
			t.Fatalf("c04 alphabet: local part rows %d and %d are the same", j, i)
		}
		seen["l:"+k0] = i
	}
}

// the last two: quoted local parts (envelopes only; the key keeps the quotes)
var c04OddAddrs = []string{"", "postmaster", "POSTMASTER", "nodomain", "alice@xn--zz", "alice@", "@example.org",
	`"john doe"@example.org`, `"a@b"@EXAMPLE.com`}
var c04BadRules = []string{"..", "xn--zz", "a..b", "alice@a..b", "@example.org"}

type c04Gen struct {
	r *vh.Rng
	// per-block probability (in 1/1000) of the defects a configuration can have
	defect int
	// % of the domains (envelopes, rules, table keys, replacement values) taken from c04OddDomains
	oddPct int
	// % of the domains and of the local parts taken from c04MixDomains / c04MixLocals
	mixPct int
	// % of the levels with rule blocks that get 2-4 table blocks sharing keys, with scripted latencies
	multiPct int
	// addresses that are keys of several tables of the configuration: envelopes use them often
	hot []c04Addr
}

type c04Addr struct{ l, d int }

// index into c04AllDomains: mostly the four ordinary domains (so that rules and envelopes keep meeting),
// now and then one of the unusual ones
func (g *c04Gen) dom() int {
	if g.r.Chance(g.mixPct) {
		return len(c04Domains) + len(c04OddDomains) + g.r.Intn(len(c04MixDomains))
	}
	if g.r.Chance(g.oddPct) {
		return len(c04Domains) + g.r.Intn(len(c04OddDomains))
	}
	return g.r.Intn(len(c04Domains))
}
func (g *c04Gen) loc() int {
	if g.r.Chance(g.mixPct) {
		return len(c04Locals) + len(c04OddLocals) + g.r.Intn(len(c04MixLocals))
	}
	if g.r.Chance(g.oddPct / 3) {
		return len(c04Locals) + g.r.Intn(len(c04OddLocals))
	}
	return g.r.Intn(len(c04Locals))
}
func (g *c04Gen) addr() c04Addr {
	return c04Addr{g.loc(), g.dom()}
}
func (g *c04Gen) spell(a c04Addr) string {
	ls, ds := c04AllLocals[a.l], c04AllDomains[a.d]
	if g.r.Chance(55) {
		return ls[0] + "@" + ds[0]
	}
	return ls[g.r.Intn(len(ls))] + "@" + ds[g.r.Intn(len(ds))]
}
func (g *c04Gen) spellDom(d int) string {
	ds := c04AllDomains[d]
	if g.r.Chance(50) {
		return ds[0]
	}
	return ds[g.r.Intn(len(ds))]
}
func (g *c04Gen) keyOf(a c04Addr) string {
	k, _ := c04DocKey(c04AllLocals[a.l][0] + "@" + c04AllDomains[a.d][0])
	return k
}
func (g *c04Gen) hit(perMille int) bool { return g.r.Intn(1000) < perMille }

func (g *c04Gen) rules() []string {
	n := 1 + g.r.Intn(3)
	var out []string
	for i := 0; i < n; i++ {
		switch {
		case g.hit(g.defect):
			out = append(out, g.r.Pick(c04BadRules...))
		case g.r.Chance(50):
			out = append(out, g.spellDom(g.dom()))
		case g.r.Chance(8):
			out = append(out, g.r.Pick("postmaster", "POSTMASTER"))
		default:
			out = append(out, g.spell(g.addr()))
		}
	}
	if g.hit(g.defect) {
		return nil
	}
	return out
}

func (g *c04Gen) tableKeys(sender bool) []string {
	n := 1 + g.r.Intn(3)
	var out []string
	for i := 0; i < n; i++ {
		switch {
		case g.r.Chance(8):
			out = append(out, g.spell(g.addr())) // possibly not normalised: can only match by accident
		case sender && g.r.Chance(10):
			out = append(out, "")
		case g.r.Chance(6):
			out = append(out, "postmaster")
		case g.r.Chance(5):
			out = append(out, c04AllDomains[g.dom()][0]) // a bare domain never matches
		default:
			out = append(out, g.keyOf(g.addr()))
		}
	}
	return out
}

// answer latency of a table module (units of virtual time)
func (g *c04Gen) latency() int {
	switch {
	case g.r.Chance(50):
		return 0
	case g.r.Chance(6):
		return 30 + g.r.Intn(90)
	}
	return 1 + g.r.Intn(9)
}

func (g *c04Gen) modNode(level int) *c04Node {
	if g.hit(g.defect) {
		return &c04Node{kind: "M"}
	}
	n := &c04Node{kind: "M", ok: true}
	nm := 1 + g.r.Intn(2)
	for i := 0; i < nm; i++ {
		m := c04Mod{sender: level < 2 && g.r.Chance(30) || level == 2 && g.r.Chance(8)}
		ne := 1 + g.r.Intn(3)
		seen := map[string]bool{}
		for j := 0; j < ne; j++ {
			var k string
			bare := 6 // % of values without a domain
			switch {
			case g.r.Chance(45):
				k = g.keyOf(g.addr())
			case g.r.Chance(75):
				k, _ = c04DocKey(c04AllLocals[g.loc()][0] + "@x")
				k = strings.TrimSuffix(k, "@x")
				bare = 45
			case g.r.Chance(30):
				k = "postmaster"
			default:
				k = g.spell(g.addr())
			}
			if seen[k] {
				continue
			}
			seen[k] = true
			e := c04Entry{k: k}
			nv := 1
			if !m.sender && g.r.Chance(45) {
				nv = 2 + g.r.Intn(2)
			}
			for v := 0; v < nv; v++ {
				switch {
				case g.r.Intn(1000) < 25:
					e.vals = append(e.vals, g.r.Pick("a@b@example.org", "alice@a..b", "@example.org"))
				case g.r.Chance(bare):
					e.vals = append(e.vals, g.r.Pick("carol", "bob", "Dave", "\u00e9"))
				case g.r.Chance(4):
					e.vals = append(e.vals, "postmaster")
				default:
					e.vals = append(e.vals, g.spell(g.addr()))
				}
			}
			m.entries = append(m.entries, e)
		}
		n.mods = append(n.mods, m)
	}
	return n
}

func (g *c04Gen) reply() [4]int {
	if g.r.Chance(15) {
		return [4]int{554, 5, 7, 0}
	}
	if g.r.Chance(25) {
		return [4]int{450 + g.r.Intn(10), 4, 7, g.r.Intn(10)}
	}
	return [4]int{550 + g.r.Intn(10), 5, 7, g.r.Intn(10)}
}

// arguments of 'reject' that the parser has to refuse
var c04BadRejects = [][]string{
	{"200"}, {"250", "2.0.0"}, {"399"}, {"600"}, {"650", "5.7.1"}, {"-450"}, {"45"}, {"4500"}, {"abc"}, {"4xx"}, {"5.7.1"}, {"550.0"},
	{"99999999999999999999"}, {"550", "2.0.0"}, {"550", "3.7.1"}, {"450", "6.7.1"}, {"550", "0.7.1"}, {"550", "-5.7.1"}, {"550", "5.7"}, {"550", "5"},
	{"550", "5.7.1.2"}, {"550", "5.7."}, {"550", ".7.1"}, {"550", "5..1"}, {"550", "5.x.1"}, {"550", "5.7.one"}, {"550", "5,7,1"},
	{"550", "571"}, {"550", "denied"}, {"550", "5.7.99999999999999999999"}, {"5.7.1", "550"}, {"550", "5.7.1", ""}, {"450", "4.7.1", "Try again", "later"},
	{"550", "5.7.1", "No", "such", "user"}, {"denied"}, {"250", "5.7.1", "fine"}, {"550", "2.7.1", "fine"}, {"", "5.7.1"}, {"550", ""},
}

var c04RejectMsgs = []string{
	"Try again later", "No such user", "Mailbox is gone", "Relaying denied", "Denied", "denied", "Sender blocked for now",
	"550 5.1.1 No such user here", "4.7.1", "250 OK", "Benutzer unbekannt: M\u00fcller", "\u30e6\u30fc\u30b6\u30fc\u4e0d\u660e",
	"Message rejected due to local policy", "message rejected due to a local policy", "Message rejected due to a local policy.",
	" leading and trailing space ", "x", "a; b, c: d! (e) [f] <g@example.org> 100%", "it's over", "tab\there",
	"a rather long description of the reason why this particular message is not going to be accepted by this particular server, today or any other day",
}

// Arguments of a well-formed 'reject' in every documented form (1 = basic code, 2 = + enhanced code, 3 = + description).  The
// basic code and the enhanced code are chosen independently of each other: every 4xx/5xx code, enhanced class 4 or 5 whatever the
// class of the basic code is, subject/detail numbers with 1-3 digits (now and then with leading zeros, a sign, or larger).
func (g *c04Gen) rejectArgs() []string {
	var code int
	switch x := g.r.Intn(100); {
	case x < 40:
		code = []int{421, 450, 451, 452, 454, 455, 550, 551, 552, 553, 554, 556, 521, 571}[g.r.Intn(14)]
	case x < 55:
		code = []int{400, 499, 500, 599, 404, 503, 504, 535, 530, 432}[g.r.Intn(10)]
	default:
		code = 400 + g.r.Intn(200)
	}
	args := []string{strconv.Itoa(code)}
	if g.r.Chance(2) {
		args[0] = "+" + args[0]
	}
	n := 1
	switch x := g.r.Intn(100); {
	case x < 14:
	case x < 60:
		n = 2
	default:
		n = 3
	}
	if n >= 2 {
		cls := code / 100
		if g.r.Chance(40) {
			cls = 9 - cls // the other class
		}
		num := func() string {
			var v int
			switch x := g.r.Intn(100); {
			case x < 70:
				v = g.r.Intn(10)
			case x < 90:
				v = 10 + g.r.Intn(90)
			case x < 97:
				v = 100 + g.r.Intn(900)
			default:
				v = []int{1000, 65535, 65536, 2147483647, 2147483648}[g.r.Intn(5)]
			}
			t := strconv.Itoa(v)
			switch x := g.r.Intn(100); {
			case x < 3:
				t = "0" + t
			case x < 4:
				t = "+" + t
			case x < 5:
				t = "-" + t
			}
			return t
		}
		args = append(args, strconv.Itoa(cls)+"."+num()+"."+num())
	}
	if n == 3 {
		args = append(args, c04RejectMsgs[g.r.Intn(len(c04RejectMsgs))])
	}
	return args
}

// directives of a destination block
func (g *c04Gen) items(depth int) []*c04Node {
	var out []*c04Node
	if g.r.Chance(12) {
		out = append(out, &c04Node{kind: "C", ok: !g.hit(g.defect)})
	}
	if g.r.Chance(30) {
		out = append(out, g.modNode(2))
	}
	tgt := func() *c04Node {
		switch {
		case g.hit(g.defect):
			return &c04Node{kind: "D", darg: -2}
		case g.hit(g.defect):
			return &c04Node{kind: "D", darg: -1}
		}
		return &c04Node{kind: "D", darg: g.r.Intn(c04NTargets)}
	}
	rr := func() *c04Node {
		if g.hit(g.defect) {
			return &c04Node{kind: "RR"}
		}
		return &c04Node{kind: "RR", ch: g.root(depth - 1)}
	}
	rj := func() *c04Node {
		if g.hit(g.defect) || g.r.Chance(2) {
			if g.r.Chance(10) {
				return &c04Node{kind: "RJ"}
			}
			args := c04BadRejects[g.r.Intn(len(c04BadRejects))]
			return &c04Node{kind: "RJ", raw: true, args: append([]string{}, args...)}
		}
		if g.r.Chance(35) {
			return &c04Node{kind: "RJ", ok: true, reply: g.reply()}
		}
		return &c04Node{kind: "RJ", ok: true, raw: true, args: g.rejectArgs()}
	}
	switch x := g.r.Intn(100); {
	case g.hit(g.defect * 2):
		// no decision at all
	case x < 22:
		out = append(out, rj())
		if g.r.Chance(6) {
			out = append(out, rj())
		}
		if g.hit(g.defect * 2) {
			out = append(out, tgt())
		}
		if depth > 0 && g.hit(g.defect*2) {
			out = append(out, rr())
		}
	case x < 36 && depth > 0:
		if g.r.Chance(30) {
			out = append(out, tgt())
		}
		out = append(out, rr())
		if g.r.Chance(25) {
			out = append(out, tgt())
		}
	default:
		out = append(out, tgt())
		if g.r.Chance(35) {
			out = append(out, tgt())
		}
		if g.hit(g.defect * 2) {
			out = append(out, rj())
		}
	}
	if g.r.Chance(6) {
		out = append(out, g.modNode(2))
	}
	if g.hit(g.defect) {
		out = append(out, &c04Node{kind: "X", xvar: g.r.Intn(8)})
	}
	return out
}

// directives of a level with match rules: level 1 = body of a source block, level 0 = pipeline root
func (g *c04Gen) level(level, depth int) []*c04Node {
	tblK, ruleK, dfltK := "TI", "RU", "DF"
	body := func() []*c04Node { return g.items(depth) }
	if level == 0 {
		tblK, ruleK, dfltK = "SI", "SR", "SD"
		body = func() []*c04Node { return g.level(1, depth) }
	}
	var out []*c04Node
	if g.r.Chance(10) {
		out = append(out, &c04Node{kind: "C", ok: !g.hit(g.defect)})
	}
	if g.r.Chance(map[int]int{0: 30, 1: 22}[level]) {
		out = append(out, g.modNode(level))
	}
	flatPct := 28
	if level == 0 {
		flatPct = 22
	}
	tbl := func() *c04Node {
		if g.hit(g.defect) {
			return &c04Node{kind: tblK, ch: body()}
		}
		return &c04Node{kind: tblK, ok: true, keys: g.tableKeys(level == 0), delay: g.latency(), ch: body()}
	}
	if g.r.Chance(flatPct) {
		// no rule blocks: the rest of the level is the default block
		if g.r.Chance(25) {
			out = append(out, tbl())
		}
		var inner []*c04Node
		if level == 0 {
			inner = g.level(1, depth)
		} else {
			inner = g.items(depth)
		}
		// checks / modifiers of the inner level stay where they are only when that makes sense:
		// at the root they would become global ones, which is fine (they are rendered in place)
		out = append(out, inner...)
		if g.hit(g.defect) {
			out = append(out, &c04Node{kind: dfltK}) // empty default block next to handling directives
		}
		return out
	}
	var blocks []*c04Node
	nt := 0
	if g.r.Chance(35) {
		nt = 1 + g.r.Intn(2)
	}
	for i := 0; i < nt; i++ {
		blocks = append(blocks, tbl())
	}
	if g.r.Chance(g.multiPct) {
		// several table blocks that contain the same addresses; the latencies are all different, so
		// the order in which the modules answer is any order relative to the declaration order
		blocks = nil
		nt = 2 + g.r.Intn(3)
		shared := []c04Addr{g.addr()}
		if g.r.Chance(40) {
			shared = append(shared, g.addr())
		}
		g.hot = append(g.hot, shared...)
		lat := []int{0, 1, 2, 3, 5, 8, 40}
		for i := len(lat) - 1; i > 0; i-- {
			j := g.r.Intn(i + 1)
			lat[i], lat[j] = lat[j], lat[i]
		}
		for i := 0; i < nt; i++ {
			b := tbl()
			if b.ok {
				b.delay = lat[i]
				for _, a := range shared {
					if g.r.Chance(75) {
						b.keys = append(b.keys, g.keyOf(a))
					}
				}
			}
			blocks = append(blocks, b)
		}
	}
	nr := 1 + g.r.Intn(3)
	for i := 0; i < nr; i++ {
		blocks = append(blocks, &c04Node{kind: ruleK, rules: g.rules(), ch: body()})
	}
	// declaration order of table and rule blocks is mixed
	for i := len(blocks) - 1; i > 0; i-- {
		j := g.r.Intn(i + 1)
		blocks[i], blocks[j] = blocks[j], blocks[i]
	}
	dflt := &c04Node{kind: dfltK, ch: body()}
	switch {
	case g.hit(g.defect):
		// default block missing
	case g.hit(g.defect):
		blocks = append(blocks, &c04Node{kind: dfltK}) // empty default block
	case g.hit(g.defect):
		blocks = append(blocks, dflt, &c04Node{kind: dfltK, ch: body()}) // duplicate
	case g.r.Chance(20):
		blocks = append([]*c04Node{dflt}, blocks...)
	default:
		blocks = append(blocks, dflt)
	}
	out = append(out, blocks...)
	if g.hit(g.defect) {
		// handling directive next to rule blocks
		if level == 0 && g.r.Bool() {
			out = append(out, &c04Node{kind: "RU", rules: g.rules(), ch: g.items(depth)})
		} else {
			out = append(out, &c04Node{kind: "D", darg: g.r.Intn(c04NTargets)})
		}
	}
	if g.hit(g.defect) {
		out = append(out, &c04Node{kind: "X", xvar: g.r.Intn(8)})
	}
	return out
}

func (g *c04Gen) root(depth int) []*c04Node { return g.level(0, depth) }

func (g *c04Gen) envAddr(sender bool) string {
	if len(g.hot) > 0 && g.r.Chance(40) {
		return g.spell(g.hot[g.r.Intn(len(g.hot))])
	}
	switch {
	case g.r.Chance(12):
		if sender {
			return g.r.Pick(c04OddAddrs...)
		}
		return g.r.Pick(c04OddAddrs[1:]...)
	case !sender && g.r.Chance(2):
		return ""
	}
	return g.spell(g.addr())
}

// another spelling of the same address, or the address itself.  Which spellings denote one
// address is decided by the generator's own tables (each row of c04Locals / c04Domains is one
// equivalence class by construction: letter case, NFC/NFD, A-label/U-label, trailing dot) - NOT by
// the ForLookup under test, so a normaliser that stops identifying two spellings is seen as
// spelling-sensitive routing instead of silently shrinking the set of variants that are tried.
func (g *c04Gen) respell(a string) string {
	if a == "" {
		return a
	}
	if strings.EqualFold(a, "postmaster") {
		for try := 0; try < 6; try++ {
			if b := g.r.Pick("postmaster", "POSTMASTER", "PostMaster"); b != a {
				return b
			}
		}
		return a
	}
	at := strings.LastIndex(a, "@")
	if at <= 0 {
		return a
	}
	row := func(tab [][]string, x string) int {
		for i, r := range tab {
			for _, v := range r {
				if v == x {
					return i
				}
			}
		}
		return -1
	}
	li, di := row(c04AllLocals, a[:at]), row(c04AllDomains, a[at+1:])
	if li < 0 || di < 0 {
		return a
	}
	for try := 0; try < 6; try++ {
		b := g.r.Pick(c04AllLocals[li]...) + "@" + g.r.Pick(c04AllDomains[di]...)
		if b != a {
			return b
		}
	}
	return a
}

func (g *c04Gen) gen() *c04Case {
	depth := 0
	switch x := g.r.Intn(100); {
	case x < 30:
		depth = 1
	case x < 50:
		depth = 2
	}
	c := &c04Case{root: g.root(depth)}
	c.depth = c04Depth(c.root)
	ne := 2 + g.r.Intn(3)
	for i := 0; i < ne; i++ {
		e := c04Env{from: g.envAddr(true)}
		nr := 1 + g.r.Intn(3)
		for j := 0; j < nr; j++ {
			e.rcpts = append(e.rcpts, g.envAddr(false))
		}
		c.envs = append(c.envs, e)
		if g.r.Chance(60) {
			v := c04Env{variant: true, from: g.respell(e.from)}
			for _, r := range e.rcpts {
				v.rcpts = append(v.rcpts, g.respell(r))
			}
			c.envs = append(c.envs, v)
		}
	}
	return c
}

// ---------------------------------------------------------------- test entry point

func TestVerifC04Routing(t *testing.T) {
	out := vh.Open("c04_routing")
	defer out.Close()
	saved := log.DefaultLogger.Out
	log.DefaultLogger.Out = log.NopOutput{}
	defer func() { log.DefaultLogger.Out = saved }()
	for i := 0; i < c04NTargets; i++ {
		c04Register(&c04Target{id: i})
	}
	// cfgparser.Read builds a strings.Replacer from the whole environment on every call: keep the
	// environment small (nothing in a generated configuration refers to it)
	for _, kv := range os.Environ() {
		name := strings.SplitN(kv, "=", 2)[0]
		if !(strings.HasPrefix(name, "VERIF_") || strings.HasPrefix(name, "GO") || name == "PATH" || name == "HOME" || name == "TMPDIR") {
			os.Unsetenv(name)
		}
	}
	// thousands of short-lived configurations: collect less often
	defer debug.SetGCPercent(debug.SetGCPercent(300))

	c04CheckAlphabet(t)

	// laws of the real normalisation functions the theorems assume
	if k, err := address.ForLookup(""); err != nil || k != "" {
		out.Violation("C04/law-empty-key", "C04 law empty-key", fmt.Sprintf("address.ForLookup(\"\") = %q, %v", k, err))
	}

	if ops := vh.Replay(); ops != nil {
		for _, op := range ops {
			if strings.HasPrefix(op, "C04 case ") {
				c04RunCase(t, out, c04Decode(op))
			}
		}
		return
	}

	// fixed cases: the documentation's own examples and the divergence candidates of DESIGN.md §6 (e)
	for _, op := range c04Fixed {
		c04RunCase(t, out, c04Decode(op))
	}

	n := vh.N(1500)
	rng := vh.NewRng(vh.Seed() + 4)
	for i := 0; i < n; i++ {
		g := &c04Gen{r: rng.Fork()}
		switch i % 10 {
		case 0, 1, 2:
			g.defect = 0 // only well-formed configurations
		case 3, 4, 5, 6:
			g.defect = 2
		case 7, 8:
			g.defect = 8
		default:
			g.defect = 40 // mostly refused ones
		}
		switch (i / 10) % 4 {
		case 0, 1:
			g.oddPct = 12
		case 2:
			g.oddPct = 4
		default:
			g.oddPct = 45 // rules, tables and envelopes over the unusual domains meet each other
		}
		switch (i / 40) % 5 {
		case 0, 1, 2:
			g.mixPct = 6
		case 3:
			g.mixPct = 0
		default:
			g.mixPct = 40 // rules, tables and envelopes over the case/normalisation letters meet each other
		}
		g.multiPct = 12
		if i%7 == 3 {
			g.multiPct = 70
		}
		c04RunCase(t, out, c04Decode(strings.Join(c04Encode(g.gen()), " ")))
	}
}

// hand-written cases (tables are recomputed when they run)
// op-line tokens of a 'reject' directive with the given arguments
func c04RJA(args ...string) string {
	var b []string
	c04EncNode(&b, &c04Node{kind: "RJ", raw: true, args: args})
	return strings.Join(b, " ")
}

var c04Fixed = []string{
	// destination example.org { }  +  default_destination { deliver_to t0 }      (DESIGN §6 e)
	"C04 case 0 2 RU 1 " + vh.HexRunes("example.org") + " 0 DF 1 D 0 | 1 E " + vh.HexRunes("bob@example.com") + " 1 " + vh.HexRunes("alice@example.org"),
	// a block with only check / modify
	"C04 case 0 2 RU 1 " + vh.HexRunes("example.org") + " 2 C1 M 1 R 1 " + vh.HexRunes("alice@example.org") + " 1 " + vh.HexRunes("bob@example.org") +
		" DF 1 RJ 550 5 7 1 | 1 E " + vh.HexRunes("bob@example.com") + " 2 " + vh.HexRunes("alice@example.org") + " " + vh.HexRunes("carol@example.com"),
	// default_source { } handled as missing; source without default
	"C04 case 0 1 SR 1 " + vh.HexRunes("example.org") + " 1 D 0 | 1 E " + vh.HexRunes("bob@example.com") + " 1 " + vh.HexRunes("alice@example.org"),
	// the documentation's alias example: destination + modify + reroute
	"C04 case 1 2 RU 1 " + vh.HexRunes("example.org") + " 2 M 1 R 1 " + vh.HexRunes("alice@example.org") + " 2 " + vh.HexRunes("bob@example.org") + " " + vh.HexRunes("carol@example.com") +
		" RR 2 RU 1 " + vh.HexRunes("example.org") + " 1 D 1 DF 1 D 2 DF 1 RJ 521 5 0 0 | 2 E " + vh.HexRunes("x@example.com") + " 2 " + vh.HexRunes("alice@example.org") + " " + vh.HexRunes("bob@example.com") +
		" V " + vh.HexRunes("x@EXAMPLE.com") + " 2 " + vh.HexRunes("ALICE@Example.Org") + " " + vh.HexRunes("Bob@example.com"),
	// 1-to-2 rewrite whose second address is refused: the RCPT is refused after the first address was handed off
	"C04 case 0 3 M 1 R 1 " + vh.HexRunes("carol@example.org") + " 2 " + vh.HexRunes("alice@example.org") + " " + vh.HexRunes("bob@example.com") +
		" RU 1 " + vh.HexRunes("example.org") + " 1 D 0 DF 1 RJ 550 5 7 1 | 1 E " + vh.HexRunes("x@example.com") + " 1 " + vh.HexRunes("carol@example.org"),
	// unusual but valid domains (underscore, address literals, "--" in positions 3-4, leading digit, single label,
	// leading / trailing hyphen, joiner) that no rule names go to the default blocks, as sender and as recipient
	"C04 case 0 2 SR 1 " + vh.HexRunes("example.org") + " 2 RU 1 " + vh.HexRunes("example.org") + " 1 D 0 DF 1 D 1" +
		" SD 2 RU 1 " + vh.HexRunes("example.org") + " 1 D 2 DF 1 D 3 | 3" +
		" E " + vh.HexRunes("sender@example.org") + " 3 " + vh.HexRunes("alice@example.org") + " " + vh.HexRunes("ops@build_host.example.net") + " " + vh.HexRunes("postmaster@[192.0.2.1]") +
		" E " + vh.HexRunes("cron@build_host.example.net") + " 3 " + vh.HexRunes("bob@ab--c.example.net") + " " + vh.HexRunes("bob@3com.example") + " " + vh.HexRunes("bob@localhost") +
		" E " + vh.HexRunes("root@[IPv6:2001:db8::1]") + " 3 " + vh.HexRunes("bob@-lead.example.org") + " " + vh.HexRunes("bob@trail-.example.org") + " " + vh.HexRunes("bob@a\u200db.example.org"),
	// ... and are matched by their own rules in any letter case
	"C04 case 0 3 RU 2 " + vh.HexRunes("BUILD_Host.Example.NET") + " " + vh.HexRunes("[IPv6:2001:DB8::1]") + " 1 D 0 RU 2 " + vh.HexRunes("ops@AB--C.example.net") + " " + vh.HexRunes("localhost.") + " 1 D 1 DF 1 RJ 550 5 1 1 | 2" +
		" E " + vh.HexRunes("") + " 3 " + vh.HexRunes("ops@build_host.example.net") + " " + vh.HexRunes("x@[ipv6:2001:db8::1]") + " " + vh.HexRunes("OPS@ab--c.example.net") +
		" E " + vh.HexRunes("a@LOCALHOST") + " 3 " + vh.HexRunes("alice@LocalHost") + " " + vh.HexRunes("bob@ab--c.example.net") + " " + vh.HexRunes("carol@xn--strae-oqa.de"),
	// two destination_in tables that both contain bob@example.org, the second one answers first (latency 1
	// against 5): the FIRST DECLARED one is used; the same on the sender side (source_in) with three tables
	"C04 case 0 3 TI TD 5 1 " + vh.HexRunes("bob@example.org") + " 1 D 0 TI TD 1 2 " + vh.HexRunes("bob@example.org") + " " + vh.HexRunes("alice@example.org") +
		" 1 D 1 DF 1 D 2 | 2 E " + vh.HexRunes("x@example.com") + " 3 " + vh.HexRunes("bob@example.org") + " " + vh.HexRunes("alice@example.org") + " " + vh.HexRunes("carol@example.org") +
		" V " + vh.HexRunes("x@EXAMPLE.com") + " 3 " + vh.HexRunes("Bob@Example.Org") + " " + vh.HexRunes("ALICE@example.org.") + " " + vh.HexRunes("CAROL@example.org"),
	"C04 case 0 4 SI TD 40 1 " + vh.HexRunes("x@example.com") + " 1 D 0 SI TD 3 1 " + vh.HexRunes("x@example.com") + " 1 D 1 SI T 2 " + vh.HexRunes("x@example.com") + " " + vh.HexRunes("") +
		" 1 D 2 SD 1 D 3 | 3 E " + vh.HexRunes("x@example.com") + " 1 " + vh.HexRunes("bob@example.org") + " E " + vh.HexRunes("") + " 1 " + vh.HexRunes("bob@example.org") + " E " + vh.HexRunes("y@example.com") + " 1 " + vh.HexRunes("bob@example.org"),
	// one address in its two normalisation forms (U+0130 / I + U+0307) and in lower case: the same rule
	// matches all of them, a second declaration in the other form is a duplicate (first declaration wins)
	"C04 case 0 4 RU 1 " + vh.HexRunes("\u0130brahim@example.org") + " 1 D 0 RU 1 " + vh.HexRunes("I\u0307brahim@example.org") + " 1 D 1 RU 1 " + vh.HexRunes("example.org") +
		" 1 D 2 DF 1 D 3 | 2 E " + vh.HexRunes("x@example.com") + " 3 " + vh.HexRunes("I\u0307brahim@example.org") + " " + vh.HexRunes("ibrahim@example.org") + " " + vh.HexRunes("\u0130brahim@\u0130stanbul.example") +
		" V " + vh.HexRunes("x@example.com") + " 3 " + vh.HexRunes("\u0130brahim@example.org") + " " + vh.HexRunes("IBRAHIM@EXAMPLE.ORG") + " " + vh.HexRunes("I\u0307brahim@I\u0307stanbul.example"),
	// address rule declared after the domain rule still wins; duplicates: first declaration wins
	"C04 case 0 4 RU 1 " + vh.HexRunes("example.org") + " 1 D 0 RU 2 " + vh.HexRunes("Alice@EXAMPLE.org") + " " + vh.HexRunes("example.org") + " 1 D 1 RU 1 " + vh.HexRunes("alice@example.org") + " 1 D 2 DF 1 RJ 554 5 7 0 | 1 E " +
		vh.HexRunes("") + " 3 " + vh.HexRunes("alice@example.org") + " " + vh.HexRunes("bob@example.org") + " " + vh.HexRunes("bob@example.com"),
	// every block refuses with the reply that is configured for it: basic code, enhanced code and description as written, also when
	// the classes of the two codes disagree (450 5.7.1, 550 4.2.1), with one argument, for a source block and for destination blocks
	"C04 case 0 2 SR 1 " + vh.HexRunes("blocked@example.com") + " 1 " + c04RJA("451", "5.7.1", "Sender blocked for now") +
		" SD 6 RU 1 " + vh.HexRunes("greylisted@example.org") + " 1 " + c04RJA("450", "5.7.1", "Try again later") +
		" RU 1 " + vh.HexRunes("gone@example.org") + " 1 " + c04RJA("550", "4.2.1", "Mailbox is gone") +
		" RU 1 " + vh.HexRunes("example.org") + " 1 " + c04RJA("550", "5.1.1", "No such user") +
		" RU 1 " + vh.HexRunes("m\u00fcnchen.de") + " 1 " + c04RJA("421", "4.3.2") +
		" RU 1 " + vh.HexRunes("example.com") + " 1 " + c04RJA("452") +
		" DF 1 " + c04RJA("554", "5.7.0", "Relaying denied") + " | 4" +
		" E " + vh.HexRunes("sender@example.com") + " 3 " + vh.HexRunes("greylisted@example.org") + " " + vh.HexRunes("gone@example.org") + " " + vh.HexRunes("user@example.org") +
		" V " + vh.HexRunes("Sender@EXAMPLE.com") + " 3 " + vh.HexRunes("Greylisted@EXAMPLE.org") + " " + vh.HexRunes("GONE@example.org.") + " " + vh.HexRunes("User@Example.Org") +
		" E " + vh.HexRunes("sender@example.com") + " 3 " + vh.HexRunes("user@xn--mnchen-3ya.de") + " " + vh.HexRunes("user@example.com") + " " + vh.HexRunes("user@sub.example.org") +
		" E " + vh.HexRunes("Blocked@example.com") + " 1 " + vh.HexRunes("user@example.org"),
	// the same inside a nested pipeline, next to a block that delivers
	"C04 case 1 2 RU 1 " + vh.HexRunes("example.org") + " 1 RR 2 RU 1 " + vh.HexRunes("alice@example.org") + " 1 " + c04RJA("550", "4.2.2", "Mailbox full") + " DF 1 D 0" +
		" DF 1 " + c04RJA("450", "5.1.0") + " | 2 E " + vh.HexRunes("x@example.com") + " 3 " + vh.HexRunes("alice@example.org") + " " + vh.HexRunes("bob@example.org") + " " + vh.HexRunes("bob@example.com") +
		" E " + vh.HexRunes("") + " 2 " + vh.HexRunes("ALICE@EXAMPLE.ORG") + " " + vh.HexRunes("carol@sub.example.org"),
}
