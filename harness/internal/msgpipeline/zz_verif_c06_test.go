package msgpipeline

// C06 — check verdicts are always enforced and every check sees every stage once
// (see /verif/DESIGN.md §4 C06, /verif/notes/C06.md).
//
// One case = a pipeline assembled from scripted checks (a verdict per stage and per recipient,
// produced by the real FailAction.Apply; seeded delays permute the completion order of the
// goroutines of runAndMergeResults), placed in the global / source / destination blocks (the same
// check may be referenced by several blocks), recording targets (atomic or per-recipient, some
// refusing quarantined messages like target.remote), and one transaction driven the way the
// SMTP endpoint (Start, AddRcpt…, Body, Commit|Abort) or the LMTP endpoint (…, BodyNonAtomic,
// Commit) does.  MsgMetadata is shared by pointer with whoever hands the message over, and a
// MsgPipeline is itself a delivery target (`deliver_to &local_routing`, `reroute`): some cases
// start with MsgMetadata.Quarantine already set (op token `Q`), and some ("nest" ops) put a second
// REAL MsgPipeline - its own scripted checks, DMARC setting, destination blocks and recording
// targets - behind destination blocks of the first one, so that the inner pipeline's own check
// runner works on a message the outer pipeline's checks / DMARC policy may have flagged.
// Every modifier group of the pipeline (global, source block, every destination block) holds a
// scripted modifier; the op token `m=` says for which calls it FAILS (RewriteSender, RewriteRcpt
// for chosen recipients, RewriteBody; temporary or permanent error): a command can fail in the
// middle of the checks' bookkeeping - one recipient of a block accepted, a later one of the SAME
// block failing in the block's RewriteRcpt, recipients of other blocks following, then DATA.
// The envelope sender of a case may be the null reverse-path (`MAIL FROM:<>`, bounces), an IDN
// address, a quoted local part or an upper-case spelling (op token `f=`).
// "multi" ops: ONE pipeline object built by the REAL configuration parser from generated
// configuration text (cfgparser.Read + New / parseMsgPipelineRootCfg: every check of a scope in its
// own `check { }` directive, 0-5 per scope, so the check lists have the lengths and capacities
// repeated append gives them; 1-3 source blocks - `source s<k>.example bücher<k>.example` and
// default_source - with 1-3 destination blocks each) and 1-3 (thorough: 4) transactions on it, each
// with its own sender (selecting a source block), recipients, verdicts and mode, whose commands
// (MAIL, every RCPT, DATA) are interleaved as the op's schedule says; the scripted checks find the
// message a state object belongs to by MsgMetadata.ID.  Every monitor rule is applied to every
// transaction on its own; in addition a state object must only be asked while a command of ITS message
// runs and must be shown the sender / recipients / body of ITS message, and the same transactions
// run one after the other and in another interleaving must show the same.
//
// Round 9: the DMARC part of a run op may get a scripted DNS world (op token `w=`, see c06World:
// where the From domain sits, what the resolver answers at _dmarc.<From domain> and at
// _dmarc.<organizational domain>, whether the identifiers are aligned); the dmarc field of the op is
// what RFC 7489 6.6.3 discovery yields for that world, computed by c06World.outcome (not by
// internal/dmarc) - the monitor's demands (flag at every target / DATA refused) follow from it.
// Targets of kind q<n|r> are REAL target.queue objects (zz_verif_c06_queue_test.go) in front of the
// recording target: the flag oracle is evaluated at the target behind the queue.
//
//   T2: the op line goes to the Lean model (Model/CheckRunner.lean); command outcomes, per-recipient
//       results, quarantine flag, hand-offs seen by the targets and the per-state call logs are compared.
//   T3: an oracle written from the property statement evaluates the script and the routing directly
//       (which commands must be refused, whether the message must be flagged) and the call logs
//       (each state sees a stage once, a delivered message was seen completely by every applicable
//       check); the same input is re-run over the other body path, with other completion orders and
//       with every 'ignore' verdict replaced by no result — the outcomes must agree.

import (
	"context"
	"errors"
	"fmt"
	"io"
	"net"
	"os"
	"runtime"
	"sort"
	"strconv"
	"strings"
	"sync"
	"testing"
	"time"
	"unicode"

	"github.com/emersion/go-message/textproto"
	"github.com/emersion/go-msgauth/authres"
	"github.com/emersion/go-smtp"
	"github.com/foxcpp/go-mockdns"
	"github.com/foxcpp/maddy/framework/address"
	"github.com/foxcpp/maddy/framework/buffer"
	parser "github.com/foxcpp/maddy/framework/cfgparser"
	"github.com/foxcpp/maddy/framework/config"
	modconfig "github.com/foxcpp/maddy/framework/config/module"
	"github.com/foxcpp/maddy/framework/exterrors"
	"github.com/foxcpp/maddy/framework/log"
	"github.com/foxcpp/maddy/framework/module"
	"github.com/foxcpp/maddy/internal/check"
	"github.com/foxcpp/maddy/internal/modify"
	"github.com/foxcpp/maddy/internal/verifshim/vh"
	"golang.org/x/net/idna"
)

// ---------------------------------------------------------------- script

// c06V is one scripted verdict: the raw result of the check (0 nothing, 1 reason, 2 reason+Quarantine,
// 3 Quarantine without reason, 4 Reject without reason, 5 reason+Reject) and the configured action.
type c06V struct {
	raw byte
	act byte // i q r
}

func (v c06V) String() string { return string([]byte{v.raw, v.act}) }

type c06Err struct{ check int }

func (e *c06Err) Error() string { return "scripted verdict of check " + strconv.Itoa(e.check) }

// c06Dirs: how the three actions of the scripted checks are WRITTEN in the configuration: the
// arguments of the `<x>_action` directive for the slots i (ignore), q (quarantine), r (reject).
// The slot of a directive is the documented meaning of its lower-cased first word (an unknown word
// may sit in any slot: it has to be refused at load).
type c06Dirs [3][]string

const c06Slots = "iqr"

var c06Words = [3]string{"ignore", "quarantine", "reject"}

// c06DirEnc: one directive as an op token part: arguments joined by '+', '_' for a space, '~' for
// the empty argument (the generated arguments are made of [A-Za-z0-9.-] and spaces).
func c06DirEnc(args []string) string {
	if len(args) == 0 {
		return "!"
	}
	var p []string
	for _, a := range args {
		if a == "" {
			p = append(p, "~")
		} else {
			p = append(p, strings.ReplaceAll(a, " ", "_"))
		}
	}
	return strings.Join(p, "+")
}

func c06DirDec(s string) ([]string, error) {
	if s == "!" {
		return nil, nil
	}
	var out []string
	for _, a := range strings.Split(s, "+") {
		switch {
		case a == "":
			return nil, errors.New("bad directive " + s)
		case a == "~":
			out = append(out, "")
		default:
			for _, ch := range a {
				if !(ch >= 'a' && ch <= 'z' || ch >= 'A' && ch <= 'Z' || ch >= '0' && ch <= '9' || ch == '.' || ch == '-' || ch == '_') {
					return nil, errors.New("bad directive " + s)
				}
			}
			out = append(out, strings.ReplaceAll(a, "_", " "))
		}
	}
	return out, nil
}

func (d *c06Dirs) String() string {
	return "d=" + c06DirEnc(d[0]) + "," + c06DirEnc(d[1]) + "," + c06DirEnc(d[2])
}

// c06DocWord: the documented meaning of a directive: the slot (0 i, 1 q, 2 r) of its lower-cased
// first word, -1 when that is none of the three documented words.
func c06DocWord(args []string) int {
	if len(args) == 0 {
		return -1
	}
	for k, w := range c06Words {
		if strings.ToLower(args[0]) == w {
			return k
		}
	}
	return -1
}

func c06ParseDirs(tok string) (*c06Dirs, error) {
	parts := strings.Split(strings.TrimPrefix(tok, "d="), ",")
	if !strings.HasPrefix(tok, "d=") || len(parts) != 3 {
		return nil, errors.New("bad d= token " + tok)
	}
	var d c06Dirs
	for k, p := range parts {
		a, err := c06DirDec(p)
		if err != nil {
			return nil, err
		}
		if w := c06DocWord(a); w >= 0 && w != k {
			return nil, errors.New("directive in the slot of another action: " + tok)
		}
		d[k] = a
	}
	return &d, nil
}

// c06Acts: the three FailAction values of a pipeline's checks as the REAL directive parser made them.
type c06Acts struct{ a [3]modconfig.FailAction }

// c06Load: "configuration load" of the actions - every directive through modconfig.ParseActionDirective
// (nil: the lower-case one-word spellings); an error = the configuration is refused.
func c06Load(d *c06Dirs) (*c06Acts, error) {
	if d == nil {
		d = &c06Dirs{{"ignore"}, {"quarantine"}, {"reject"}}
	}
	acts := &c06Acts{}
	for k := range d {
		fa, err := modconfig.ParseActionDirective(d[k])
		if err != nil {
			return nil, err
		}
		acts.a[k] = fa
	}
	return acts, nil
}

var c06DefActs *c06Acts

func c06DefaultActs() *c06Acts {
	if c06DefActs == nil {
		a, err := c06Load(nil)
		if err != nil {
			panic("the lower-case action directives are refused: " + err.Error())
		}
		c06DefActs = a
	}
	return c06DefActs
}

// result builds the raw CheckResult and lets the REAL FailAction.Apply merge the action in; the
// FailAction is what the REAL directive parser made of the action's directive (acts; nil: default spelling).
func (v c06V) result(check int, acts *c06Acts) module.CheckResult {
	raw := v.rawResult(check)
	if acts == nil {
		acts = c06DefaultActs()
	}
	return acts.a[strings.IndexByte(c06Slots, v.act)].Apply(raw)
}

// rawResult: what the check's own code finds (before the check's action is applied to it).
func (v c06V) rawResult(check int) module.CheckResult {
	var raw module.CheckResult
	switch v.raw {
	case '1':
		raw.Reason = &c06Err{check}
	case '2':
		raw.Reason = &c06Err{check}
		raw.Quarantine = true
	case '3':
		raw.Quarantine = true
	case '4':
		raw.Reject = true
	case '5':
		raw.Reason = &c06Err{check}
		raw.Reject = true
	}
	return raw
}

// proper maps a verdict to the four verdicts of the property: n i q r ; "?" for results the
// property does not speak about (flags without a reason, both flags).
func (v c06V) proper() string {
	switch v.raw {
	case '0':
		return "n"
	case '1':
		return map[byte]string{'i': "i", 'q': "q", 'r': "r"}[v.act]
	case '2':
		if v.act == 'r' {
			return "?"
		}
		return "q"
	case '5':
		if v.act == 'q' {
			return "?"
		}
		return "r"
	}
	return "?"
}

type c06Script struct {
	conn, sender, body c06V
	rcpt               map[int]c06V
}

func (s *c06Script) at(stage string) c06V {
	switch stage {
	case "c":
		return s.conn
	case "s":
		return s.sender
	case "b":
		return s.body
	}
	id, _ := strconv.Atoi(stage[1:])
	if v, ok := s.rcpt[id]; ok {
		return v
	}
	return c06V{'0', 'i'}
}

type c06Block struct {
	checks  []int
	targets []int
	nomod   bool // the block has no `modify` directive: its modifier group is empty
	// flaky (round 10, flag f): the block lists one more check whose backend is down - its
	// CheckStateForMsg fails for every message.  It stands right after the block's leading checks
	// that are also global / source checks (c06FlakyPos), i.e. every check before it has its state.
	flaky bool
}

func (b c06Block) spec() string {
	s := c06Ids(b.checks) + "/" + c06Ids(b.targets)
	switch {
	case b.nomod && b.flaky:
		s += "/nf"
	case b.nomod:
		s += "/n"
	case b.flaky:
		s += "/f"
	}
	return s
}

func c06ParseBlock(s string) c06Block {
	p := strings.Split(s, "/")
	if len(p) < 2 || len(p) > 3 || (len(p) == 3 && p[2] != "n" && p[2] != "f" && p[2] != "nf") {
		panic("bad block " + s)
	}
	return c06Block{checks: c06ParseIds(p[0]), targets: c06ParseIds(p[1]), nomod: len(p) == 3 && p[2][0] == 'n', flaky: len(p) == 3 && strings.HasSuffix(p[2], "f")}
}

// c06FlakyPos: where the check that cannot create its state stands in the check list of a flaky
// block: after the longest prefix of checks that are global or source checks too.
func c06FlakyPos(global, source, checks []int) int {
	p := 0
	for p < len(checks) && (c06Has(global, checks[p]) || c06Has(source, checks[p])) {
		p++
	}
	return p
}

// c06FlakyCheck: CheckStateForMsg fails (temporary error, as a check with an unreachable backend).
type c06FlakyCheck struct {
	mu    sync.Mutex
	asked int
}
type c06InitErr struct{}

func (*c06InitErr) Error() string {
	return "scripted failure of CheckStateForMsg: backend is not available"
}

func (*c06FlakyCheck) Init(*config.Map) error { return nil }
func (*c06FlakyCheck) Name() string           { return "verif_flaky" }
func (*c06FlakyCheck) InstanceName() string   { return "verif_flaky" }
func (f *c06FlakyCheck) CheckStateForMsg(ctx context.Context, m *module.MsgMetadata) (module.CheckState, error) {
	f.mu.Lock()
	f.asked++
	f.mu.Unlock()
	return nil, &exterrors.SMTPError{Code: 451, EnhancedCode: exterrors.EnhancedCode{4, 7, 0}, Message: "try again later", Err: &c06InitErr{}}
}

// c06Rcpt: one RCPT command. sp: how the client wrote the address - 0 as the pipeline gets it,
// 'd' domain in upper case, 'm' domain in mixed case; the endpoint normalises the domain
// (address.CleanDomain) before the pipeline sees the address, so these are repeats of ONE recipient.
type c06Rcpt struct {
	id, blk int
	sp      byte
}

func (r c06Rcpt) spec() string {
	s := fmt.Sprintf("%d:%d", r.id, r.blk)
	if r.sp != 0 {
		s += string(r.sp)
	}
	return s
}

// literal: the RCPT TO argument as the client wrote it
func (r c06Rcpt) literal() string {
	a := c06Addr(r.id, r.blk)
	i := strings.IndexByte(a, '@')
	switch r.sp {
	case 'd':
		return a[:i] + strings.ToUpper(a[i:])
	case 'm':
		dom := []byte(a[i+1:])
		for j := 0; j < len(dom); j += 2 {
			dom[j] = byte(unicode.ToUpper(rune(dom[j])))
		}
		return a[:i+1] + string(dom)
	}
	return a
}

// c06MF: for which calls the scripted modifiers fail (value: 't' temporary 4xx, 'p' permanent 5xx).
type c06MF struct {
	sender map[string]byte       // "g" | "s": RewriteSender of the global / source modifiers
	rcpt   map[int]map[byte]byte // recipient id -> scope 'g' | 's' | 'b' (the recipient's block): RewriteRcpt
	body   map[string]byte       // "g" | "s" | "<block>": RewriteBody
}

func c06NewMF() *c06MF {
	return &c06MF{sender: map[string]byte{}, rcpt: map[int]map[byte]byte{}, body: map[string]byte{}}
}

func (m *c06MF) empty() bool {
	return m == nil || (len(m.sender) == 0 && len(m.rcpt) == 0 && len(m.body) == 0)
}

func (m *c06MF) setRcpt(id int, scope, kind byte) {
	if m.rcpt[id] == nil {
		m.rcpt[id] = map[byte]byte{}
	}
	m.rcpt[id][scope] = kind
}

// rcptFault: does a modifier group fail for this recipient (any scope)
func (m *c06MF) rcptFault(id int) bool { return m != nil && len(m.rcpt[id]) > 0 }

func (m *c06MF) clone() *c06MF {
	if m == nil {
		return nil
	}
	n := c06NewMF()
	for k, v := range m.sender {
		n.sender[k] = v
	}
	for id, sc := range m.rcpt {
		for k, v := range sc {
			n.setRcpt(id, k, v)
		}
	}
	for k, v := range m.body {
		n.body[k] = v
	}
	return n
}

// String: the op token m=<sender>/<rcpt>/<body> (see Driver/C06.lean), canonical order.
func (m *c06MF) String() string {
	part := func(l []string) string {
		if len(l) == 0 {
			return "-"
		}
		return strings.Join(l, ",")
	}
	var se, rc, bo []string
	for _, k := range []string{"g", "s"} {
		if v, ok := m.sender[k]; ok {
			se = append(se, k+":"+string(v))
		}
		if v, ok := m.body[k]; ok {
			bo = append(bo, k+":"+string(v))
		}
	}
	var ids []int
	for id := range m.rcpt {
		ids = append(ids, id)
	}
	sort.Ints(ids)
	for _, id := range ids {
		for _, sc := range []byte("gsb") {
			if v, ok := m.rcpt[id][sc]; ok {
				rc = append(rc, fmt.Sprintf("%d:%c%c", id, sc, v))
			}
		}
	}
	var blks []int
	for k := range m.body {
		if b, err := strconv.Atoi(k); err == nil {
			blks = append(blks, b)
		}
	}
	sort.Ints(blks)
	for _, b := range blks {
		bo = append(bo, fmt.Sprintf("%d:%c", b, m.body[strconv.Itoa(b)]))
	}
	return "m=" + part(se) + "/" + part(rc) + "/" + part(bo)
}

func c06ParseMF(tok string) (*c06MF, error) {
	bad := errors.New("bad m= token " + tok)
	if !strings.HasPrefix(tok, "m=") {
		return nil, bad
	}
	parts := strings.Split(tok[2:], "/")
	if len(parts) != 3 {
		return nil, bad
	}
	m := c06NewMF()
	kind := func(s string) bool { return s == "t" || s == "p" }
	for i, part := range parts {
		if part == "-" {
			continue
		}
		for _, e := range strings.Split(part, ",") {
			kv := strings.Split(e, ":")
			if len(kv) != 2 {
				return nil, bad
			}
			switch i {
			case 0:
				if (kv[0] != "g" && kv[0] != "s") || !kind(kv[1]) {
					return nil, bad
				}
				m.sender[kv[0]] = kv[1][0]
			case 1:
				id, err := strconv.Atoi(kv[0])
				if err != nil || len(kv[1]) != 2 || !strings.Contains("gsb", kv[1][:1]) || !kind(kv[1][1:]) {
					return nil, bad
				}
				m.setRcpt(id, kv[1][0], kv[1][1])
			default:
				if _, err := strconv.Atoi(kv[0]); (err != nil && kv[0] != "g" && kv[0] != "s") || !kind(kv[1]) {
					return nil, bad
				}
				m.body[kv[0]] = kv[1][0]
			}
		}
	}
	return m, nil
}

// ---------------------------------------------------------------- the DNS world of the DMARC part (op token w=)

// c06World: what the resolver answers at the two names RFC 7489 section 6.6.3 looks at, where the
// RFC5322.From domain sits, and whether the authenticated identifiers are aligned with it.
//
//	w=<from>/<answer at _dmarc.<From domain>>/<answer at _dmarc.example.org>/<align>
//	from    o  From: someone@example.org (the organizational domain itself; first answer is `=`)
//	        s  From: someone@mail.example.org
//	        d  From: someone@a.mail.example.org (_dmarc.mail.example.org publishes p=reject: RFC 7489
//	           looks at the From domain and at the organizational domain, never in between)
//	answer  -  no such name | 0  the name exists, no TXT record | T  temporary failure (SERVFAIL) |
//	        `.`-separated TXT records: x `v=spf1 -all`, y wildcard text, or <p><sp> a DMARC record
//	        with p, sp in n(one) q(uarantine) r(eject), sp also `-` (absent)
//	align   f  SPF and DKIM fail | m  both pass for an unrelated domain (not aligned) |
//	        a  a passing DKIM signature of example.org (aligned, relaxed mode)
type c06World struct {
	from  byte
	sub   string
	org   string
	align byte
}

func (w *c06World) String() string {
	return "w=" + string(w.from) + "/" + w.sub + "/" + w.org + "/" + string(w.align)
}

func (w *c06World) fromDomain() string {
	if w == nil {
		return "example.org"
	}
	switch w.from {
	case 's':
		return "mail.example.org"
	case 'd':
		return "a.mail.example.org"
	}
	return "example.org"
}

func c06AnswerOK(a string) bool {
	if a == "-" || a == "0" || a == "T" {
		return true
	}
	for _, rec := range strings.Split(a, ".") {
		switch {
		case rec == "x" || rec == "y":
		case len(rec) == 2 && strings.IndexByte("nqr", rec[0]) >= 0 && strings.IndexByte("nqr-", rec[1]) >= 0:
		default:
			return false
		}
	}
	return true
}

func c06ParseWorld(tok string) (*c06World, error) {
	p := strings.Split(strings.TrimPrefix(tok, "w="), "/")
	if !strings.HasPrefix(tok, "w=") || len(p) != 4 || len(p[0]) != 1 || len(p[3]) != 1 ||
		strings.IndexByte("osd", p[0][0]) < 0 || strings.IndexByte("fma", p[3][0]) < 0 {
		return nil, errors.New("bad w= token")
	}
	w := &c06World{from: p[0][0], sub: p[1], org: p[2], align: p[3][0]}
	if (w.from == 'o') != (w.sub == "=") || (w.sub != "=" && !c06AnswerOK(w.sub)) || !c06AnswerOK(w.org) {
		return nil, errors.New("bad w= token")
	}
	return w, nil
}

// c06TXT: the text of one record.
func c06TXT(rec string) string {
	switch rec {
	case "x":
		return "v=spf1 -all"
	case "y":
		return "wildcard text record, v=DMARC1 is not how it starts"
	}
	word := map[byte]string{'n': "none", 'q': "quarantine", 'r': "reject"}
	s := "v=DMARC1; p=" + word[rec[0]]
	if rec[1] != '-' {
		s += "; sp=" + word[rec[1]]
	}
	return s
}

// zones: the scripted resolver.
func (w *c06World) zones() map[string]mockdns.Zone {
	z := map[string]mockdns.Zone{}
	put := func(name, a string) {
		switch a {
		case "-", "=":
		case "0":
			z[name] = mockdns.Zone{}
		case "T":
			z[name] = mockdns.Zone{Err: &net.DNSError{Err: "server misbehaving", Name: name, IsTemporary: true}}
		default:
			var txt []string
			for _, rec := range strings.Split(a, ".") {
				txt = append(txt, c06TXT(rec))
			}
			z[name] = mockdns.Zone{TXT: txt}
		}
	}
	put("_dmarc."+w.fromDomain()+".", w.sub)
	put("_dmarc.example.org.", w.org)
	if w.from == 'd' {
		z["_dmarc.mail.example.org."] = mockdns.Zone{TXT: []string{"v=DMARC1; p=reject"}}
	}
	return z
}

// outcome: what the DMARC part has to do with the message, computed here from the scripted world
// by the steps of RFC 7489 section 6.6.3 (not by internal/dmarc): query the From domain, drop what
// is not a DMARC record; nothing left and the organizational domain is another name - query that,
// drop again; exactly one record left - that is the published policy (p; sp when it was found at
// the organizational domain for a subdomain and has one), else there is none.  A temporary failure
// of a query that is made refuses the message (temporary code); a message whose identifiers are
// aligned passes whatever is published.
func (w *c06World) outcome() string {
	policies := func(a string) (recs []string, temp bool) {
		switch a {
		case "-", "0":
			return nil, false
		case "T":
			return nil, true
		}
		for _, rec := range strings.Split(a, ".") {
			if len(rec) == 2 {
				recs = append(recs, rec)
			}
		}
		return recs, false
	}
	first := w.sub
	if w.from == 'o' {
		first = w.org
	}
	recs, temp := policies(first)
	if temp {
		return "rej"
	}
	viaOrg := false
	if len(recs) == 0 && w.from != 'o' {
		viaOrg = true
		if recs, temp = policies(w.org); temp {
			return "rej"
		}
	}
	if len(recs) != 1 || w.align == 'a' {
		return "pass"
	}
	pol := recs[0][0]
	if viaOrg && recs[0][1] != '-' {
		pol = recs[0][1]
	}
	return map[byte]string{'n': "pass", 'q': "quar", 'r': "rej"}[pol]
}

// VerifC06NewQueue is set by zz_verif_c06_queue_test.go (package msgpipeline_test - internal/target/queue
// imports this package): a REAL target.queue (NewQueue + Init, own spool directory dir, max_tries 1)
// in front of the downstream target; idle: the spool is empty; close: Queue.Close.
var VerifC06NewQueue func(dir string, down module.DeliveryTarget) (q module.DeliveryTarget, idle func() bool, close func() error, err error)

type c06Case struct {
	world   *c06World // the DNS world behind the dmarc field (nil: one record at _dmarc.example.org, From: example.org, nothing aligned)
	mode    string
	dmarc   string
	global  []int
	source  []int
	blocks  []c06Block
	tgts    []string // "an" "ar" "pn" "pr"
	rcpts   []c06Rcpt
	scripts []c06Script
	delays  [][4]int
	q0      bool     // MsgMetadata.Quarantine is already set when Start is called
	mf      *c06MF   // failures of the scripted modifiers (nil: none)
	inner   *c06Case // the pipeline behind the target of kind "px"; inner.rcpts is its routing table (id:block)
	nomodG  bool     // the global scope has no `modify` directive (empty modifier group)
	nomodS  bool     // the source block has none
	dirs    *c06Dirs // how the actions of the checks are written in the configuration (nil: ignore / quarantine / reject)
	acts    *c06Acts // not part of the op line: actions loaded already (TestVerifC06Action)
	form    byte     // how the envelope sender is written: 0/'n' plain, 'z' null reverse-path, 'i' IDN domain, 'q' quoted local part, 'u' upper case
	src     int      // multi ops: the source block the sender selects (the last one is default_source)
}

func (c *c06Case) formOr() byte {
	if c.form == 0 {
		return 'n'
	}
	return c.form
}

const c06Forms = "nziqu"

// c06Sender: the reverse-path of a transaction. dom: the domain a `source` rule of the pipeline
// matches ("" - none does: the default source); idn: the same for the IDN rule of that block.
func c06Sender(form byte, dom, idn string) string {
	if dom == "" {
		dom, idn = "example.org", "m\u00fcller.example"
	}
	switch form {
	case 'z':
		return ""
	case 'i':
		a, err := idna.ToASCII(idn)
		if err != nil {
			panic(err)
		}
		return "sender@" + a
	case 'q':
		return `"sender@x y"@` + dom
	case 'u':
		return "Sender@" + strings.ToUpper(dom)
	}
	return "sender@" + dom
}

func c06Ids(l []int) string {
	if len(l) == 0 {
		return "-"
	}
	var p []string
	for _, x := range l {
		p = append(p, strconv.Itoa(x))
	}
	return strings.Join(p, ".")
}

func c06ParseIds(s string) []int {
	if s == "-" {
		return nil
	}
	var out []int
	for _, p := range strings.Split(s, ".") {
		v, err := strconv.Atoi(p)
		if err != nil {
			panic("bad id list " + s)
		}
		out = append(out, v)
	}
	return out
}

func (c *c06Case) op() string {
	f := c.fields()
	if c.inner == nil {
		if c.q0 {
			f = append(f, "Q")
		}
		if !c.mf.empty() {
			f = append(f, c.mf.String())
		}
		if c.formOr() != 'n' {
			f = append(f, "f="+string(c.form))
		}
		if c.nomodG || c.nomodS {
			nm := "nm="
			if c.nomodG {
				nm += "g"
			}
			if c.nomodS {
				nm += "s"
			}
			f = append(f, nm)
		}
		if c.dirs != nil {
			f = append(f, c.dirs.String())
		}
		if c.world != nil {
			f = append(f, c.world.String())
		}
		return "C06 run " + strings.Join(f, " ")
	}
	q := "-"
	if c.q0 {
		q = "Q"
	}
	return "C06 nest " + strings.Join(f, " ") + " " + q + " // " + strings.Join(c.inner.fields()[1:], " ")
}

// fields: mode dmarc global source blocks targets rcpts scripts delays
func (c *c06Case) fields() []string {
	var bl, rc, sc, dl []string
	for _, b := range c.blocks {
		bl = append(bl, b.spec())
	}
	for _, r := range c.rcpts {
		rc = append(rc, r.spec())
	}
	for _, s := range c.scripts {
		var ids []int
		for id := range s.rcpt {
			ids = append(ids, id)
		}
		sort.Ints(ids)
		var rv []string
		for _, id := range ids {
			rv = append(rv, fmt.Sprintf("%d:%s", id, s.rcpt[id]))
		}
		r := "-"
		if len(rv) > 0 {
			r = strings.Join(rv, ",")
		}
		sc = append(sc, s.conn.String()+s.sender.String()+s.body.String()+"/"+r)
	}
	for _, d := range c.delays {
		dl = append(dl, fmt.Sprintf("%d%d%d%d", d[0], d[1], d[2], d[3]))
	}
	return []string{c.mode, c.dmarc, c06Ids(c.global), c06Ids(c.source),
		strings.Join(bl, ";"), strings.Join(c.tgts, ","), strings.Join(rc, ","), strings.Join(sc, ";"), strings.Join(dl, ";")}
}

func c06ParseV(s string) c06V { return c06V{s[0], s[1]} }

func c06Parse(op string) (c *c06Case, err error) {
	defer func() {
		if r := recover(); r != nil {
			err = fmt.Errorf("bad op: %v", r)
		}
	}()
	t := strings.Fields(op)
	if len(t) < 2 || t[0] != "C06" {
		return nil, errors.New("not a C06 op")
	}
	switch {
	case t[1] == "run" && len(t) == 11:
		c, err = c06ParseFields(t[2:])
		if err != nil {
			return nil, err
		}
		return c, c06ModsOK(c)
	case t[1] == "run" && len(t) >= 12 && len(t) <= 17:
		// [Q] [m=...] [f=<sender form>] [nm=<g|s|gs>] [d=<directives>] [w=<DNS world>]
		rest := t[11:]
		c, err = c06ParseFields(t[2:11])
		if err != nil {
			return nil, err
		}
		if rest[0] == "Q" {
			c.q0 = true
			rest = rest[1:]
		}
		if len(rest) >= 1 && strings.HasPrefix(rest[0], "m=") {
			c.mf, err = c06ParseMF(rest[0])
			rest = rest[1:]
		}
		if len(rest) >= 1 && len(rest[0]) == 3 && strings.HasPrefix(rest[0], "f=") && strings.IndexByte(c06Forms, rest[0][2]) >= 0 {
			c.form = rest[0][2]
			rest = rest[1:]
		}
		if len(rest) >= 1 && (rest[0] == "nm=g" || rest[0] == "nm=s" || rest[0] == "nm=gs") {
			c.nomodG, c.nomodS = strings.Contains(rest[0], "g"), strings.HasSuffix(rest[0], "s")
			rest = rest[1:]
		}
		if len(rest) >= 1 && strings.HasPrefix(rest[0], "d=") && err == nil {
			c.dirs, err = c06ParseDirs(rest[0])
			rest = rest[1:]
		}
		if len(rest) >= 1 && strings.HasPrefix(rest[0], "w=") && err == nil {
			c.world, err = c06ParseWorld(rest[0])
			rest = rest[1:]
			// the dmarc field is what the world publishes for this message
			if err == nil && c.world.outcome() != c.dmarc {
				err = errors.New("the dmarc field is not what the DNS world yields")
			}
		}
		if len(rest) != 0 || err != nil {
			return nil, errors.New("bad trailing tokens of a C06 run op")
		}
		return c, c06ModsOK(c)
	case t[1] == "nest" && len(t) == 21 && t[12] == "//" && (t[11] == "Q" || t[11] == "-"):
		c, err = c06ParseFields(t[2:11])
		if err != nil {
			return nil, err
		}
		c.q0 = t[11] == "Q"
		c.inner, err = c06ParseFields(append([]string{c.mode}, t[13:]...))
		if err != nil {
			return nil, err
		}
		return c, c06NestOK(c)
	}
	return nil, errors.New("not a C06 run/nest op")
}

// c06ModsOK: a modifier group that does not exist cannot fail (the same restriction as Driver/C06.lean).
func c06ModsOK(c *c06Case) error {
	if c.mf.empty() {
		return nil
	}
	bad := errors.New("a modifier fault names a scope without modifiers")
	for k := range c.mf.sender {
		if (k == "g" && c.nomodG) || (k == "s" && c.nomodS) {
			return bad
		}
	}
	blkOf := map[int]int{}
	for _, r := range c.rcpts {
		blkOf[r.id] = r.blk
	}
	for id, sc := range c.mf.rcpt {
		for k := range sc {
			b, ok := blkOf[id]
			if (k == 'g' && c.nomodG) || (k == 's' && c.nomodS) || (k == 'b' && ok && c.blocks[b].nomod) {
				return bad
			}
		}
	}
	for k := range c.mf.body {
		if (k == "g" && c.nomodG) || (k == "s" && c.nomodS) {
			return bad
		}
		if b, err := strconv.Atoi(k); err == nil && b < len(c.blocks) && c.blocks[b].nomod {
			return bad
		}
	}
	return nil
}

// c06NestOK: what a nest op may contain (the same restrictions as Driver/C06.lean): the nested
// pipeline is exactly the targets of kind px, the outer pipeline's own targets do not refuse, the
// inner pipeline never refuses a command by itself (no reject verdict, no DMARC reject).
func c06NestOK(c *c06Case) error {
	px := 0
	for _, k := range c.tgts {
		switch k {
		case "px":
			px++
		case "an", "pn":
		default:
			return errors.New("nest: outer target kind " + k)
		}
	}
	if px != 1 {
		return errors.New("nest: exactly one px target expected")
	}
	in := c.inner
	if in.dmarc == "rej" {
		return errors.New("nest: inner DMARC reject")
	}
	for _, k := range in.tgts {
		if k == "px" || k[0] == 'q' {
			return errors.New("nest: px / queue inside the inner pipeline")
		}
	}
	for _, s := range in.scripts {
		vs := []c06V{s.conn, s.sender, s.body}
		for _, v := range s.rcpt {
			vs = append(vs, v)
		}
		for _, v := range vs {
			if c06EffOf(v.result(0, nil)) != "n" && c06EffOf(v.result(0, nil)) != "q" {
				return errors.New("nest: inner verdict " + v.String())
			}
		}
	}
	return nil
}

func c06ParseFields(t []string) (c *c06Case, err error) {
	defer func() {
		if r := recover(); r != nil {
			err = fmt.Errorf("bad op: %v", r)
		}
	}()
	if len(t) != 9 {
		return nil, errors.New("bad field count")
	}
	t = append([]string{"C06", "run"}, t...)
	c = &c06Case{mode: t[2], dmarc: t[3], global: c06ParseIds(t[4]), source: c06ParseIds(t[5])}
	for _, b := range strings.Split(t[6], ";") {
		c.blocks = append(c.blocks, c06ParseBlock(b))
	}
	c.tgts = strings.Split(t[7], ",")
	for _, k := range c.tgts {
		if len(k) != 2 || strings.IndexByte("apq", k[0]) < 0 || strings.IndexByte("nrx", k[1]) < 0 || (k[1] == 'x' && k != "px") {
			panic("bad target kind " + k)
		}
	}
	for _, r := range strings.Split(t[8], ",") {
		p := strings.Split(r, ":")
		id, _ := strconv.Atoi(p[0])
		var sp byte
		if n := len(p[1]); n > 1 && (p[1][n-1] == 'd' || p[1][n-1] == 'm') {
			sp = p[1][n-1]
			p[1] = p[1][:n-1]
		}
		blk, err := strconv.Atoi(p[1])
		if err != nil || blk >= len(c.blocks) {
			panic("bad recipient " + r)
		}
		c.rcpts = append(c.rcpts, c06Rcpt{id, blk, sp})
	}
	for _, s := range strings.Split(t[9], ";") {
		p := strings.Split(s, "/")
		sc := c06Script{conn: c06ParseV(p[0][0:2]), sender: c06ParseV(p[0][2:4]), body: c06ParseV(p[0][4:6]), rcpt: map[int]c06V{}}
		if p[1] != "-" {
			for _, rv := range strings.Split(p[1], ",") {
				q := strings.Split(rv, ":")
				id, _ := strconv.Atoi(q[0])
				sc.rcpt[id] = c06ParseV(q[1])
			}
		}
		c.scripts = append(c.scripts, sc)
	}
	for _, d := range strings.Split(t[10], ";") {
		c.delays = append(c.delays, [4]int{int(d[0] - '0'), int(d[1] - '0'), int(d[2] - '0'), int(d[3] - '0')})
	}
	if len(c.delays) != len(c.scripts) {
		return nil, errors.New("delays/scripts mismatch")
	}
	return c, nil
}

// ---------------------------------------------------------------- scripted checks

type c06Call struct {
	check, inst int
	stage       string // c s r<id> b
	cmd         int    // 0 = MAIL, k = k-th RCPT, len(rcpts)+1 = DATA
	eff         string // what the runner has to do with the returned result: n q r
	done        int    // completion sequence number
}

type c06Rec struct {
	mu        sync.Mutex
	cmd       int
	calls     []*c06Call
	inst      map[int]int // check -> instances created
	instCmd   map[[2]int]int
	seq       int
	inverted  int
	lateCall  int      // calls on a state object after its Close
	foreign   []string // calls on a state object of this message while a command of ANOTHER message was running
	wrongArg  []string // a state object of this message was shown the sender / a recipient / the body of another message
	slLate    int      // calls on the state object of a stateless check after its Close
	wrongMeta []string // a stateless check asked on behalf of this message was handed the meta-data of another one
}

func c06NewRec() *c06Rec { return &c06Rec{inst: map[int]int{}, instCmd: map[[2]int]int{}} }

// c06TxCtx: what the scripted checks know about one message (found by MsgMetadata.ID when the
// state object is created): its script (a verdict per check, stage and recipient), the delays, the
// call log, and what the message looks like.
type c06TxCtx struct {
	id      string
	scripts []c06Script
	delays  [][4]int
	rec     *c06Rec
	sender  string
	addrs   map[string]bool
	body    string
	anyArg  bool     // do not look at the arguments (decoy)
	acts    *c06Acts // the checks' actions as the configuration parser made them (nil: default spelling)
}

// c06Shared: the messages in flight on the pipeline the check belongs to.
type c06Shared struct {
	mu    sync.Mutex
	txs   map[string]*c06TxCtx
	any   *c06TxCtx // used for every message (decoy check)
	cur   *c06TxCtx // the message whose command is being executed
	stray *c06TxCtx // state objects asked for on behalf of a message nobody announced
}

func (sh *c06Shared) lookup(id string) *c06TxCtx {
	sh.mu.Lock()
	defer sh.mu.Unlock()
	if sh.any != nil {
		return sh.any
	}
	if t, ok := sh.txs[id]; ok {
		return t
	}
	if sh.stray == nil {
		sh.stray = &c06TxCtx{id: "stray", rec: c06NewRec(), anyArg: true}
	}
	return sh.stray
}

func (sh *c06Shared) setCur(t *c06TxCtx) { sh.mu.Lock(); sh.cur = t; sh.mu.Unlock() }

type c06Check struct {
	id int
	sh *c06Shared
	// inner (round 10): the check is a REAL internal/check stateless check (check.RegisterStatelessCheck,
	// module verif_c06_sl<id>): its state objects are made, asked and closed through this wrapper, which
	// only keeps the books; the verdict is what the registered functions say about the message whose
	// meta-data the stateless state hands them (StatelessCheckContext.MsgMeta).
	inner module.Check
}

// ---- round 10: checks made with check.RegisterStatelessCheck --------------------------------
//
// c06SlSh: the pipeline the stateless checks currently work for (cases run one after the other).
// c06SlSeen[k]: the message the functions of stateless check k were last asked about (the
// wrapper reads it right after the call: the commands of a case run one at a time and a state
// object is asked once per runAndMergeResults, so there is one call per check in flight).
var (
	c06SlMu   sync.Mutex
	c06SlSh   *c06Shared
	c06SlSeen = map[int]*c06TxCtx{}
	// c06SlOwn[k]: stateless check k is configured with a fail_action of its own (every verdict of
	// the case that carries a reason names that one action): its functions return what they find,
	// statelessCheckState applies the configured action (otherwise: action ignore, the functions
	// return results the verdict's action was already applied to)
	c06SlOwn = map[int]bool{}
)

const c06SlMax = 12

func c06SlName(k int) string { return "verif_c06_sl" + strconv.Itoa(k) }

// c06SlEval: what a stateless check function does - it decides about the message it is asked
// about, i.e. the one whose meta-data it is given.
func c06SlEval(k int, meta *module.MsgMetadata, stage string) module.CheckResult {
	c06SlMu.Lock()
	sh := c06SlSh
	c06SlMu.Unlock()
	if sh == nil || meta == nil {
		return module.CheckResult{}
	}
	tx := sh.lookup(meta.ID)
	c06SlMu.Lock()
	c06SlSeen[k] = tx
	own := c06SlOwn[k]
	c06SlMu.Unlock()
	if own {
		return tx.script(k).at(stage).rawResult(k)
	}
	return tx.script(k).at(stage).result(k, tx.acts)
}

func c06SlRegister() {
	for k := 0; k < c06SlMax; k++ {
		k := k
		// fail action "ignore": FailAction.Apply leaves the flags of the result alone, the functions
		// return results that already went through the (real) action of the verdict
		check.RegisterStatelessCheck(c06SlName(k), modconfig.FailAction{},
			func(ctx check.StatelessCheckContext) module.CheckResult { return c06SlEval(k, ctx.MsgMeta, "c") },
			func(ctx check.StatelessCheckContext, from string) module.CheckResult {
				return c06SlEval(k, ctx.MsgMeta, "s")
			},
			func(ctx check.StatelessCheckContext, to string) module.CheckResult {
				return c06SlEval(k, ctx.MsgMeta, "r"+strings.TrimPrefix(strings.SplitN(to, "@", 2)[0], "u"))
			},
			func(ctx check.StatelessCheckContext, h textproto.Header, b buffer.Buffer) module.CheckResult {
				return c06SlEval(k, ctx.MsgMeta, "b")
			})
	}
}

// c06SlNew: a fresh instance of stateless check k (every pipeline gets its own, as every
// configuration block does).
func c06SlNew(k int, action string) module.Check {
	mod, err := module.Get(c06SlName(k))(c06SlName(k), "", nil, nil)
	if err != nil {
		panic(err)
	}
	node := config.Node{}
	if action != "" {
		node.Children = []config.Node{{Name: "fail_action", Args: []string{action}}}
	}
	if err := mod.Init(config.NewMap(nil, node)); err != nil {
		panic(err)
	}
	c06SlMu.Lock()
	c06SlOwn[k] = action != ""
	c06SlMu.Unlock()
	return mod.(module.Check)
}

// c06SlAction: the one action every reason-carrying verdict of check k names in the transactions
// of the op ("" if they name several, or the actions are custom directives).
func c06SlAction(m *c06Multi, k int) string {
	if m.dirs != nil {
		return ""
	}
	acts := map[byte]bool{}
	see := func(v c06V) {
		if v.raw == '1' || v.raw == '2' || v.raw == '5' {
			acts[v.act] = true
		}
	}
	for _, c := range m.txs {
		sc := c.scripts[k]
		see(sc.conn)
		see(sc.sender)
		see(sc.body)
		for _, v := range sc.rcpt {
			see(v)
		}
	}
	if len(acts) != 1 {
		return ""
	}
	for a := range acts {
		return c06Words[strings.IndexByte(c06Slots, a)]
	}
	return ""
}

func c06Body(id string) string { return "hello " + id + "\r\n" }

// Init: the configuration block of the check (multi ops: `verif_c06 <id> { ignore_action … }`) -
// the three action directives through config.Map and the real modconfig.FailActionDirective, the
// defaults through the real parser too.
func (c *c06Check) Init(cfg *config.Map) error {
	if cfg == nil {
		return nil
	}
	acts := &c06Acts{}
	for k, w := range c06Words {
		w := w
		cfg.Custom(w+"_action", false, false, func() (interface{}, error) {
			return modconfig.ParseActionDirective([]string{w})
		}, modconfig.FailActionDirective, &acts.a[k])
	}
	if _, err := cfg.Process(); err != nil {
		return err
	}
	if c06Cur != nil {
		c06Cur.acts = acts
	}
	return nil
}
func (c *c06Check) Name() string         { return "verif_check" }
func (c *c06Check) InstanceName() string { return "verif_check" + strconv.Itoa(c.id) }

type c06State struct {
	c      *c06Check
	tx     *c06TxCtx
	inst   int
	closed bool
	inner  module.CheckState // the state object of the real stateless check (c.inner != nil)
}

func (c *c06Check) CheckStateForMsg(ctx context.Context, msgMeta *module.MsgMetadata) (module.CheckState, error) {
	tx := c.sh.lookup(msgMeta.ID)
	rec := tx.rec
	rec.mu.Lock()
	defer rec.mu.Unlock()
	inst := rec.inst[c.id]
	rec.inst[c.id] = inst + 1
	rec.instCmd[[2]int{c.id, inst}] = rec.cmd
	st := &c06State{c: c, tx: tx, inst: inst}
	if c.inner != nil {
		in, err := c.inner.CheckStateForMsg(ctx, msgMeta)
		if err != nil {
			return nil, err
		}
		st.inner = in
	}
	return st, nil
}

func (tx *c06TxCtx) script(check int) *c06Script {
	if check < len(tx.scripts) {
		return &tx.scripts[check]
	}
	return &c06Script{conn: c06V{'0', 'i'}, sender: c06V{'0', 'i'}, body: c06V{'0', 'i'}, rcpt: map[int]c06V{}}
}

const c06DelayUnit = 40 * time.Microsecond

func c06EffOf(r module.CheckResult) string {
	// what the property expects the runner to do with a result
	if r.Reason == nil {
		return "n"
	}
	if r.Reject && r.Quarantine {
		return "?"
	}
	if r.Reject {
		return "r"
	}
	if r.Quarantine {
		return "q"
	}
	return "n"
}

// do: one Check* call. arg: what the state object was shown (sender, recipient address, body).
func (s *c06State) do(stage string, di int, arg string, via ...func() module.CheckResult) module.CheckResult {
	rec := s.tx.rec
	s.c.sh.mu.Lock()
	cur := s.c.sh.cur
	s.c.sh.mu.Unlock()
	rec.mu.Lock()
	call := &c06Call{check: s.c.id, inst: s.inst, stage: stage, cmd: rec.cmd}
	rec.calls = append(rec.calls, call)
	started := len(rec.calls)
	if s.closed {
		rec.lateCall++
		if s.inner != nil {
			rec.slLate++
		}
	}
	if cur != nil && cur != s.tx && s.c.sh.any == nil {
		rec.foreign = append(rec.foreign, fmt.Sprintf("check %d stage %s of message %s during a command of message %s", s.c.id, stage, s.tx.id, cur.id))
	}
	if !s.tx.anyArg {
		bad := false
		switch stage[0] {
		case 's':
			bad = arg != s.tx.sender
		case 'r':
			bad = !s.tx.addrs[arg]
		case 'b':
			bad = arg != s.tx.body
		}
		if bad {
			rec.wrongArg = append(rec.wrongArg, fmt.Sprintf("check %d, state object of message %s, stage %s: shown %q", s.c.id, s.tx.id, stage, arg))
		}
	}
	rec.mu.Unlock()
	var dl [4]int
	if s.c.id < len(s.tx.delays) {
		dl = s.tx.delays[s.c.id]
	}
	if d := dl[di]; d > 0 {
		time.Sleep(time.Duration(d) * c06DelayUnit)
	}
	var res module.CheckResult
	if s.inner != nil && len(via) == 1 {
		// the real stateless state object decides (with the meta-data IT holds)
		res = via[0]()
		c06SlMu.Lock()
		seen := c06SlSeen[s.c.id]
		c06SlMu.Unlock()
		if seen != s.tx {
			who := "nobody"
			if seen != nil {
				who = seen.id
			}
			rec.mu.Lock()
			rec.wrongMeta = append(rec.wrongMeta, fmt.Sprintf("stateless check %d, stage %s of message %s: the check function was given the meta-data of message %s", s.c.id, stage, s.tx.id, who))
			rec.mu.Unlock()
		}
	} else {
		res = s.tx.script(s.c.id).at(stage).result(s.c.id, s.tx.acts)
	}
	rec.mu.Lock()
	call.eff = c06EffOf(res)
	rec.seq++
	call.done = rec.seq
	// a call that started later in the same command finished earlier: the completion order was permuted
	for _, o := range rec.calls[:started-1] {
		if o.cmd == call.cmd && o.done == 0 {
			rec.inverted++
			break
		}
	}
	rec.mu.Unlock()
	return res
}

func (s *c06State) CheckConnection(ctx context.Context) module.CheckResult {
	return s.do("c", 0, "", func() module.CheckResult { return s.inner.CheckConnection(ctx) })
}
func (s *c06State) CheckSender(ctx context.Context, from string) module.CheckResult {
	return s.do("s", 1, from, func() module.CheckResult { return s.inner.CheckSender(ctx, from) })
}
func (s *c06State) CheckRcpt(ctx context.Context, to string) module.CheckResult {
	// u<id>@b<blk>.example
	id := strings.TrimPrefix(strings.SplitN(to, "@", 2)[0], "u")
	return s.do("r"+id, 2, to, func() module.CheckResult { return s.inner.CheckRcpt(ctx, to) })
}
func (s *c06State) CheckBody(ctx context.Context, h textproto.Header, b buffer.Buffer) module.CheckResult {
	shown := "?"
	if rd, err := b.Open(); err == nil {
		if data, err := io.ReadAll(rd); err == nil {
			shown = string(data)
		}
		rd.Close()
	}
	return s.do("b", 3, shown, func() module.CheckResult { return s.inner.CheckBody(ctx, h, b) })
}
func (s *c06State) Close() error {
	s.tx.rec.mu.Lock()
	s.closed = true
	s.tx.rec.mu.Unlock()
	if s.inner != nil {
		return s.inner.Close()
	}
	return nil
}

// c06AuthCheck is not part of the script: it only supplies failing SPF and DKIM results at the
// body stage so that the real DMARC verifier has something to evaluate (without them the result
// is "none" whatever the published policy says).
type c06AuthCheck struct{ align byte } // align: c06World.align (0 = 'f')
type c06AuthState struct{ align byte }

func (c06AuthCheck) Init(*config.Map) error { return nil }
func (c06AuthCheck) Name() string           { return "verif_auth" }
func (c06AuthCheck) InstanceName() string   { return "verif_auth" }
func (c c06AuthCheck) CheckStateForMsg(ctx context.Context, m *module.MsgMetadata) (module.CheckState, error) {
	return c06AuthState{align: c.align}, nil
}
func (c06AuthState) CheckConnection(ctx context.Context) module.CheckResult {
	return module.CheckResult{}
}
func (c06AuthState) CheckSender(ctx context.Context, from string) module.CheckResult {
	return module.CheckResult{}
}
func (c06AuthState) CheckRcpt(ctx context.Context, to string) module.CheckResult {
	return module.CheckResult{}
}
func (s c06AuthState) CheckBody(ctx context.Context, h textproto.Header, b buffer.Buffer) module.CheckResult {
	switch s.align {
	case 'a':
		// a passing signature of the organizational domain: aligned (relaxed mode) with every From domain of the worlds
		return module.CheckResult{AuthResult: []authres.Result{
			&authres.DKIMResult{Value: authres.ResultPass, Domain: "example.org", Identifier: "@example.org"},
			&authres.SPFResult{Value: authres.ResultFail, From: "example.org", Helo: "mx.example.org"},
		}}
	case 'm':
		// everything passes - for somebody else's domain
		return module.CheckResult{AuthResult: []authres.Result{
			&authres.DKIMResult{Value: authres.ResultPass, Domain: "other.example.net", Identifier: "@other.example.net"},
			&authres.SPFResult{Value: authres.ResultPass, From: "other.example.net", Helo: "mx.other.example.net"},
		}}
	}
	return module.CheckResult{AuthResult: []authres.Result{
		&authres.DKIMResult{Value: authres.ResultFail, Domain: "example.org", Identifier: "@example.org"},
		&authres.SPFResult{Value: authres.ResultFail, From: "example.org", Helo: "mx.example.org"},
	}}
}
func (c06AuthState) Close() error { return nil }

// ---------------------------------------------------------------- scripted modifiers

// c06ModErr is what a scripted modifier fails with (inside an SMTPError with a 4xx or 5xx code).
type c06ModErr struct {
	scope string
	temp  bool
}

func (e *c06ModErr) Error() string { return "scripted failure of the modifiers of scope " + e.scope }

type c06ModRec struct {
	mu            sync.Mutex
	states        int
	closes        int
	doubleClose   int // Close on a state object that is closed already
	useAfterClose int // Rewrite* on a closed state object
	failed        int // calls that failed as scripted
}

// c06Mod: the one modifier of a modifier group (`modifiers { … }` of the global scope "g", of the
// source block "s", of destination block blk "b"). It rewrites nothing; it fails where the case says.
type c06Mod struct {
	scope string
	blk   int
	mf    *c06MF
	rec   *c06ModRec
}

type c06ModState struct {
	m      *c06Mod
	closed bool
}

func (m *c06Mod) Init(*config.Map) error { return nil }
func (m *c06Mod) Name() string           { return "verif_modifier" }
func (m *c06Mod) InstanceName() string   { return "verif_modifier_" + m.scope + strconv.Itoa(m.blk) }

func (m *c06Mod) ModStateForMsg(ctx context.Context, msgMeta *module.MsgMetadata) (module.ModifierState, error) {
	m.rec.mu.Lock()
	defer m.rec.mu.Unlock()
	m.rec.states++
	return &c06ModState{m: m}, nil
}

func (s *c06ModState) enter() {
	s.m.rec.mu.Lock()
	if s.closed {
		s.m.rec.useAfterClose++
	}
	s.m.rec.mu.Unlock()
}

func (s *c06ModState) fail(kind byte) error {
	s.m.rec.mu.Lock()
	s.m.rec.failed++
	s.m.rec.mu.Unlock()
	inner := &c06ModErr{scope: s.m.scope, temp: kind == 't'}
	if kind == 't' {
		return &exterrors.SMTPError{Code: 451, EnhancedCode: exterrors.EnhancedCode{4, 4, 3}, Message: "scripted temporary modifier failure", Err: inner}
	}
	return &exterrors.SMTPError{Code: 550, EnhancedCode: exterrors.EnhancedCode{5, 1, 1}, Message: "scripted permanent modifier failure", Err: inner}
}

func (s *c06ModState) RewriteSender(ctx context.Context, from string) (string, error) {
	s.enter()
	if s.m.mf != nil && s.m.scope != "b" {
		if k, ok := s.m.mf.sender[s.m.scope]; ok {
			return "", s.fail(k)
		}
	}
	return from, nil
}

func (s *c06ModState) RewriteRcpt(ctx context.Context, to string) ([]string, error) {
	s.enter()
	if s.m.mf != nil {
		if k, ok := s.m.mf.rcpt[c06RcptId(to)][s.m.scope[0]]; ok {
			return nil, s.fail(k)
		}
	}
	return []string{to}, nil
}

func (s *c06ModState) RewriteBody(ctx context.Context, h *textproto.Header, b buffer.Buffer) error {
	s.enter()
	if s.m.mf != nil {
		key := s.m.scope
		if key == "b" {
			key = strconv.Itoa(s.m.blk)
		}
		if k, ok := s.m.mf.body[key]; ok {
			return s.fail(k)
		}
	}
	return nil
}

func (s *c06ModState) Close() error {
	s.m.rec.mu.Lock()
	defer s.m.rec.mu.Unlock()
	if s.closed {
		s.m.rec.doubleClose++
	}
	s.closed = true
	s.m.rec.closes++
	return nil
}

// ---------------------------------------------------------------- recording targets

type c06TgtErr struct{}

func (c06TgtErr) Error() string { return "target refuses a quarantined message" }

type c06Dlv struct {
	t         *c06Target
	meta      *module.MsgMetadata
	rcpts     []int
	addrs     []string
	bodySeen  bool
	bodyQ     bool
	accepted  map[int]bool // per recipient: the target took the body for it
	committed bool
	aborted   bool
}

type c06Target struct {
	id       int
	partial  bool
	refuseQ  bool
	behindQ  bool // the pipeline's target is a REAL queue, this is the target the queue delivers to
	mu       sync.Mutex
	dlvs     []*c06Dlv
	startedN int
}

type c06DlvPartial struct{ *c06Dlv }

func (t *c06Target) Init(*config.Map) error { return nil }
func (t *c06Target) Name() string           { return "verif_target" }
func (t *c06Target) InstanceName() string   { return "verif_target" + strconv.Itoa(t.id) }

func (t *c06Target) Start(ctx context.Context, m *module.MsgMetadata, from string) (module.Delivery, error) {
	t.mu.Lock()
	defer t.mu.Unlock()
	d := &c06Dlv{t: t, meta: m, accepted: map[int]bool{}}
	t.dlvs = append(t.dlvs, d)
	if t.partial {
		return &c06DlvPartial{d}, nil
	}
	return d, nil
}

func c06RcptId(addr string) int {
	id, _ := strconv.Atoi(strings.TrimPrefix(strings.SplitN(addr, "@", 2)[0], "u"))
	return id
}

// The recording targets look at the flag when they are given the body only (the RCPT-time look
// of the real target.remote is TestVerifC06Remote's business): a recipient refused by the second
// target of a block after the first one took it is C03/C04's matter, not this property's.
func (d *c06Dlv) AddRcpt(ctx context.Context, to string, _ smtp.RcptOptions) error {
	d.rcpts = append(d.rcpts, c06RcptId(to))
	d.addrs = append(d.addrs, to)
	return nil
}

func (d *c06Dlv) Body(ctx context.Context, h textproto.Header, b buffer.Buffer) error {
	d.bodySeen = true
	d.bodyQ = d.meta.Quarantine
	if d.t.refuseQ && d.meta.Quarantine {
		return c06TgtErr{}
	}
	for _, r := range d.rcpts {
		d.accepted[r] = true
	}
	return nil
}

func (d *c06DlvPartial) BodyNonAtomic(ctx context.Context, sc module.StatusCollector, h textproto.Header, b buffer.Buffer) {
	d.bodySeen = true
	d.bodyQ = d.meta.Quarantine
	for i, r := range d.rcpts {
		addr := d.addrs[i]
		if d.t.refuseQ && d.meta.Quarantine {
			sc.SetStatus(addr, c06TgtErr{})
		} else {
			d.accepted[r] = true
			sc.SetStatus(addr, nil)
		}
	}
}

func (d *c06Dlv) Abort(ctx context.Context) error  { d.aborted = true; return nil }
func (d *c06Dlv) Commit(ctx context.Context) error { d.committed = true; return nil }

func c06Addr(id, blk int) string { return fmt.Sprintf("u%d@b%d.example", id, blk) }

// c06Collector keeps the books the way the LMTP endpoint does (endpoint/smtp statusWrapper): one
// entry per ACCEPTED RCPT command under the address the pipeline was given (the literal argument
// with the domain normalised); a failure status uses up the oldest command of that address still
// without one; success is not recorded; a command left without a status is answered 250.
type c06Collector struct {
	mu      sync.Mutex
	keys    map[string][]int // pipeline address -> accepted RCPT commands still without a failure status
	fail    map[int]error    // RCPT command -> its failure status
	dropped int              // failure statuses for an address all commands of which have one already
	unknown int              // statuses for an address no accepted command has
	known   map[string]bool
}

func (c *c06Collector) SetStatus(rcpt string, err error) {
	c.mu.Lock()
	defer c.mu.Unlock()
	if !c.known[rcpt] {
		c.unknown++
	}
	if err == nil {
		return
	}
	keys := c.keys[rcpt]
	if len(keys) == 0 {
		c.dropped++
		return
	}
	c.keys[rcpt] = keys[1:]
	c.fail[keys[0]] = err
}

// ---------------------------------------------------------------- one transaction on the real pipeline

type c06Info struct {
	c         *c06Case
	startRef  bool
	startWhy  string
	rcptRef   []bool
	rcptWhy   []string
	bodyKind  string       // none ok chk dmarc tgt other
	status    map[int]bool // accepted recipient -> served (every command naming it)
	cmdOK     []bool       // per RCPT command: accepted and answered 250 after DATA
	partial   []int        // LMTP: DATA was refused before the targets, these accepted RCPT commands got no failure status
	loadRef   bool         // the configuration (an action directive) was refused at load: nothing ran
	statusUnk int          // LMTP: statuses reported for an address no accepted command has
	finalQ    bool
	rec       *c06Rec
	tgts      []*c06Target
	decoyHits int
	modRec    *c06ModRec
	obs       string
	outcome   string   // what has to agree between the two body paths
	nested    bool     // the outer pipeline of a nest op
	inner     *c06Info // the pipeline behind it (nil: it was never started)
	otherQ    bool     // another pipeline the message went through returned a quarantine / had the DMARC policy quarantine
	strayCall bool     // the inner pipeline's checks were called although nothing was handed to it
	txID      string   // MsgMetadata.ID of this transaction: the targets' deliveries of other messages are not its business
	open      bool     // multi ops: the schedule ended before all commands of this transaction were issued
}

// dl: the deliveries of target t that belong to this transaction.
func (in *c06Info) dl(t *c06Target) []*c06Dlv {
	var out []*c06Dlv
	for _, d := range t.dlvs {
		// (a queue gives every attempt an id of its own: <id of the message>-<time of the attempt>)
		if in.txID == "" || d.meta == nil || d.meta.ID == in.txID || (t.behindQ && strings.HasPrefix(d.meta.ID, in.txID+"-")) {
			out = append(out, d)
		}
	}
	return out
}

func c06Why(err error) string {
	var ce *c06Err
	if errors.As(err, &ce) {
		return "chk"
	}
	var me *c06ModErr
	if errors.As(err, &me) {
		return "mod"
	}
	// a scripted fault of a check's CheckStateForMsg: like a modifier's failure not a verdict
	var ie *c06InitErr
	if errors.As(err, &ie) {
		return "mod"
	}
	var te c06TgtErr
	if errors.As(err, &te) {
		return "tgt"
	}
	var se *exterrors.SMTPError
	if errors.As(err, &se) && se.CheckName == "dmarc" {
		return "dmarc"
	}
	return "other:" + err.Error()
}

// c06Pipe is one real MsgPipeline built from a case.
type c06Pipe struct {
	flaky    *c06FlakyCheck // the check of the flaky blocks
	p        *MsgPipeline
	sh       *c06Shared
	ctx      *c06TxCtx // the one message of a run / nest op
	rec      *c06Rec   // = ctx.rec
	decoyRec *c06Rec
	modRec   *c06ModRec
	tgts     []*c06Target
	checks   []module.Check
	acts     *c06Acts // multi ops: what the checks' Init made of the action directives
	queues   []*c06Queue
}

// c06Queue: a real target.queue of the case (target kind q<n|r>).
type c06Queue struct {
	tgt   module.DeliveryTarget
	idle  func() bool
	close func() error
	dir   string
}

// c06SpoolRoot: where the spool directories of the queues live (memory-backed when there is one: the
// queue syncs three files per message).
func c06SpoolRoot() string {
	if st, err := os.Stat("/dev/shm"); err == nil && st.IsDir() {
		return "/dev/shm"
	}
	return os.TempDir()
}

// drain: every queue made its one attempt (or the delivery was aborted) - the spool is empty -,
// then the queues are closed (Close waits for the delivery goroutines) and the spools removed.
// No verdict depends on the clock: the wait ends when the spool is empty; the limit only turns a
// queue that never finishes into an error of the case.
func (pp *c06Pipe) drain() (stuck bool) {
	for _, q := range pp.queues {
		for i := 0; !q.idle(); i++ {
			if i > 600000 {
				stuck = true
				break
			}
			if i < 200 {
				runtime.Gosched()
			} else {
				time.Sleep(100 * time.Microsecond)
			}
		}
		q.close()
		os.RemoveAll(q.dir)
	}
	pp.queues = nil
	return stuck
}

func (r *c06Rec) setCmd(k int) { r.mu.Lock(); r.cmd = k; r.mu.Unlock() }

// c06Build assembles the pipeline of a case. routes: lookup key (domain or full address) -> block;
// nested: what a target of kind px stands for.
func c06Build(c *c06Case, routes map[string]int, nested module.DeliveryTarget, ctx *c06TxCtx) *c06Pipe {
	rec := ctx.rec
	sh := &c06Shared{txs: map[string]*c06TxCtx{ctx.id: ctx}, cur: ctx}
	pp := &c06Pipe{rec: rec, ctx: ctx, sh: sh, modRec: &c06ModRec{}, flaky: &c06FlakyCheck{}}
	mods := func(scope string, blk int) modify.Group {
		// a scope without a `modify` directive: the empty group
		if (scope == "g" && c.nomodG) || (scope == "s" && c.nomodS) || (scope == "b" && c.blocks[blk].nomod) {
			return modify.Group{}
		}
		return modify.Group{Modifiers: []module.Modifier{&c06Mod{scope: scope, blk: blk, mf: c.mf, rec: pp.modRec}}}
	}
	checks := make([]module.Check, len(c.scripts))
	for i := range c.scripts {
		checks[i] = &c06Check{id: i, sh: sh}
	}
	pick := func(ids []int) []module.Check {
		var out []module.Check
		for _, id := range ids {
			out = append(out, checks[id])
		}
		return out
	}
	front := map[int]module.DeliveryTarget{}
	for i, k := range c.tgts {
		// the slot of a nested pipeline stays in the list (target ids are positions) and never gets a delivery
		t := &c06Target{id: i, partial: k[0] == 'p', refuseQ: k[1] == 'r', behindQ: k[0] == 'q'}
		pp.tgts = append(pp.tgts, t)
		front[i] = t
		if k[0] == 'q' {
			// a REAL queue in front of the recording target
			if VerifC06NewQueue == nil {
				panic("the queue constructor hook is not set (zz_verif_c06_queue_test.go missing?)")
			}
			dir, err := os.MkdirTemp(c06SpoolRoot(), "verif_c06_q")
			if err != nil {
				panic(err)
			}
			qt, idle, cl, err := VerifC06NewQueue(dir, t)
			if err != nil {
				panic(err)
			}
			pp.queues = append(pp.queues, &c06Queue{tgt: qt, idle: idle, close: cl, dir: dir})
			front[i] = qt
		}
	}
	blocks := make([]*rcptBlock, len(c.blocks))
	for i, b := range c.blocks {
		rb := &rcptBlock{checks: pick(b.checks), modifiers: mods("b", i)}
		if b.flaky {
			p := c06FlakyPos(c.global, c.source, b.checks)
			l := append([]module.Check(nil), rb.checks[:p]...)
			l = append(l, pp.flaky)
			rb.checks = append(l, rb.checks[p:]...)
		}
		for _, t := range b.targets {
			if c.tgts[t] == "px" {
				rb.targets = append(rb.targets, nested)
			} else {
				rb.targets = append(rb.targets, front[t])
			}
		}
		blocks[i] = rb
	}
	perRcpt := map[string]*rcptBlock{}
	for k, b := range routes {
		perRcpt[k] = blocks[b]
	}
	refuse := &exterrors.SMTPError{Code: 550, EnhancedCode: exterrors.EnhancedCode{5, 1, 1}, Message: "no such block"}
	// a source block for another sender: its check is not applicable to this message
	pp.decoyRec = c06NewRec()
	decoySc := make([]c06Script, 100)
	decoySc[99] = c06Script{conn: c06V{'1', 'r'}, sender: c06V{'1', 'r'}, body: c06V{'1', 'r'}, rcpt: map[int]c06V{}}
	decoy := &c06Check{id: 99, sh: &c06Shared{any: &c06TxCtx{id: "decoy", scripts: decoySc, rec: pp.decoyRec, anyArg: true}}}
	zones := map[string]mockdns.Zone{}
	auth := c06AuthCheck{}
	if c.world != nil {
		if c.world.outcome() != c.dmarc {
			panic("the dmarc field is not what the DNS world yields")
		}
		zones = c.world.zones()
		auth.align = c.world.align
	}
	switch {
	case c.world != nil:
	case c.dmarc == "pass":
		zones["_dmarc.example.org."] = mockdns.Zone{TXT: []string{"v=DMARC1; p=none"}}
	case c.dmarc == "quar":
		zones["_dmarc.example.org."] = mockdns.Zone{TXT: []string{"v=DMARC1; p=quarantine"}}
	case c.dmarc == "rej":
		zones["_dmarc.example.org."] = mockdns.Zone{TXT: []string{"v=DMARC1; p=reject"}}
	}
	globalChecks := pick(c.global)
	if c.dmarc != "off" {
		globalChecks = append(globalChecks, auth)
	}
	pp.p = &MsgPipeline{
		msgpipelineCfg: msgpipelineCfg{
			globalChecks:    globalChecks,
			globalModifiers: mods("g", 0),
			perSource: map[string]sourceBlock{
				"decoy.example": {checks: []module.Check{decoy}, perRcpt: map[string]*rcptBlock{}, defaultRcpt: &rcptBlock{rejectErr: refuse}},
			},
			defaultSource: sourceBlock{
				checks:      pick(c.source),
				modifiers:   mods("s", 0),
				perRcpt:     perRcpt,
				defaultRcpt: &rcptBlock{rejectErr: refuse},
			},
			doDMARC: c.dmarc != "off",
		},
		Hostname: "mx.verif.example",
		Resolver: &mockdns.Resolver{Zones: zones},
		Log:      log.Logger{Out: log.NopOutput{}},
	}
	return pp
}

// c06Tx: one transaction on a real pipeline, driven command by command the way the SMTP endpoint
// (Start, AddRcpt…, Body, Commit|Abort) or the LMTP endpoint (…, BodyNonAtomic, Commit) does.
type c06Tx struct {
	c        *c06Case
	pp       *c06Pipe
	ctx      *c06TxCtx
	info     *c06Info
	meta     *module.MsgMetadata
	dlv      module.Delivery
	phase    int // 0 before MAIL, 1 between MAIL and DATA, 2 finished
	next     int // the next RCPT command
	anyAcc   bool
	keys     map[string][]int       // the endpoint's rcptKeys: pipeline address -> accepted RCPT commands
	before   func(k int)            // called before command k (0 MAIL, k RCPT k, n+1 DATA)
	accepted func(k int, r c06Rcpt) // RCPT command k (0-based) was accepted
}

// c06NewCtx: what the checks are told about the one message of a case. addrs: the addresses the
// recipients are written with.
func c06NewCtx(id string, c *c06Case, sender string, addrs []string) *c06TxCtx {
	ctx := &c06TxCtx{id: id, scripts: c.scripts, delays: c.delays, rec: c06NewRec(), sender: sender, addrs: map[string]bool{}, body: c06Body(id)}
	for _, a := range addrs {
		ctx.addrs[a] = true
	}
	return ctx
}

func c06NewTx(c *c06Case, pp *c06Pipe, ctx *c06TxCtx) *c06Tx {
	tx := &c06Tx{c: c, pp: pp, ctx: ctx}
	tx.info = &c06Info{c: c, rec: ctx.rec, tgts: pp.tgts, status: map[int]bool{}, cmdOK: make([]bool, len(c.rcpts)), nested: c.inner != nil, modRec: pp.modRec, txID: ctx.id}
	tx.meta = &module.MsgMetadata{ID: ctx.id, DontTraceSender: true, OriginalFrom: ctx.sender, Quarantine: c.q0}
	return tx
}

func (tx *c06Tx) setCmd(k int) {
	tx.pp.sh.setCur(tx.ctx)
	tx.ctx.rec.setCmd(k)
	if tx.before != nil {
		tx.before(k)
	}
}

// step issues the next command of the transaction; false: there is none left.
func (tx *c06Tx) step() bool {
	c, info := tx.c, tx.info
	ctx := context.Background()
	switch {
	case tx.phase == 0:
		tx.setCmd(0)
		delivery, err := tx.pp.p.Start(ctx, tx.meta, tx.ctx.sender)
		if err != nil {
			info.startRef = true
			info.startWhy = c06Why(err)
			tx.finish()
			return true
		}
		tx.dlv = delivery
		tx.phase = 1
	case tx.phase == 1 && tx.next < len(c.rcpts):
		k := tx.next
		r := c.rcpts[k]
		tx.next++
		tx.setCmd(k + 1)
		// as the endpoint does: the domain of the literal argument is normalised, the pipeline gets the result
		cleanTo, err := address.CleanDomain(r.literal())
		if err == nil {
			err = tx.dlv.AddRcpt(ctx, cleanTo, smtp.RcptOptions{})
		}
		info.rcptRef = append(info.rcptRef, err != nil)
		if err != nil {
			info.rcptWhy = append(info.rcptWhy, c06Why(err))
		} else {
			info.rcptWhy = append(info.rcptWhy, "")
			tx.anyAcc = true
			if tx.keys == nil {
				tx.keys = map[string][]int{}
			}
			tx.keys[cleanTo] = append(tx.keys[cleanTo], k)
			if tx.accepted != nil {
				tx.accepted(k, r)
			}
		}
	case tx.phase == 1:
		tx.setCmd(len(c.rcpts) + 1)
		tx.data()
		tx.finish()
	default:
		return false
	}
	return true
}

func (tx *c06Tx) data() {
	c, info, delivery := tx.c, tx.info, tx.dlv
	ctx := context.Background()
	hdr := textproto.Header{}
	hdr.Add("Subject", "verif")
	hdr.Add("From", "<someone@"+c.world.fromDomain()+">")
	body := buffer.MemoryBuffer{Slice: []byte(tx.ctx.body)}
	switch {
	case !tx.anyAcc:
		info.bodyKind = "none"
		delivery.Abort(ctx)
	case c.mode == "smtp":
		if err := delivery.Body(ctx, hdr, body); err != nil {
			info.bodyKind = c06Why(err)
			delivery.Abort(ctx)
		} else {
			info.bodyKind = "ok"
			delivery.Commit(ctx)
		}
	default:
		col := &c06Collector{keys: map[string][]int{}, fail: map[int]error{}, known: map[string]bool{}}
		for a, ks := range tx.keys {
			col.keys[a] = append([]int(nil), ks...)
			col.known[a] = true
		}
		delivery.(module.PartialDelivery).BodyNonAtomic(ctx, col, hdr, body)
		delivery.Commit(ctx) // the LMTP endpoint always commits
		info.statusUnk = col.unknown
		// classify: a refusal before the targets reports the same error for every accepted RCPT
		// command; a command without a failure status is answered 250 (the LMTP server fills in
		// success for every command the handler did not report on)
		kinds := map[string]int{}
		n := 0
		for k := range c.rcpts {
			if info.rcptRef[k] {
				continue
			}
			n++
			if e := col.fail[k]; e == nil {
				kinds["ok"]++
				info.cmdOK[k] = true
			} else {
				kinds[c06Why(e)]++
			}
		}
		pre := ""
		for _, k := range []string{"chk", "dmarc", "mod"} {
			if kinds[k] > 0 && pre == "" {
				pre = k
			}
		}
		switch {
		case pre != "" && kinds[pre] == n:
			info.bodyKind = pre
		case pre != "" && kinds[pre]+kinds["ok"] == n:
			// the refusal did not reach every command
			info.bodyKind = pre
			for k := range c.rcpts {
				if !info.rcptRef[k] && col.fail[k] == nil {
					info.partial = append(info.partial, k)
				}
			}
		case pre != "":
			info.bodyKind = "other:mixed-statuses"
		default:
			info.bodyKind = "ok"
			for k := range kinds {
				if strings.HasPrefix(k, "other") {
					info.bodyKind = k
				}
			}
		}
	}
	if c.mode == "smtp" && tx.anyAcc {
		for k := range c.rcpts {
			info.cmdOK[k] = !info.rcptRef[k] && info.bodyKind == "ok"
		}
	}
	if tx.anyAcc {
		for k, r := range c.rcpts {
			if info.rcptRef[k] {
				continue
			}
			if _, seen := info.status[r.id]; !seen {
				info.status[r.id] = true
			}
			if !info.cmdOK[k] {
				info.status[r.id] = false
			}
		}
	}
}

// finish: the transaction is over (MAIL refused, or DATA / the abort without DATA done).
func (tx *c06Tx) finish() {
	tx.phase = 2
	info := tx.info
	// the real queues of the case make their attempt on their own goroutines: wait for them
	if tx.pp.drain() {
		info.bodyKind = "other:a queue did not finish its attempt"
	}
	info.finalQ = tx.meta.Quarantine
	if tx.pp.decoyRec != nil {
		info.decoyHits = len(tx.pp.decoyRec.calls)
	}
	info.obs = c06Obs(info)
	info.outcome = c06CheckOutcome(info)
}

// giveUp: the schedule of a multi op ended before DATA; the endpoint would abort.
func (tx *c06Tx) giveUp() {
	if tx.phase == 1 {
		tx.pp.sh.setCur(tx.ctx)
		tx.dlv.Abort(context.Background())
	}
	tx.phase = 2
	tx.info.open = true
	tx.info.obs = "open"
}

func c06Run(c *c06Case) *c06Info {
	// configuration load: the action directives of the checks through the real parser
	acts := c.acts
	if acts == nil {
		var err error
		if acts, err = c06Load(c.dirs); err != nil {
			if c.dirs == nil {
				panic(err)
			}
			return &c06Info{c: c, loadRef: true, obs: "load=refused", outcome: "load=refused", rec: c06NewRec(), status: map[int]bool{}}
		}
	}
	routes := map[string]int{}
	for i := range c.blocks {
		routes[fmt.Sprintf("b%d.example", i)] = i
	}
	var addrs []string
	for _, r := range c.rcpts {
		addrs = append(addrs, c06Addr(r.id, r.blk))
	}
	sender := c06Sender(c.formOr(), "", "")
	var ip *c06Pipe
	var nested module.DeliveryTarget
	hasNest := func(blk int) bool { return false }
	if c.inner != nil {
		// the inner pipeline routes by full address: its own block for every recipient id
		iroute := map[int]int{}
		for _, r := range c.inner.rcpts {
			iroute[r.id] = r.blk
		}
		ir := map[string]int{}
		for _, r := range c.rcpts {
			ir[c06Addr(r.id, r.blk)] = iroute[r.id]
		}
		ictx := c06NewCtx("verif", c.inner, sender, addrs)
		ip = c06Build(c.inner, ir, nil, ictx)
		nested = ip.p
		hasNest = func(blk int) bool {
			for _, t := range c.blocks[blk].targets {
				if c.tgts[t] == "px" {
					return true
				}
			}
			return false
		}
	}
	ctx := c06NewCtx("verif", c, sender, addrs)
	ctx.acts = acts
	op := c06Build(c, routes, nested, ctx)
	tx := c06NewTx(c, op, ctx)
	var handed []c06Rcpt // what the nested pipeline was given, in order
	var handedCmd []int  // the outer RCPT command of each
	tx.before = func(int) {
		if ip != nil {
			// commands as the inner pipeline sees them: its k-th AddRcpt (its Start runs inside the first), then the body
			ip.rec.setCmd(len(handed) + 1)
		}
	}
	tx.accepted = func(k int, r c06Rcpt) {
		if hasNest(r.blk) {
			handed = append(handed, c06Rcpt{id: r.id})
			handedCmd = append(handedCmd, k)
		}
	}
	for tx.step() {
	}
	info := tx.info
	if ip != nil {
		c06Inner(info, ip, handed, handedCmd)
	}
	return info
}

func c06QuarantineReturned(in *c06Info) bool {
	if in.c.dmarc == "quar" && in.bodyKind != "none" && in.bodyKind != "chk" && !in.startRef {
		return true
	}
	for _, call := range in.rec.calls {
		if call.eff == "q" {
			return true
		}
	}
	return false
}

// c06Inner: the transaction as the nested pipeline saw it. A nest op's inner pipeline never refuses
// a command itself, so it was handed exactly the accepted recipients of the outer blocks that list
// it; it was shown the body iff the outer pipeline's checks and DMARC policy let DATA through.
func c06Inner(out *c06Info, ip *c06Pipe, handed []c06Rcpt, handedCmd []int) {
	c := out.c
	if len(handed) == 0 {
		out.strayCall = len(ip.rec.calls) > 0 || len(ip.decoyRec.calls) > 0
		out.obs += " || in: -"
		out.outcome += " || in: -"
		return
	}
	iroute := map[int]int{}
	for _, r := range c.inner.rcpts {
		iroute[r.id] = r.blk
	}
	ic := c06Clone(c.inner)
	ic.mode = c.mode
	ic.rcpts = nil
	for _, h := range handed {
		ic.rcpts = append(ic.rcpts, c06Rcpt{id: h.id, blk: iroute[h.id]})
	}
	in := &c06Info{c: ic, rec: ip.rec, tgts: ip.tgts, status: map[int]bool{}, cmdOK: make([]bool, len(handed)), txID: "verif"}
	in.rcptRef = make([]bool, len(handed))
	in.rcptWhy = make([]string, len(handed))
	ran := !out.startRef && (out.bodyKind == "ok" || out.bodyKind == "tgt")
	switch {
	case !ran:
		in.bodyKind = "none"
	case c.mode == "smtp" && out.bodyKind == "tgt":
		in.bodyKind = "tgt" // the outer pipeline's own targets never refuse
	default:
		in.bodyKind = "ok"
	}
	for i, h := range handed {
		switch {
		case !ran:
		case c.mode == "smtp":
			in.cmdOK[i] = in.bodyKind == "ok"
		default:
			in.cmdOK[i] = out.cmdOK[handedCmd[i]]
		}
		if _, seen := in.status[h.id]; !seen {
			in.status[h.id] = true
		}
		if !in.cmdOK[i] {
			in.status[h.id] = false
		}
	}
	in.finalQ = out.finalQ
	in.decoyHits = len(ip.decoyRec.calls)
	in.obs = c06Obs(in)
	in.outcome = c06CheckOutcome(in)
	out.inner = in
	out.obs += " || in: " + in.obs
	out.outcome += " || in: " + in.outcome
	in.otherQ = c.q0 || c06QuarantineReturned(out)
	out.otherQ = c06QuarantineReturned(in)
}

// c06Obs renders the canonical observation (the same format as Driver/C06.lean showObs).
func c06Obs(in *c06Info) string {
	c := in.c
	start := "o"
	if in.startRef {
		start = "r"
	}
	var rc []string
	for k, ref := range in.rcptRef {
		s := "o"
		if ref {
			s = "r"
		}
		rc = append(rc, fmt.Sprintf("%d:%s", c.rcpts[k].id, s))
	}
	bodyS := in.bodyKind
	if in.startRef {
		bodyS = "none"
	}
	// what every accepted RCPT command is answered after DATA, in command order
	var st []string
	for k, ref := range in.rcptRef {
		if ref {
			continue
		}
		s := "f"
		if in.cmdOK[k] {
			s = "o"
		}
		st = append(st, fmt.Sprintf("%d:%s", c.rcpts[k].id, s))
	}
	// hand-offs: deliveries whose target took the body (SMTP: only if the whole message was accepted)
	var del []string
	for _, t := range in.tgts {
		for _, d := range in.dl(t) {
			if !d.bodySeen {
				continue
			}
			took := false
			for _, r := range d.rcpts {
				if d.accepted[r] {
					took = true
				}
			}
			if t.behindQ {
				// the target behind a real queue: the queue took the message from the pipeline; what is
				// compared is the flag the queue showed its own target when it made the attempt
				took = true
			}
			if !took || (c.mode == "smtp" && in.bodyKind != "ok") {
				continue
			}
			rs := append([]int(nil), d.rcpts...)
			sort.Ints(rs)
			var p []string
			for _, r := range rs {
				p = append(p, strconv.Itoa(r))
			}
			q := ":0"
			if d.bodyQ {
				q = ":1"
			}
			if in.nested {
				// a quarantine by the nested pipeline's own checks comes before or after this
				// target is served (map order): the flag it saw is the monitor's business only
				q = ""
			}
			del = append(del, fmt.Sprintf("%d:%s%s", t.id, strings.Join(p, "+"), q))
		}
	}
	q := "0"
	if in.finalQ {
		q = "1"
	}
	inGS := map[int]bool{}
	for _, x := range c.global {
		inGS[x] = true
	}
	for _, x := range c.source {
		inGS[x] = true
	}
	var lg []string
	for ci := range c.scripts {
		n := in.rec.inst[ci]
		if n == 0 {
			n = 1
		}
		segs := make([][]string, n)
		for _, call := range in.rec.calls {
			if call.check != ci {
				continue
			}
			// the map of destination blocks is walked in an unspecified order: once a check refused
			// the body, which of the destination-only checks saw it before is not compared
			if call.stage == "b" && bodyS == "chk" && !inGS[ci] {
				continue
			}
			segs[call.inst] = append(segs[call.inst], call.stage)
		}
		var ss []string
		for _, s := range segs {
			ss = append(ss, strings.Join(s, ","))
		}
		lg = append(lg, fmt.Sprintf("%d:%s", ci, strings.Join(ss, "|")))
	}
	return fmt.Sprintf("start=%s rcpt=%s body=%s st=%s q=%s del=%s log=%s", start, strings.Join(rc, ","), bodyS,
		strings.Join(st, ","), q, strings.Join(del, ";"), strings.Join(lg, ";"))
}

// ---------------------------------------------------------------- the property, evaluated on one real run

func c06Has(l []int, x int) bool {
	for _, y := range l {
		if x == y {
			return true
		}
	}
	return false
}

func c06Odd(c *c06Case) bool {
	for _, s := range c.scripts {
		vs := []c06V{s.conn, s.sender, s.body}
		for _, v := range s.rcpt {
			vs = append(vs, v)
		}
		for _, v := range vs {
			if v.proper() == "?" {
				return true
			}
		}
	}
	return false
}

// c06Routed: an accepted RCPT command belongs to a block that lists target t.
func c06Routed(c *c06Case, rcptRef []bool, t int) bool {
	for k, r := range c.rcpts {
		if k < len(rcptRef) && !rcptRef[k] && c06Has(c.blocks[r.blk].targets, t) {
			return true
		}
	}
	return false
}

// c06Must: from the script and the routing alone (proper verdicts only) - must DATA be refused,
// must the message be flagged when the targets get it. rcptRef: which RCPT commands were refused.
func c06Must(c *c06Case, rcptRef []bool) (mustBody, mustQ bool) {
	V := func(ci int, stage string) string { return c.scripts[ci].at(stage).proper() }
	gs := append(append([]int(nil), c.global...), c.source...)
	mustBody = c.dmarc == "rej"
	// flagged by a check or the DMARC policy of this pipeline, or already flagged when this pipeline
	// got the message (by the pipeline it is a target of): the flag is never taken back
	mustQ = c.dmarc == "quar" || c.q0
	seenBlk := map[int]bool{}
	for _, ci := range gs {
		if V(ci, "b") == "r" {
			mustBody = true
		}
		if V(ci, "c") == "q" || V(ci, "s") == "q" || V(ci, "b") == "q" {
			mustQ = true
		}
	}
	for k, r := range c.rcpts {
		if k >= len(rcptRef) || rcptRef[k] {
			continue
		}
		for _, ci := range append(append([]int(nil), gs...), c.blocks[r.blk].checks...) {
			if V(ci, fmt.Sprintf("r%d", r.id)) == "q" {
				mustQ = true
			}
		}
		if seenBlk[r.blk] {
			continue
		}
		seenBlk[r.blk] = true
		for _, ci := range c.blocks[r.blk].checks {
			if V(ci, "b") == "r" {
				mustBody = true
			}
			if V(ci, "c") == "q" || V(ci, "s") == "q" || V(ci, "b") == "q" {
				mustQ = true
			}
		}
	}
	return
}

// c06MonitorNest: both pipelines of a nest op. Every rule is evaluated for each pipeline on its own
// transaction; what ties them: the message the inner pipeline gets is flagged whenever a check or
// the DMARC policy of the outer pipeline quarantines, so every target behind the inner pipeline
// has to see the flag and one that refuses quarantined messages has to refuse - whatever the inner
// pipeline's own checks say.  (Not demanded: that the outer pipeline's own targets see a flag
// raised by the INNER pipeline's checks - those give their verdict when the inner body stage
// runs, which may be after the outer targets were served.)
func c06MonitorNest(out *vh.Out, op string, in *c06Info) {
	c06Monitor(out, op, in)
	if in.strayCall {
		out.Violation("C06/inapplicable-check-called", op, "checks of the nested pipeline were called although no recipient was handed to it")
	}
	if in.inner == nil {
		return
	}
	ii := in.inner
	if !c06Odd(in.c) && !in.startRef {
		mustBody, mustQ := c06Must(in.c, in.rcptRef)
		if mustQ && !mustBody && ii.bodyKind != "none" {
			out.Stat("nest.flagged-by-outer")
			if _, own := c06Must(ii.c, ii.rcptRef); !own {
				out.Stat("nest.flagged-by-outer-only")
			}
		}
		// the message as the inner pipeline gets it
		ii.c.q0 = mustQ && !mustBody
	}
	c06Monitor(out, op, ii)
}

func c06Monitor(out *vh.Out, op string, in *c06Info) {
	c := in.c
	odd := c06Odd(c)
	V := func(ci int, stage string) string { return c.scripts[ci].at(stage).proper() }
	gs := append(append([]int(nil), c.global...), c.source...)
	app := func(r c06Rcpt) []int { return append(append([]int(nil), gs...), c.blocks[r.blk].checks...) }
	nR := len(c.rcpts)
	dataRan := !in.startRef && in.bodyKind != "none"
	delivered := false // some target took the body
	for _, t := range in.tgts {
		for _, d := range in.dl(t) {
			if d.bodySeen {
				delivered = true
			}
		}
	}
	acceptedSomewhere := map[int]bool{}
	for k, r := range c.rcpts {
		if k < len(in.rcptRef) && !in.rcptRef[k] {
			acceptedSomewhere[r.id] = true
		}
	}

	if in.decoyHits > 0 {
		out.Violation("C06/inapplicable-check-called", op, "the check of a source block the sender does not match was called")
	}
	for _, w := range append([]string{in.startWhy, in.bodyKind}, in.rcptWhy...) {
		if strings.HasPrefix(w, "other") {
			out.Violation("C06/unexpected-error", op, w)
		}
	}

	// ---- round 10: a recipient handled in a block is seen by every check of the block - a check
	// that cannot even create its state object for the message has seen nothing of it
	for k, r := range c.rcpts {
		if k < len(in.rcptRef) && !in.rcptRef[k] && r.blk < len(c.blocks) && c.blocks[r.blk].flaky {
			out.Violation("C06/stage-not-seen", op, fmt.Sprintf("RCPT %d (recipient %d) was accepted into destination block %d although a check of that block could not be started for the message (CheckStateForMsg failed): the check saw nothing of the message", k+1, r.id, r.blk))
		}
	}

	// ---- verdicts enforced (oracle from the script, proper verdicts only)
	if !odd {
		mustStart := false
		for _, ci := range gs {
			if V(ci, "c") == "r" || V(ci, "s") == "r" {
				mustStart = true
			}
		}
		if mustStart && !in.startRef {
			out.Violation("C06/reject-not-enforced", op, "a global/source check rejects the connection or the sender, MAIL was accepted")
		}
		if !in.startRef {
			for k, r := range c.rcpts {
				must := false
				for _, ci := range app(r) {
					if V(ci, fmt.Sprintf("r%d", r.id)) == "r" {
						must = true
					}
				}
				for _, ci := range c.blocks[r.blk].checks {
					if V(ci, "c") == "r" || V(ci, "s") == "r" {
						must = true
					}
				}
				if must && !in.rcptRef[k] {
					out.Violation("C06/reject-not-enforced", op, fmt.Sprintf("an applicable check rejects recipient %d (command %d), RCPT was accepted", r.id, k+1))
				}
				if in.rcptRef[k] && !acceptedSomewhere[r.id] {
					for _, t := range in.tgts {
						for _, d := range in.dl(t) {
							if c06Has(d.rcpts, r.id) {
								out.Violation("C06/refused-recipient-reached-target", op, fmt.Sprintf("recipient %d was refused and handed to target %d", r.id, t.id))
							}
						}
					}
				}
			}
		}
		if dataRan {
			mustBody, mustQ := c06Must(c, in.rcptRef)
			if mustBody {
				if in.bodyKind != "chk" && in.bodyKind != "dmarc" {
					out.Violation("C06/reject-not-enforced", op, "an applicable check (or the DMARC policy) rejects the message at the body stage, DATA result: "+in.bodyKind)
				}
				if delivered {
					out.Violation("C06/rejected-message-reached-target", op, "a target was given the body of a message that a check (or the DMARC policy) rejects")
				}
			}
			if mustQ && !mustBody {
				why, where := "an applicable check (or the DMARC policy) quarantines", ""
				if c.q0 {
					why = "the message was flagged as quarantined before this pipeline got it (or: " + why + ")"
				}
				sigF, sigR := "C06/quarantine-not-flagged", "C06/quarantined-message-relayed"
				if !in.nested && strings.HasPrefix(op, "C06 nest ") {
					why, where = "a check or the DMARC policy of a pipeline the message went through quarantines", " behind the nested pipeline"
					sigF, sigR = "C06/nested-quarantine-not-flagged", "C06/nested-quarantined-message-relayed"
				}
				for _, t := range in.tgts {
					hop := where
					if t.behindQ {
						hop = fmt.Sprintf(" (the target behind the queue that is target %d of the pipeline: queue hop)", t.id) + where
					}
					for _, d := range in.dl(t) {
						if d.bodySeen && !d.bodyQ {
							out.Violation(sigF, op, fmt.Sprintf("%s, target %d%s saw the message without the flag", why, t.id, hop))
						}
						if d.bodySeen && d.t.refuseQ && len(d.accepted) > 0 {
							out.Violation(sigR, op, fmt.Sprintf("%s, target %d%s (refuses quarantined messages) took the message", why, t.id, hop))
						}
					}
					if t.behindQ && in.bodyKind == "ok" && len(in.dl(t)) == 0 && c06Routed(c, in.rcptRef, t.id) {
						out.Violation("C06/unexpected-error", op, fmt.Sprintf("the queue that is target %d took the message and never showed it to its target", t.id))
					}
				}
			}
		}
	}

	// ---- a refusal of DATA before the targets refuses EVERY accepted RCPT command: over LMTP each
	// command has its own reply, and a command left without a failure status is answered 250
	// although nothing is delivered for it (SMTP refuses DATA as a whole)
	for _, k := range in.partial {
		sig := "C06/reject-not-enforced"
		if in.bodyKind == "mod" {
			sig = "C06/smtp-lmtp-differ"
		}
		out.Violation(sig, op, fmt.Sprintf("DATA was refused before the targets (%s) and nothing is delivered, but accepted RCPT command %d (recipient %d, written %s) got no failure status: over LMTP it is answered 250",
			in.bodyKind, k+1, c.rcpts[k].id, c.rcpts[k].literal()))
	}

	// ---- RCPT commands naming the same recipient are answered alike after DATA: one address, one
	// block, the same targets - the message is delivered for it or it is not (a failure status that
	// reaches only one of the commands leaves the other one answered 250)
	if dataRan && len(in.partial) == 0 {
		first := map[int]int{}
		for k, r := range c.rcpts {
			if k >= len(in.rcptRef) || in.rcptRef[k] {
				continue
			}
			if j, ok := first[r.id]; !ok {
				first[r.id] = k
			} else if in.cmdOK[j] != in.cmdOK[k] {
				out.Violation("C06/repeated-recipient-answers-differ", op, fmt.Sprintf("RCPT commands %d and %d name the same recipient %d and were both accepted; after DATA (%s) one is answered 250, the other one is refused", j+1, k+1, r.id, in.bodyKind))
			}
		}
	}

	// ---- nothing happens without a verdict (from the calls really made)
	// a refused command is justified by a reject an applicable check returned about its subject:
	// MAIL - connection or sender; RCPT - this recipient (now or, for a repeated recipient, when the
	// check was asked first), or connection/sender by a check created for this recipient's block;
	// DATA - the body.  `any`: some reject was returned while the command ran.
	rejIn := func(cmd int) (any bool, own bool) {
		for _, call := range in.rec.calls {
			if call.eff != "r" {
				continue
			}
			if call.cmd == cmd {
				any = true
			}
			switch {
			case cmd >= 1 && cmd <= nR:
				r := c.rcpts[cmd-1]
				if call.cmd == cmd && (call.stage == "c" || call.stage == "s") {
					own = true
				}
				if call.cmd <= cmd && call.stage == fmt.Sprintf("r%d", r.id) && c06Has(app(r), call.check) {
					own = true
				}
			case call.cmd == cmd:
				own = true
			}
		}
		return
	}
	// a command that failed with a modifier's error: that modifier group is scripted to fail on the
	// command's subject (the modifiers' own errors are handed back as they are; nothing else may
	// produce one)
	if in.startRef && in.startWhy == "mod" && (c.mf == nil || len(c.mf.sender) == 0) {
		out.Violation("C06/refused-without-reject", op, "MAIL failed with a modifier's error, no modifier is scripted to fail on the sender")
	}
	for k := range in.rcptRef {
		if in.rcptRef[k] && in.rcptWhy[k] == "mod" && !c.mf.rcptFault(c.rcpts[k].id) && !c.blocks[c.rcpts[k].blk].flaky {
			out.Violation("C06/refused-without-reject", op, fmt.Sprintf("RCPT %d failed with a modifier's error, no modifier is scripted to fail on recipient %d", k+1, c.rcpts[k].id))
		}
	}
	if in.bodyKind == "mod" && (c.mf == nil || len(c.mf.body) == 0) {
		out.Violation("C06/refused-without-reject", op, "DATA failed with a modifier's error, no modifier is scripted to fail on the body")
	}
	if !odd {
		if in.startRef && in.startWhy != "mod" {
			if any, _ := rejIn(0); !any {
				out.Violation("C06/refused-without-reject", op, "MAIL refused, no check returned a reject")
			}
		}
		for k := range in.rcptRef {
			if !in.rcptRef[k] || in.rcptWhy[k] == "mod" {
				continue
			}
			any, own := rejIn(k + 1)
			if own {
				continue
			}
			if !any {
				out.Violation("C06/refused-without-reject", op, fmt.Sprintf("RCPT %d refused, no check returned a reject", k+1))
			} else {
				out.Violation("C06/rcpt-refused-by-verdict-on-other-recipient", op,
					fmt.Sprintf("RCPT command %d (recipient %d) refused although every reject returned while it ran concerns another recipient (replayed to a lazily created state)", k+1, c.rcpts[k].id))
			}
		}
		if in.bodyKind == "chk" {
			if any, _ := rejIn(nR + 1); !any {
				out.Violation("C06/refused-without-reject", op, "DATA refused, no check returned a reject")
			}
		}
		if in.bodyKind == "dmarc" && c.dmarc != "rej" {
			out.Violation("C06/refused-without-reject", op, "DATA refused by DMARC without a reject policy")
		}
		if in.finalQ {
			why := c.dmarc == "quar" || c.q0 || in.otherQ
			for _, call := range in.rec.calls {
				if call.eff == "q" {
					why = true
				}
			}
			if !why {
				out.Violation("C06/quarantined-without-verdict", op, "message flagged, no check returned a quarantine")
			}
		}
	}

	// ---- every state sees a stage once; a delivered message was seen completely
	type key struct {
		check, inst int
		stage       string
	}
	cnt := map[key]int{}
	for _, call := range in.rec.calls {
		k := key{call.check, call.inst, call.stage}
		cnt[k]++
		if cnt[k] == 2 {
			out.Violation("C06/stage-seen-twice", op, fmt.Sprintf("check %d saw stage %s more than once in one message (same state object)", call.check, call.stage))
		}
	}
	cmdRefused := func(cmd int) bool {
		switch {
		case cmd == 0:
			return in.startRef
		case cmd <= nR:
			return cmd-1 < len(in.rcptRef) && in.rcptRef[cmd-1]
		}
		return in.bodyKind == "chk"
	}
	for ci := range c.scripts {
		for inst := 0; inst+1 < in.rec.inst[ci]; inst++ {
			if !cmdRefused(in.rec.instCmd[[2]int{ci, inst}]) {
				out.Violation("C06/state-recreated", op, fmt.Sprintf("check %d got a second state object although the command that created the first was accepted", ci))
			}
		}
		used := c06Has(gs, ci)
		for _, r := range c.rcpts {
			if c06Has(c.blocks[r.blk].checks, ci) {
				used = true
			}
		}
		if !used && in.rec.inst[ci] > 0 {
			out.Violation("C06/inapplicable-check-called", op, fmt.Sprintf("check %d is referenced by no block this message went through", ci))
		}
	}
	if dataRan && (in.bodyKind == "ok" || in.bodyKind == "tgt" || in.bodyKind == "dmarc" || in.bodyKind == "mod") {
		want := map[int]map[string]bool{}
		add := func(ci int, st string) {
			if want[ci] == nil {
				want[ci] = map[string]bool{}
			}
			want[ci][st] = true
		}
		for _, ci := range gs {
			add(ci, "c")
			add(ci, "s")
			add(ci, "b")
		}
		for k, r := range c.rcpts {
			if in.rcptRef[k] {
				// a recipient only the block's own RewriteRcpt failed for was handled in the scope of
				// every check applying to it (they all let it pass): they saw it, once
				if in.rcptWhy[k] == "mod" && c.mf != nil && len(c.mf.rcpt[r.id]) == 1 && c.mf.rcpt[r.id]['b'] != 0 {
					for _, ci := range app(r) {
						add(ci, "c")
						add(ci, "s")
						add(ci, fmt.Sprintf("r%d", r.id))
					}
				}
				continue
			}
			for _, ci := range app(r) {
				add(ci, "c")
				add(ci, "s")
				add(ci, "b")
				add(ci, fmt.Sprintf("r%d", r.id))
			}
		}
		// the body: exactly one CheckBody call per check and message, whatever the number of blocks
		// that reference the check and of state objects it had
		for ci := range c.scripts {
			if want[ci] == nil || !want[ci]["b"] {
				continue
			}
			n := 0
			for _, call := range in.rec.calls {
				if call.check == ci && call.stage == "b" {
					n++
				}
			}
			if n == 0 {
				out.Violation("C06/stage-not-seen", op, fmt.Sprintf("the message passed the checks, check %d (applies to it: global, source or a destination block with an accepted recipient) saw the body 0 times", ci))
			} else if n > 1 {
				out.Violation("C06/stage-seen-twice", op, fmt.Sprintf("check %d saw the body %d times in one message", ci, n))
			}
		}
		for ci, stages := range want {
			last := in.rec.inst[ci] - 1
			for st := range stages {
				if st == "b" && cnt[key{ci, last, st}] == 0 {
					// reported above unless another state object of the check saw it
					n := 0
					for _, call := range in.rec.calls {
						if call.check == ci && call.stage == "b" {
							n++
						}
					}
					if n == 0 {
						continue
					}
				}
				if cnt[key{ci, last, st}] == 0 {
					out.Violation("C06/stage-not-seen", op, fmt.Sprintf("the message passed the checks, check %d saw stage %s %d times", ci, st, cnt[key{ci, last, st}]))
				}
			}
		}
	}
	// ---- the state objects of a message see that message only, while its own commands run
	for i, f := range in.rec.foreign {
		if i < 3 {
			out.Violation("C06/cross-transaction-call", op, "a state object created for one message was asked while a command of another message ran: "+f)
		}
	}
	for i, w := range in.rec.wrongArg {
		if i < 3 {
			out.Violation("C06/foreign-message-shown", op, "a check was not shown the stage of ITS message: "+w)
		}
	}
	for i, w := range in.rec.wrongMeta {
		if i < 3 {
			out.Violation("C06/foreign-metadata-shown", op, "a check decided about a stage of one message with the meta-data of another one: "+w)
		}
	}
	if in.rec.lateCall > 0 {
		out.Stat("note.call-on-closed-state")
	}
	if in.modRec != nil {
		if in.modRec.doubleClose > 0 {
			out.Stat("note.modifier-state-closed-twice")
		}
		if in.modRec.useAfterClose > 0 {
			out.Stat("note.modifier-state-used-after-close")
		}
	}
}

// outcome compared between the two body paths: everything but what the targets do per recipient
func c06CheckOutcome(in *c06Info) string {
	o := in.obs
	body := in.bodyKind
	if body == "tgt" {
		body = "ok"
	}
	i := strings.Index(o, " body=")
	j := strings.Index(o, " q=")
	k := strings.Index(o, " del=")
	l := strings.Index(o, " log=")
	st := ""
	if body == "chk" || body == "dmarc" || body == "mod" {
		// refused before the targets: every accepted RCPT command is refused on both paths
		st = o[strings.Index(o, " st="):j]
	}
	return o[:i] + " body=" + body + st + o[j:k] + o[l:]
}

func c06Stats(out *vh.Out, in *c06Info) {
	c := in.c
	if in.nested {
		out.Stat("nest")
		if in.inner == nil {
			out.Stat("nest.inner.not-reached")
		} else {
			ii := in.inner
			out.Stat("nest.inner.body." + ii.bodyKind)
			out.Stat(fmt.Sprintf("nest.inner.rcpts.%d", len(ii.c.rcpts)))
			out.Stat(fmt.Sprintf("nest.inner.checks.%d", len(ii.c.scripts)))
			if ii.finalQ && !ii.otherQ {
				out.Stat("nest.inner.flagged-by-inner-only")
			}
			refusing := false
			for _, t := range ii.tgts {
				for _, d := range ii.dl(t) {
					if d.bodySeen && t.refuseQ {
						refusing = true
					}
				}
			}
			if refusing {
				out.Stat("nest.inner.refusing-target-got-body")
			}
			for _, call := range ii.rec.calls {
				out.Stat("nest.inner.verdict." + call.eff)
			}
		}
	}
	if c.q0 {
		out.Stat("preflagged")
	}
	if !c.mf.empty() {
		out.Stat("mf")
		if in.startRef && in.startWhy == "mod" {
			out.Stat("mf.mail-failed-in-modifier")
		}
		if in.bodyKind == "mod" {
			out.Stat("mf.data-failed-in-modifier")
		}
		accBlk := map[int]bool{} // blocks with an accepted recipient so far
		hit := map[int]bool{}    // blocks in which a LATER recipient failed in the block's own modifiers
		for k, r := range c.rcpts {
			if k >= len(in.rcptRef) {
				break
			}
			switch {
			case !in.rcptRef[k]:
				accBlk[r.blk] = true
				if hit[r.blk] {
					out.Stat("mf.block-recipient-accepted-after-a-failure")
				}
			case in.rcptWhy[k] == "mod":
				sc := "gs"
				if len(accBlk) > 0 && c.mf.rcpt[r.id]['b'] == 0 {
					out.Stat("mf.rcpt-failed-in-global-or-source-modifier-after-an-accepted-one")
				}
				if len(c.mf.rcpt[r.id]) == 1 && c.mf.rcpt[r.id]['b'] != 0 {
					sc = "b"
					if accBlk[r.blk] {
						hit[r.blk] = true
					}
				}
				out.Stat("mf.rcpt-failed-in-modifier." + sc)
			}
		}
		if len(hit) > 0 && !in.startRef && in.bodyKind != "none" {
			out.Stat("mf.block-with-accepted-rcpt-had-later-modifier-failure.data-" + in.bodyKind)
			for b := range hit {
				for _, ci := range c.blocks[b].checks {
					if p := c.scripts[ci].body.proper(); p == "r" || p == "q" {
						out.Stat("mf.block-with-accepted-rcpt-had-later-modifier-failure.block-check-body-verdict-" + p)
					}
				}
			}
		}
	}
	if c.nomodG {
		out.Stat("nomod.global-scope")
	}
	if c.nomodS {
		out.Stat("nomod.source-block")
	}
	{
		any, hit := false, false
		for k, r := range c.rcpts {
			blk := c.blocks[r.blk]
			if !blk.nomod {
				continue
			}
			any = true
			if k < len(in.rcptRef) && !in.rcptRef[k] && len(blk.checks) > 0 && !in.startRef {
				hit = true
				for _, ci := range blk.checks {
					if c06Has(c.global, ci) || c06Has(c.source, ci) {
						continue
					}
					if p := c.scripts[ci].body.proper(); p == "r" || p == "q" {
						out.Stat("nomod.block-without-modifiers.accepted-rcpt.own-check-body-verdict-" + p)
					}
				}
			}
		}
		if any {
			out.Stat("nomod.recipient-routed-to-block-without-modifiers")
		}
		if hit {
			out.Stat("nomod.block-without-modifiers.with-checks.accepted-rcpt.data-" + in.bodyKind)
		}
		mixed := map[bool]bool{}
		for _, b := range c.blocks {
			mixed[b.nomod] = true
		}
		if len(mixed) == 2 {
			out.Stat("nomod.blocks-with-and-without-modifiers")
		}
	}
	{
		acc := map[int][]int{}
		for k, r := range c.rcpts {
			if r.sp != 0 {
				out.Stat("rcpt.spelling." + string(r.sp))
			}
			if k < len(in.rcptRef) && !in.rcptRef[k] {
				acc[r.id] = append(acc[r.id], k)
			}
		}
		for _, ks := range acc {
			if len(ks) < 2 || in.startRef {
				continue
			}
			out.Stat("dup.recipient-accepted-by-several-commands." + c.mode + ".data-" + in.bodyKind)
			for _, k := range ks[1:] {
				if c.rcpts[k].sp != c.rcpts[ks[0]].sp {
					out.Stat("dup.recipient-accepted-by-several-commands.spelled-differently")
					break
				}
			}
		}
		if in.statusUnk > 0 {
			out.Stat("note.status-for-unknown-address")
		}
	}
	out.Stat("mode." + c.mode)
	out.Stat("sender-form." + string(c.formOr()))
	if c.formOr() == 'z' && !in.startRef {
		lazy := false
		for _, call := range in.rec.calls {
			if call.cmd >= 1 && (call.stage == "c" || call.stage == "s") {
				lazy = true
			}
		}
		if lazy {
			out.Stat("sender-form.z.state-created-after-mail")
		}
	}
	out.Stat("dmarc." + c.dmarc)
	out.Stat(fmt.Sprintf("checks.%d", len(c.scripts)))
	out.Stat(fmt.Sprintf("blocks.%d", len(c.blocks)))
	out.Stat(fmt.Sprintf("rcpts.%d", len(c.rcpts)))
	if in.startRef {
		out.Stat("start.refused")
	} else {
		out.Stat("start.ok")
		nref := 0
		for _, r := range in.rcptRef {
			if r {
				nref++
			}
		}
		out.Stat(fmt.Sprintf("rcpt.refused.%d", nref))
		out.Stat("body." + in.bodyKind)
		if in.finalQ {
			out.Stat("quarantined")
		}
	}
	multi := false
	for ci := range c.scripts {
		places := 0
		if c06Has(c.global, ci) {
			places++
		}
		if c06Has(c.source, ci) {
			places++
		}
		for _, b := range c.blocks {
			if c06Has(b.checks, ci) {
				places++
			}
		}
		if places > 1 {
			multi = true
		}
		if in.rec.inst[ci] > 1 {
			out.Stat("state.recreated")
		}
	}
	if multi {
		out.Stat("check.in-several-blocks")
	}
	seen := map[int]bool{}
	for _, r := range c.rcpts {
		if seen[r.id] {
			out.Stat("rcpt.duplicate")
		}
		seen[r.id] = true
	}
	replayed := false
	for _, call := range in.rec.calls {
		if call.cmd >= 1 && call.cmd <= len(c.rcpts) && strings.HasPrefix(call.stage, "r") && call.stage != fmt.Sprintf("r%d", c.rcpts[call.cmd-1].id) {
			replayed = true
			if call.eff == "r" {
				out.Stat("replay.reject-for-other-recipient")
			}
		}
		out.Stat("verdict." + call.eff)
	}
	// a repeated request answered from memory: an RCPT command refused without any call returning a reject in it
	for k, ref := range in.rcptRef {
		if !ref {
			continue
		}
		called := false
		for _, call := range in.rec.calls {
			if call.cmd == k+1 && call.eff == "r" {
				called = true
			}
		}
		if !called {
			out.Stat("repeat.remembered-reject")
		}
	}
	if replayed {
		out.Stat("rcpt.replayed-to-new-state")
	}
	if in.rec.inverted > 0 {
		out.Stat("completion-order.permuted")
	}
	for _, t := range in.tgts {
		for _, d := range in.dl(t) {
			if d.committed && !d.bodySeen {
				out.Stat("note.commit-without-body")
			}
		}
	}
}

// ---------------------------------------------------------------- one case with its companions

func c06Clone(c *c06Case) *c06Case {
	n := *c
	n.scripts = nil
	for _, s := range c.scripts {
		m := map[int]c06V{}
		for k, v := range s.rcpt {
			m[k] = v
		}
		n.scripts = append(n.scripts, c06Script{s.conn, s.sender, s.body, m})
	}
	n.delays = append([][4]int(nil), c.delays...)
	n.mf = c.mf.clone()
	if c.inner != nil {
		n.inner = c06Clone(c.inner)
	}
	return &n
}

// c06DirsMonitor: the configuration with these action directives was ACCEPTED - every directive
// has to be one of the documented actions (then the run has to enforce the meaning of its
// lower-case spelling: the script's verdict letters are the slots, the monitor rules do the rest).
func c06DirsMonitor(out *vh.Out, op string, d *c06Dirs) {
	if d == nil {
		return
	}
	for k := range d {
		if c06DocWord(d[k]) < 0 {
			out.Violation("C06/invalid-action-accepted", op, fmt.Sprintf("the action directive %q (slot %c) names none of reject / quarantine / ignore and was accepted at configuration load", strings.Join(d[k], " "), c06Slots[k]))
		}
	}
}

func c06DirsStats(out *vh.Out, d *c06Dirs, refused bool) {
	if d == nil {
		return
	}
	if refused {
		out.Stat("dirs.load-refused")
	} else {
		out.Stat("dirs.loaded")
	}
	for k := range d {
		w := c06DocWord(d[k])
		switch {
		case len(d[k]) == 0:
			out.Stat("dirs.directive.no-arguments")
		case w < 0:
			out.Stat("dirs.directive.unknown-word")
		case d[k][0] == c06Words[w]:
			out.Stat(fmt.Sprintf("dirs.directive.lower-case.args-%d", len(d[k])-1))
		default:
			out.Stat("dirs.directive.other-case")
		}
	}
}

// c06Round9Stats: the DNS worlds and the queue hops of the run ops.
func c06Round9Stats(out *vh.Out, in *c06Info) {
	c := in.c
	if w := c.world; w != nil {
		out.Stat("world")
		out.Stat("world.from-" + string(w.from) + ".at-from-" + c06AnswerClass(w.sub) + ".at-org-" + c06AnswerClass(w.org))
		out.Stat("world.align-" + string(w.align) + ".outcome-" + c.dmarc)
		if w.from != 'o' && c06AnswerClass(w.sub) == "stray-only" && (c.dmarc == "quar" || c.dmarc == "rej") {
			out.Stat("world.stray-at-from.policy-at-org." + c.dmarc + ".data-" + in.bodyKind)
		}
	}
	for _, t := range in.tgts {
		if !t.behindQ {
			continue
		}
		out.Stat("queue.target")
		for _, d := range in.dl(t) {
			if !d.bodySeen {
				continue
			}
			k := "queue.hop.flag-" + strconv.FormatBool(d.bodyQ)
			if t.refuseQ {
				k += ".refusing-target"
			}
			out.Stat(k)
			if d.bodyQ && !c.q0 && c.dmarc != "quar" {
				// which stage raised the flag (first one found)
				for ci := range c.scripts {
					for _, call := range in.rec.calls {
						if call.check == ci && call.eff == "q" {
							out.Stat("queue.hop.flagged-by-stage-" + call.stage[:1])
						}
					}
				}
			}
		}
	}
}

func c06One(out *vh.Out, c *c06Case) *c06Info {
	op := c.op()
	in := c06Run(c)
	out.Corr(op, in.obs)
	c06DirsStats(out, c.dirs, in.loadRef)
	if in.loadRef {
		return in
	}
	c06DirsMonitor(out, op, c.dirs)
	c06MonitorNest(out, op, in)
	c06Stats(out, in)
	c06Round9Stats(out, in)
	return in
}

func c06CaseRun(out *vh.Out, c *c06Case, companions bool) {
	base := c06One(out, c)
	if !companions || base.loadRef {
		return
	}
	op := c.op()
	// the other body path
	o := c06Clone(c)
	if c.mode == "smtp" {
		o.mode = "lmtp"
	} else {
		o.mode = "smtp"
	}
	other := c06One(out, o)
	if base.outcome != other.outcome {
		out.Violation("C06/smtp-lmtp-differ", op, "the two body paths disagree: "+c.mode+": "+base.obs+" || "+o.mode+": "+other.obs)
	}
	// other completion orders (derived from the op line, so a replay repeats them)
	h := uint64(1469598103934665603)
	for i := 0; i < len(op); i++ {
		h = (h ^ uint64(op[i])) * 1099511628211
	}
	r := vh.NewRng(h)
	for k := 0; k < 2; k++ {
		v := c06Clone(c)
		for i := range v.delays {
			for j := 0; j < 4; j++ {
				v.delays[i][j] = r.Intn(4)
			}
		}
		if v.inner != nil {
			for i := range v.inner.delays {
				for j := 0; j < 4; j++ {
					v.inner.delays[i][j] = r.Intn(4)
				}
			}
		}
		if v.op() == op {
			continue
		}
		vi := c06One(out, v)
		if vi.obs != base.obs {
			out.Violation("C06/order-dependent", op, "other completion order ("+v.op()+"): "+vi.obs+" || "+base.obs)
		}
	}
	// 'ignore' changes nothing
	ig := c06Clone(c)
	changed := false
	strip := func(v c06V) c06V {
		if v.raw == '1' && v.act == 'i' {
			changed = true
			return c06V{'0', 'i'}
		}
		return v
	}
	for _, cc := range []*c06Case{ig, ig.inner} {
		if cc == nil {
			continue
		}
		for i := range cc.scripts {
			s := &cc.scripts[i]
			s.conn, s.sender, s.body = strip(s.conn), strip(s.sender), strip(s.body)
			for k, v := range s.rcpt {
				s.rcpt[k] = strip(v)
			}
		}
	}
	if changed {
		out.Stat("ignore-variant")
		ii := c06One(out, ig)
		if ii.obs != base.obs {
			out.Violation("C06/ignore-changed-outcome", op, "with every 'ignore' verdict removed: "+ii.obs+" || "+base.obs)
		}
	}
}

// ---------------------------------------------------------------- several transactions on one parser-built pipeline

// c06Src: one source block of a multi op (the last one of the list is default_source, source k
// before it is `source s<k>.example bücher<k>.example`).
type c06Src struct {
	checks []int
	blocks []c06Block
	nomod  bool // no `modify` directive in the source block
}

// c06Multi: ONE pipeline object built by the real configuration parser from generated
// configuration text (every check of a scope in its own `check { }` directive, so the check lists
// have the lengths and capacities repeated append gives them), and several transactions on it
// whose commands are interleaved as the schedule says. Every transaction is a c06Case of its own
// (mode, sender, recipients, verdicts and delays for THIS message, pre-set flag); dmarc / global /
// source / blocks / tgts of it are filled in from the pipeline and the source block its sender selects.
type c06Multi struct {
	dmarc  string
	global []int
	tgts   []string
	srcs   []c06Src
	sched  []int
	txs    []*c06Case
	dirs   *c06Dirs // the `<x>_action` directives written into every check's configuration block (nil: none, the defaults apply)
	sl     []int    // round 10: the checks that are REAL stateless checks (op token sl=)
	// round 11: the members of the named top-level block `checks verif_c06_grp { … }` (op token g=);
	// every scope whose check list begins with exactly these checks writes that beginning as
	// `check &verif_c06_grp` (the rest in `check { }` directives of its own, as before)
	grp []int
}

const c06GrpName = "verif_c06_grp"

// c06GrpUsed: does the scope write its leading checks as a reference to the named group?
func c06GrpUsed(grp, ids []int, flaky bool) bool {
	if len(grp) == 0 || len(ids) < len(grp) || flaky {
		return false
	}
	for i, g := range grp {
		if ids[i] != g {
			return false
		}
	}
	return true
}

func c06SrcDomain(m *c06Multi, k int) (dom, idn string) {
	if k == len(m.srcs)-1 {
		return "", ""
	}
	return fmt.Sprintf("s%d.example", k), fmt.Sprintf("bücher%d.example", k)
}

// fill: the per-transaction view of the pipeline
func (m *c06Multi) fill() {
	for _, c := range m.txs {
		c.dmarc, c.global, c.tgts = m.dmarc, m.global, m.tgts
		c.source, c.blocks, c.nomodS = m.srcs[c.src].checks, m.srcs[c.src].blocks, m.srcs[c.src].nomod
		c.dirs = m.dirs
	}
}

func (m *c06Multi) op() string {
	var ss []string
	for _, s := range m.srcs {
		var bl []string
		for _, b := range s.blocks {
			bl = append(bl, b.spec())
		}
		sp := c06Ids(s.checks) + "~" + strings.Join(bl, ";")
		if s.nomod {
			sp += "~n"
		}
		ss = append(ss, sp)
	}
	var sc strings.Builder
	for _, i := range m.sched {
		sc.WriteByte(byte('0' + i))
	}
	f := []string{"C06", "multi", m.dmarc, c06Ids(m.global), strings.Join(m.tgts, ","), strings.Join(ss, "_"), sc.String()}
	if len(m.grp) > 0 {
		f = append(f, "g="+c06Ids(m.grp))
	}
	if len(m.sl) > 0 {
		f = append(f, "sl="+c06Ids(m.sl))
	}
	if m.dirs != nil {
		f = append(f, m.dirs.String())
	}
	for _, c := range m.txs {
		tf := c.fields()
		who := strconv.Itoa(c.src) + string(c.formOr())
		if c.q0 {
			who += "Q"
		}
		f = append(f, "//", c.mode, who, tf[6], tf[7], tf[8])
	}
	return strings.Join(f, " ")
}

func c06ParseMulti(op string) (m *c06Multi, err error) {
	defer func() {
		if r := recover(); r != nil {
			err = fmt.Errorf("bad op: %v", r)
		}
	}()
	t := strings.Fields(op)
	var dirs *c06Dirs
	var sl, grp []int
	if len(t) > 8 && strings.HasPrefix(t[7], "g=") {
		grp = c06ParseIds(t[7][2:])
		if len(grp) == 0 {
			return nil, errors.New("empty g= token")
		}
		for i, k := range grp {
			if k < 0 || c06Has(grp[:i], k) {
				return nil, errors.New("bad g= token")
			}
		}
		t = append(append([]string(nil), t[:7]...), t[8:]...)
	}
	if len(t) > 8 && strings.HasPrefix(t[7], "sl=") {
		sl = c06ParseIds(t[7][3:])
		if len(sl) == 0 {
			return nil, errors.New("empty sl= token")
		}
		for i, k := range sl {
			if k < 0 || k >= c06SlMax || (i > 0 && sl[i-1] >= k) {
				return nil, errors.New("bad sl= token")
			}
		}
		t = append(append([]string(nil), t[:7]...), t[8:]...)
	}
	if len(t) > 8 && strings.HasPrefix(t[7], "d=") {
		if dirs, err = c06ParseDirs(t[7]); err != nil {
			return nil, err
		}
		t = append(append([]string(nil), t[:7]...), t[8:]...)
	}
	if len(t) < 13 || t[0] != "C06" || t[1] != "multi" || (len(t)-7)%6 != 0 {
		return nil, errors.New("not a C06 multi op")
	}
	m = &c06Multi{dmarc: t[2], global: c06ParseIds(t[3]), tgts: strings.Split(t[4], ","), dirs: dirs, sl: sl, grp: grp}
	for _, k := range m.tgts {
		if k != "an" && k != "ar" && k != "pn" && k != "pr" {
			return nil, errors.New("multi: target kind " + k)
		}
	}
	for _, s := range strings.Split(t[5], "_") {
		p := strings.Split(s, "~")
		if len(p) < 2 || len(p) > 3 || (len(p) == 3 && p[2] != "n") {
			return nil, errors.New("bad source block " + s)
		}
		src := c06Src{checks: c06ParseIds(p[0]), nomod: len(p) == 3}
		for _, b := range strings.Split(p[1], ";") {
			src.blocks = append(src.blocks, c06ParseBlock(b))
		}
		m.srcs = append(m.srcs, src)
	}
	for _, ch := range t[6] {
		if ch < '0' || ch > '9' {
			return nil, errors.New("bad schedule")
		}
		m.sched = append(m.sched, int(ch-'0'))
	}
	for i := 7; i < len(t); i += 6 {
		if t[i] != "//" {
			return nil, errors.New("bad transaction separator")
		}
		who := t[i+2]
		if len(who) < 2 || len(who) > 3 || (len(who) == 3 && who[2] != 'Q') || strings.IndexByte(c06Forms, who[1]) < 0 {
			return nil, errors.New("bad sender " + who)
		}
		src := int(who[0] - '0')
		if src < 0 || src >= len(m.srcs) {
			return nil, errors.New("bad source index " + who)
		}
		if who[1] == 'z' && src != len(m.srcs)-1 {
			return nil, errors.New("the null reverse-path is handled by the default source: " + who)
		}
		bl := strings.Split(t[5], "_")[src]
		c, err := c06ParseFields([]string{t[i+1], m.dmarc, t[3], "-", strings.Split(bl, "~")[1], t[4], t[i+3], t[i+4], t[i+5]})
		if err != nil {
			return nil, err
		}
		c.src, c.form, c.q0 = src, who[1], len(who) == 3
		if len(m.txs) > 0 && len(c.scripts) != len(m.txs[0].scripts) {
			return nil, errors.New("transactions with different numbers of checks")
		}
		m.txs = append(m.txs, c)
	}
	for _, i := range m.sched {
		if i >= len(m.txs) {
			return nil, errors.New("schedule names a transaction that does not exist")
		}
	}
	for _, k := range m.sl {
		if k >= len(m.txs[0].scripts) {
			return nil, errors.New("sl= names a check that does not exist")
		}
	}
	for _, k := range m.grp {
		if k >= len(m.txs[0].scripts) {
			return nil, errors.New("g= names a check that does not exist")
		}
	}
	m.fill()
	return m, nil
}

// c06Cur: the pipeline under construction - the module factories below hand out its objects.
var c06Cur *c06Pipe

func init() {
	num := func(args []string, i int) (int, error) {
		if i >= len(args) {
			return 0, errors.New("verif_c06: missing argument")
		}
		return strconv.Atoi(args[i])
	}
	module.Register("check.verif_c06", func(_, _ string, _, args []string) (module.Module, error) {
		id, err := num(args, 0)
		if err != nil || c06Cur == nil || id >= len(c06Cur.checks) {
			return nil, errors.New("verif_c06: no such check")
		}
		return c06Cur.checks[id].(*c06Check), nil
	})
	c06SlRegister()
	module.Register("check.verif_c06_flaky", func(_, _ string, _, _ []string) (module.Module, error) {
		if c06Cur == nil {
			return nil, errors.New("verif_c06_flaky: no pipeline under construction")
		}
		return c06Cur.flaky, nil
	})
	module.Register("check.verif_c06_auth", func(_, _ string, _, _ []string) (module.Module, error) {
		return c06AuthCheck{}, nil
	})
	module.Register("target.verif_c06_tgt", func(_, _ string, _, args []string) (module.Module, error) {
		id, err := num(args, 0)
		if err != nil || c06Cur == nil || id >= len(c06Cur.tgts) {
			return nil, errors.New("verif_c06_tgt: no such target")
		}
		return c06Cur.tgts[id], nil
	})
	module.Register("modify.verif_c06_mod", func(_, _ string, _, args []string) (module.Module, error) {
		blk, err := num(args, 1)
		if err != nil || c06Cur == nil {
			return nil, errors.New("verif_c06_mod: bad arguments")
		}
		return &c06Mod{scope: args[0], blk: blk, rec: c06Cur.modRec}, nil
	})
}

// c06ConfigText: the configuration of the pipeline of a multi op.
func c06ConfigText(m *c06Multi) string {
	var b strings.Builder
	quote := func(args []string) string {
		var p []string
		for _, a := range args {
			p = append(p, strconv.Quote(a))
		}
		return strings.Join(p, " ")
	}
	one := func(ind string, id int) {
		if m.dirs == nil {
			fmt.Fprintf(&b, "%sverif_c06 %d\n", ind, id)
			return
		}
		fmt.Fprintf(&b, "%sverif_c06 %d {\n", ind, id)
		for k, w := range c06Words {
			fmt.Fprintf(&b, "%s    %s_action %s\n", ind, w, quote(m.dirs[k]))
		}
		fmt.Fprintf(&b, "%s}\n", ind)
	}
	if len(m.grp) > 0 {
		// the named group: a top-level configuration block, its list built by CheckGroup.Init
		fmt.Fprintf(&b, "checks %s {\n", c06GrpName)
		for _, id := range m.grp {
			one("    ", id)
		}
		b.WriteString("}\n")
	}
	checks := func(ind string, ids []int, flakyAt ...int) {
		if c06GrpUsed(m.grp, ids, len(flakyAt) == 1) {
			fmt.Fprintf(&b, "%scheck &%s\n", ind, c06GrpName)
			ids = ids[len(m.grp):]
		}
		for pos, id := range append(append([]int(nil), ids...), -1) {
			if len(flakyAt) == 1 && flakyAt[0] == pos {
				fmt.Fprintf(&b, "%scheck {\n%s    verif_c06_flaky\n%s}\n", ind, ind, ind)
			}
			if id < 0 {
				break
			}
			if m.dirs == nil {
				fmt.Fprintf(&b, "%scheck {\n%s    verif_c06 %d\n%s}\n", ind, ind, id, ind)
				continue
			}
			fmt.Fprintf(&b, "%scheck {\n%s    verif_c06 %d {\n", ind, ind, id)
			for k, w := range c06Words {
				fmt.Fprintf(&b, "%s        %s_action %s\n", ind, w, quote(m.dirs[k]))
			}
			fmt.Fprintf(&b, "%s    }\n%s}\n", ind, ind)
		}
	}
	checks("", m.global)
	if m.dmarc != "off" {
		b.WriteString("check {\n    verif_c06_auth\n}\n")
		b.WriteString("dmarc yes\n")
	} else {
		b.WriteString("dmarc no\n")
	}
	b.WriteString("modify {\n    verif_c06_mod g 0\n}\n")
	for k, s := range m.srcs {
		if dom, idn := c06SrcDomain(m, k); dom != "" {
			fmt.Fprintf(&b, "source %s %s {\n", dom, idn)
		} else {
			b.WriteString("default_source {\n")
		}
		checks("    ", s.checks)
		if !s.nomod {
			fmt.Fprintf(&b, "    modify {\n        verif_c06_mod s %d\n    }\n", k)
		}
		for i, blk := range s.blocks {
			fmt.Fprintf(&b, "    destination b%d.example {\n", i)
			if blk.flaky {
				checks("        ", blk.checks, c06FlakyPos(m.global, s.checks, blk.checks))
			} else {
				checks("        ", blk.checks)
			}
			if !blk.nomod {
				fmt.Fprintf(&b, "        modify {\n            verif_c06_mod b %d\n        }\n", i)
			}
			for _, t := range blk.targets {
				fmt.Fprintf(&b, "        deliver_to verif_c06_tgt %d\n", t)
			}
			b.WriteString("    }\n")
		}
		b.WriteString("    default_destination {\n        reject 550 5.1.1 \"no such block\"\n    }\n}\n")
	}
	return b.String()
}

// c06BuildParsed: the pipeline of a multi op, through cfgparser.Read and New (parseMsgPipelineRootCfg).
func c06BuildParsed(m *c06Multi, ctxs []*c06TxCtx) (*c06Pipe, error) {
	sh := &c06Shared{txs: map[string]*c06TxCtx{}}
	for _, ctx := range ctxs {
		sh.txs[ctx.id] = ctx
	}
	pp := &c06Pipe{sh: sh, modRec: &c06ModRec{}, flaky: &c06FlakyCheck{}}
	for i := range m.txs[0].scripts {
		ck := &c06Check{id: i, sh: sh}
		if c06Has(m.sl, i) {
			ck.inner = c06SlNew(i, c06SlAction(m, i))
		}
		pp.checks = append(pp.checks, ck)
	}
	c06SlMu.Lock()
	c06SlSh = sh
	c06SlMu.Unlock()
	for i, k := range m.tgts {
		pp.tgts = append(pp.tgts, &c06Target{id: i, partial: k[0] == 'p', refuseQ: k[1] == 'r'})
	}
	nodes, err := parser.Read(strings.NewReader(c06ConfigText(m)), "verif_c06.conf")
	if err != nil {
		return nil, err
	}
	c06Cur = pp
	defer func() { c06Cur = nil }()
	globals := map[string]interface{}{}
	// top-level `checks <name> { }` blocks are module instances (what maddy.go's RegisterModules does
	// with them): registered, initialised by the first reference (module.GetInstance)
	var rest []config.Node
	for _, n := range nodes {
		if n.Name == "checks" && len(n.Args) == 1 {
			module.RegisterInstance(&CheckGroup{instName: n.Args[0]}, config.NewMap(globals, n))
			delete(module.Initialized, n.Args[0])
			continue
		}
		rest = append(rest, n)
	}
	nodes = rest
	p, err := New(globals, nodes)
	if err != nil {
		return nil, err
	}
	zones := map[string]mockdns.Zone{}
	switch m.dmarc {
	case "pass":
		zones["_dmarc.example.org."] = mockdns.Zone{TXT: []string{"v=DMARC1; p=none"}}
	case "quar":
		zones["_dmarc.example.org."] = mockdns.Zone{TXT: []string{"v=DMARC1; p=quarantine"}}
	case "rej":
		zones["_dmarc.example.org."] = mockdns.Zone{TXT: []string{"v=DMARC1; p=reject"}}
	}
	p.Hostname = "mx.verif.example"
	p.Resolver = &mockdns.Resolver{Zones: zones}
	p.Log = log.Logger{Out: log.NopOutput{}}
	pp.p = p
	for _, ctx := range ctxs {
		ctx.acts = pp.acts
	}
	return pp, nil
}

type c06MultiRes struct {
	infos   []*c06Info
	pp      *c06Pipe
	obs     string
	loadRef bool
}

// c06RunMulti: all transactions of the op on one pipeline object, commands in schedule order.
func c06RunMulti(m *c06Multi) (*c06MultiRes, error) {
	var ctxs []*c06TxCtx
	for i, c := range m.txs {
		var addrs []string
		for _, r := range c.rcpts {
			addrs = append(addrs, c06Addr(r.id, r.blk))
		}
		dom, idn := c06SrcDomain(m, c.src)
		ctxs = append(ctxs, c06NewCtx(fmt.Sprintf("tx%d", i), c, c06Sender(c.formOr(), dom, idn), addrs))
	}
	pp, err := c06BuildParsed(m, ctxs)
	if err != nil {
		if m.dirs != nil {
			// refused because of an action directive: the same configuration without them is accepted
			plain := c06CloneMulti(m)
			plain.dirs = nil
			if _, err2 := c06BuildParsed(plain, ctxs); err2 == nil {
				return &c06MultiRes{obs: "load=refused", loadRef: true}, nil
			}
		}
		return nil, err
	}
	var txs []*c06Tx
	for i, c := range m.txs {
		txs = append(txs, c06NewTx(c, pp, ctxs[i]))
	}
	for _, i := range m.sched {
		txs[i].step()
	}
	res := &c06MultiRes{pp: pp}
	var obs []string
	for _, tx := range txs {
		if tx.phase != 2 {
			tx.giveUp()
		}
		res.infos = append(res.infos, tx.info)
		obs = append(obs, tx.info.obs)
	}
	pp.sh.setCur(nil)
	res.obs = strings.Join(obs, " || ")
	return res, nil
}

func c06CloneMulti(m *c06Multi) *c06Multi {
	n := *m
	n.sched = append([]int(nil), m.sched...)
	n.txs = nil
	for _, c := range m.txs {
		n.txs = append(n.txs, c06Clone(c))
	}
	n.fill()
	return &n
}

func c06MultiOne(t *testing.T, out *vh.Out, m *c06Multi) *c06MultiRes {
	op := m.op()
	res, err := c06RunMulti(m)
	if err != nil {
		t.Fatalf("the configuration of a multi op was not accepted: %v\n%s\n%s", err, op, c06ConfigText(m))
	}
	out.Corr(op, res.obs)
	c06DirsStats(out, m.dirs, res.loadRef)
	if res.loadRef {
		return res
	}
	c06DirsMonitor(out, op, m.dirs)
	for _, in := range res.infos {
		if in.open {
			out.Stat("multi.tx.left-open")
			continue
		}
		c06Monitor(out, op, in)
		c06Stats(out, in)
	}
	if sh := res.pp.sh; sh.stray != nil && len(sh.stray.rec.calls)+len(sh.stray.rec.inst) > 0 {
		out.Violation("C06/unexpected-error", op, "a check state was created for a message that was never started on the pipeline")
	}
	c06MultiStats(out, m, res)
	return res
}

// c06MultiCase: the op, then the same transactions one after the other and in another
// interleaving: what each of them shows must not depend on the others.
func c06MultiCase(t *testing.T, out *vh.Out, m *c06Multi, companions bool) {
	base := c06MultiOne(t, out, m)
	if !companions || base.loadRef {
		return
	}
	op := m.op()
	seen := map[string]bool{op: true}
	try := func(v *c06Multi, what string) {
		if seen[v.op()] {
			return
		}
		seen[v.op()] = true
		vr := c06MultiOne(t, out, v)
		for i := range base.infos {
			if base.infos[i].open || vr.infos[i].open {
				continue
			}
			if base.infos[i].obs != vr.infos[i].obs {
				out.Violation("C06/schedule-dependent", op, fmt.Sprintf("transaction %d shows something else when the commands of the transactions on the pipeline come %s (%s): %s || %s",
					i, what, v.op(), vr.infos[i].obs, base.infos[i].obs))
			}
		}
	}
	// one after the other
	seq := c06CloneMulti(m)
	seq.sched = nil
	for i := range m.txs {
		for _, j := range m.sched {
			if j == i {
				seq.sched = append(seq.sched, i)
			}
		}
	}
	try(seq, "one transaction after the other")
	// another interleaving (derived from the op line, so a replay repeats it)
	h := uint64(1469598103934665603)
	for i := 0; i < len(op); i++ {
		h = (h ^ uint64(op[i])) * 1099511628211
	}
	r := vh.NewRng(h)
	oth := c06CloneMulti(m)
	oth.sched = c06Interleave(r, m)
	try(oth, "in another order")
}

// c06Interleave: a uniformly random merge of the command sequences of the transactions.
func c06Interleave(r *vh.Rng, m *c06Multi) []int {
	left := make([]int, len(m.txs))
	total := 0
	for i, c := range m.txs {
		left[i] = len(c.rcpts) + 2
		total += left[i]
	}
	var sched []int
	for total > 0 {
		x := r.Intn(total)
		for i := range left {
			if x < left[i] {
				sched = append(sched, i)
				left[i]--
				total--
				break
			}
			x -= left[i]
		}
	}
	return sched
}

func c06MultiStats(out *vh.Out, m *c06Multi, res *c06MultiRes) {
	out.Stat("multi")
	out.Stat(fmt.Sprintf("multi.stateless-checks.%d", len(m.sl)))
	for _, k := range m.sl {
		if a := c06SlAction(m, k); a != "" {
			out.Stat("multi.stateless-check.own-fail_action." + a)
		}
	}
	nFlaky := 0
	for _, sb := range m.srcs {
		for _, bl := range sb.blocks {
			if bl.flaky {
				nFlaky++
			}
		}
	}
	if nFlaky > 0 {
		out.Stat("multi.flaky-block")
		res.pp.flaky.mu.Lock()
		if res.pp.flaky.asked > 0 {
			out.Stat("multi.flaky-block.CheckStateForMsg-failed")
		}
		res.pp.flaky.mu.Unlock()
	}
	if len(m.sl) > 0 {
		ref := 0 // stateless checks referenced in more than one scope
		for _, k := range m.sl {
			n := 0
			if c06Has(m.global, k) {
				n++
			}
			for _, sb := range m.srcs {
				if c06Has(sb.checks, k) {
					n++
				}
				for _, b := range sb.blocks {
					if c06Has(b.checks, k) {
						n++
					}
				}
			}
			if n > 1 {
				ref++
			}
		}
		if ref > 0 {
			out.Stat("multi.stateless-check.in-several-scopes")
		}
		late := false
		for _, in := range res.infos {
			if in.rec.slLate > 0 {
				late = true
			}
		}
		if late {
			out.Stat("multi.stateless-check.state-asked-after-its-Close")
		}
	}
	out.Stat(fmt.Sprintf("multi.txs.%d", len(m.txs)))
	out.Stat(fmt.Sprintf("multi.sources.%d", len(m.srcs)))
	p := res.pp.p
	spare := func(l []module.Check) string {
		if cap(l) > len(l) {
			return "spare-capacity"
		}
		return "full"
	}
	out.Stat(fmt.Sprintf("multi.global-check-list.len-%d.%s", len(p.globalChecks), spare(p.globalChecks)))
	srcSpare, blkSpare := false, false
	srcs := []sourceBlock{p.defaultSource}
	for _, sb := range p.perSource {
		srcs = append(srcs, sb)
	}
	for _, sb := range srcs {
		if cap(sb.checks) > len(sb.checks) {
			srcSpare = true
		}
		for _, rb := range sb.perRcpt {
			if cap(rb.checks) > len(rb.checks) {
				blkSpare = true
			}
		}
	}
	if srcSpare {
		out.Stat("multi.source-check-list.spare-capacity")
	}
	if blkSpare {
		out.Stat("multi.destination-check-list.spare-capacity")
	}
	// overlap: a command of another transaction between MAIL and DATA of one
	first, last := map[int]int{}, map[int]int{}
	for k, i := range m.sched {
		if _, ok := first[i]; !ok {
			first[i] = k
		}
		last[i] = k
	}
	overlap := false
	for i := range m.txs {
		for k := first[i]; k <= last[i]; k++ {
			if m.sched[k] != i {
				overlap = true
			}
		}
	}
	if overlap {
		out.Stat("multi.overlapping")
	} else if len(m.txs) > 1 {
		out.Stat("multi.sequential")
	}
	srcSeen := map[int]bool{}
	for _, c := range m.txs {
		srcSeen[c.src] = true
	}
	if len(srcSeen) > 1 {
		out.Stat("multi.transactions-of-different-source-blocks")
	}
	allData := len(m.txs) > 1
	for _, in := range res.infos {
		if in.open || in.startRef || in.bodyKind == "none" {
			allData = false
		}
	}
	if allData && overlap {
		out.Stat("multi.overlapping.all-reached-data")
	}
}

// ---------------------------------------------------------------- generator

// c06Opt: what a generated pipeline may contain.
type c06Opt struct {
	big    bool
	noOdd  bool // only the property's four verdicts
	noRej  bool // no reject verdicts, no DMARC reject (the inner pipeline of a nest op)
	ids    int  // recipient ids 1..ids have to have a route and verdicts (0: from the envelope)
	fewQ   bool // quarantine verdicts are the exception
	manyRQ bool // half of the targets refuse quarantined messages
}

func c06Gen(r *vh.Rng, big bool) *c06Case {
	c := c06GenOpt(r, c06Opt{big: big})
	// the message may come flagged: this pipeline as the target of another one, or an endpoint that flags
	c.q0 = r.Chance(12)
	if r.Chance(35) {
		if m := c06GenMF(r, c); !m.empty() {
			c.mf = m
		}
	}
	c.form = c06GenForm(r)
	c06GenNoMod(r, c)
	if r.Chance(14) {
		c06GenQueue(r, c)
	}
	if r.Chance(14) {
		c06GenDup(r, c)
	}
	if r.Chance(22) {
		// last of those that choose the DMARC outcome
		c06GenWorld(r, c)
	}
	for i := range c.rcpts {
		if r.Chance(6) {
			c.rcpts[i].sp = r.Pick("d", "m")[0]
		}
	}
	if r.Chance(12) {
		c.dirs = c06GenDirs(r)
		c06GenDirsUse(r, c.dirs, c)
	}
	return c
}

// c06GenWorld: the DMARC part of the case gets a scripted DNS world (the dmarc field becomes what
// the world yields for the message). Favoured: the From domain is a subdomain whose own _dmarc
// name has no DMARC record - no such name, an empty answer, or only TXT records that are not DMARC
// records (a wildcard, an SPF record) - and the policy is published at the organizational domain.
func c06GenWorld(r *vh.Rng, c *c06Case) {
	pol := func() string {
		return r.Pick("n", "q", "q", "r", "r") + r.Pick("-", "-", "-", "n", "q", "r")
	}
	stray := func() string { return r.Pick("x", "y") }
	onePolicy := func() string {
		if r.Chance(60) {
			return pol()
		}
		l := []string{stray(), pol()}
		if r.Chance(50) {
			l[0], l[1] = l[1], l[0]
		}
		if r.Chance(30) {
			l = append(l, stray())
		}
		return strings.Join(l, ".")
	}
	noPolicy := func() string {
		switch r.Intn(5) {
		case 0:
			return "-"
		case 1:
			return "0"
		case 2:
			return stray() + "." + stray()
		}
		return stray()
	}
	answer := func() string {
		switch x := r.Intn(100); {
		case x < 30:
			return noPolicy()
		case x < 40:
			return "T"
		case x < 85:
			return onePolicy()
		}
		l := []string{pol(), pol()}
		if r.Chance(30) {
			l = append(l, stray())
		}
		return strings.Join(l, ".")
	}
	w := &c06World{from: 'o', sub: "=", align: 'f'}
	switch x := r.Intn(100); {
	case x < 45:
		w.from = r.Pick("s", "s", "d")[0]
		w.sub = noPolicy()
		w.org = onePolicy()
		if r.Chance(50) {
			// the DMARC part alone decides: no check has anything to say, the message comes unflagged
			c.q0 = false
			for i := range c.scripts {
				c.scripts[i] = c06Script{conn: c06V{'0', 'i'}, sender: c06V{'0', 'i'}, body: c06V{'0', 'i'}, rcpt: map[int]c06V{}}
			}
		}
	case x < 60:
		w.org = answer()
	default:
		w.from = r.Pick("s", "d")[0]
		w.sub = answer()
		w.org = answer()
	}
	switch x := r.Intn(100); {
	case x < 15:
		w.align = 'a'
	case x < 35:
		w.align = 'm'
	}
	c.world = w
	c.dmarc = w.outcome()
}

// c06AnswerClass: for the statistics.
func c06AnswerClass(a string) string {
	switch a {
	case "=":
		return "same-name"
	case "-":
		return "no-such-name"
	case "0":
		return "empty"
	case "T":
		return "temporary-failure"
	}
	pol, stray := 0, 0
	for _, rec := range strings.Split(a, ".") {
		if len(rec) == 2 {
			pol++
		} else {
			stray++
		}
	}
	switch {
	case pol == 0:
		return "stray-only"
	case pol == 1 && stray == 0:
		return "one-policy"
	case pol == 1:
		return "one-policy-among-stray"
	}
	return "several-policies"
}

// c06GenQueue: one or two targets of the case become REAL queues (kind q<n|r>: the recording
// target - in 40% one that refuses quarantined messages, like target.remote - sits behind the
// queue), the first one a target of the first recipient's block; in 70% a check applying to the
// first recipient quarantines at a random one of the four stages.
func c06GenQueue(r *vh.Rng, c *c06Case) {
	if len(c.rcpts) == 0 || c.inner != nil {
		return
	}
	blk := c.blocks[c.rcpts[0].blk]
	t0 := blk.targets[r.Intn(len(blk.targets))]
	c.tgts[t0] = "q" + c.tgts[t0][1:]
	if r.Chance(40) {
		c.tgts[t0] = "qr"
	}
	if r.Chance(30) {
		t := r.Intn(len(c.tgts))
		c.tgts[t] = "q" + c.tgts[t][1:]
	}
	if !r.Chance(70) {
		return
	}
	app := append(append(append([]int(nil), c.global...), c.source...), blk.checks...)
	if len(app) == 0 {
		c.global = append(c.global, 0)
		app = []int{0}
	}
	s := &c.scripts[app[r.Intn(len(app))]]
	v := c06V{'1', 'q'}
	switch r.Intn(4) {
	case 0:
		s.conn = v
	case 1:
		s.sender = v
	case 2:
		s.rcpt[c.rcpts[0].id] = v
	default:
		s.body = v
	}
}

// c06GenNoMod: scopes without a `modify` directive (the empty modifier group) - destination blocks
// independently of each other and of whether they have checks; a group scripted to fail exists.
// Favoured: a check referenced only by such a block has something to say about the body.
func c06GenNoMod(r *vh.Rng, c *c06Case) {
	faultG, faultS := false, false
	faultB := map[int]bool{}
	if !c.mf.empty() {
		blkOf := map[int]int{}
		for _, rc := range c.rcpts {
			blkOf[rc.id] = rc.blk
		}
		for k := range c.mf.sender {
			faultG, faultS = faultG || k == "g", faultS || k == "s"
		}
		for id, sc := range c.mf.rcpt {
			for k := range sc {
				switch k {
				case 'g':
					faultG = true
				case 's':
					faultS = true
				default:
					if b, ok := blkOf[id]; ok {
						faultB[b] = true
					} else {
						for b := range c.blocks {
							faultB[b] = true
						}
					}
				}
			}
		}
		for k := range c.mf.body {
			switch k {
			case "g":
				faultG = true
			case "s":
				faultS = true
			default:
				b, _ := strconv.Atoi(k)
				faultB[b] = true
			}
		}
	}
	c.nomodG = !faultG && r.Chance(20)
	c.nomodS = !faultS && r.Chance(20)
	for b := range c.blocks {
		c.blocks[b].nomod = !faultB[b] && r.Chance(45)
	}
	if r.Chance(35) {
		for _, rc := range c.rcpts {
			blk := c.blocks[rc.blk]
			if blk.nomod && len(blk.checks) > 0 {
				ci := blk.checks[r.Intn(len(blk.checks))]
				c.scripts[ci].body = c06V{'1', r.Pick("r", "q", "q")[0]}
				break
			}
		}
	}
}

// c06GenDup: the same recipient named by two RCPT commands (identical spelling, or spellings the
// endpoint's normalisation makes equal), mostly with a refusal of DATA before the targets: a check
// applying to it rejects the body, the DMARC policy rejects, or a body modifier fails.
func c06GenDup(r *vh.Rng, c *c06Case) {
	j := r.Intn(len(c.rcpts))
	d := c.rcpts[j]
	d.sp = r.Pick("\x00", "\x00", "d", "m")[0]
	at := j + 1 + r.Intn(len(c.rcpts)-j)
	c.rcpts = append(c.rcpts[:at:at], append([]c06Rcpt{d}, c.rcpts[at:]...)...)
	switch x := r.Intn(100); {
	case x < 60:
		app := append(append(append([]int(nil), c.global...), c.source...), c.blocks[d.blk].checks...)
		if len(app) > 0 {
			c.scripts[app[r.Intn(len(app))]].body = c06V{'1', 'r'}
		}
	case x < 75:
		c.dmarc = "rej"
	}
}

var c06OddWords = []string{"", "rejected", "drop", "deny", "accept", "quarantin", "ignored", "reject ", "none", "fail", "Reject550", "quarantine.", "rej", "-reject"}

// c06GenWord: the documented word k as somebody may write it (or, rarely, something else).
func c06GenWord(r *vh.Rng, k int, pLower int) string {
	w := c06Words[k]
	x := r.Intn(100)
	switch {
	case x < pLower:
		return w
	case x < pLower+(100-pLower)*3/10:
		return strings.ToUpper(w[:1]) + w[1:]
	case x < pLower+(100-pLower)*6/10:
		return strings.ToUpper(w)
	case x < pLower+(100-pLower)*8/10:
		b := []byte(w)
		for i := range b {
			if r.Bool() {
				b[i] -= 'a' - 'A'
			}
		}
		if string(b) == w {
			b[len(b)-1] -= 'a' - 'A'
		}
		return string(b)
	}
	return c06OddWords[r.Intn(len(c06OddWords))]
}

// c06GenOverride: the arguments after the action word (custom reply code, enhanced code, text).
func c06GenOverride(r *vh.Rng, pValid int) []string {
	code := func() string {
		if r.Chance(pValid) {
			return r.Pick("550", "554", "451", "421", "501", "0550", "599", "400")
		}
		return r.Pick("250", "600", "399", "99", "-550", "abc", "", "5x0", "55", "5500")
	}
	enh := func() string {
		if r.Chance(pValid) {
			return r.Pick("5.7.1", "4.7.0", "5.1.1", "4.0.0", "5.07.001", "5.-7.1", "4.999.0")
		}
		return r.Pick("2.0.0", "5.7", "5.7.1.2", "a.b.c", "5..1", "", "0.7.0", "6.1.1", "5.7.x", "571")
	}
	msg := func() string {
		if r.Chance(pValid) {
			return r.Pick("go away", "x", "Blocked by policy", "No")
		}
		return ""
	}
	switch x := r.Intn(100); {
	case x < 35:
		return nil
	case x < 55:
		return []string{code()}
	case x < 75:
		return []string{code(), enh()}
	case x < 95:
		return []string{code(), enh(), msg()}
	}
	return []string{code(), enh(), "go away", r.Pick("extra", "", "5.7.1")}
}

// c06GenDirs: the three action directives of a configuration.  Half of the tables are what the
// documentation allows (lower-case word, well-formed optional reply code / enhanced code / text);
// in the others one directive deviates: another spelling of the word, an unknown word, no
// argument at all, malformed or surplus arguments.
func c06GenDirs(r *vh.Rng) *c06Dirs {
	d := &c06Dirs{}
	dev := -1
	if r.Chance(50) {
		dev = r.Intn(3)
		if r.Chance(70) {
			dev = 1 + r.Intn(2) // the actions that do something
		}
	}
	for k := range d {
		pLower, pValid := 100, 100
		if k == dev {
			pLower, pValid = 25, 70
			if r.Chance(4) {
				continue // a directive without arguments
			}
		}
		d[k] = []string{c06GenWord(r, k, pLower)}
		switch {
		case k > 0:
			d[k] = append(d[k], c06GenOverride(r, pValid)...)
		case r.Chance(10):
			// `ignore` takes no arguments; what follows is not looked at
			d[k] = append(d[k], r.Pick("550", "x", ""))
		}
	}
	return d
}

// c06GenDirsUse: a directive that is not the plain lower-case word is worth a verdict that uses it:
// a check applying to the first recipient fails at some stage with that action.
func c06GenDirsUse(r *vh.Rng, d *c06Dirs, c *c06Case) {
	for k := 1; k < 3; k++ {
		if len(d[k]) == 1 && d[k][0] == c06Words[k] && !r.Chance(30) {
			continue
		}
		app := append(append(append([]int(nil), c.global...), c.source...), c.blocks[c.rcpts[0].blk].checks...)
		if len(app) == 0 {
			continue
		}
		v := c06V{'1', c06Slots[k]}
		s := &c.scripts[app[r.Intn(len(app))]]
		switch r.Intn(4) {
		case 0:
			s.conn = v
		case 1:
			s.sender = v
		case 2:
			s.body = v
		default:
			s.rcpt[c.rcpts[0].id] = v
		}
	}
}

// c06GenForm: how the reverse-path is written; the null reverse-path (bounces) is common.
func c06GenForm(r *vh.Rng) byte {
	switch x := r.Intn(100); {
	case x < 18:
		return 'z'
	case x < 23:
		return 'i'
	case x < 28:
		return 'q'
	case x < 33:
		return 'u'
	}
	return 'n'
}

// c06GenMulti: a parser-built pipeline and 1-3 transactions on it.
func c06GenMulti(r *vh.Rng, big bool) *c06Multi {
	m := &c06Multi{}
	switch x := r.Intn(10); {
	case x < 6:
		m.dmarc = "off"
	case x < 7:
		m.dmarc = "pass"
	case x < 9:
		m.dmarc = "quar"
	default:
		m.dmarc = "rej"
	}
	nC := 4 + r.Intn(4)
	if big && r.Chance(25) {
		nC = 8 + r.Intn(2)
	}
	nT := 1 + r.Intn(3)
	for i := 0; i < nT; i++ {
		k := r.Pick("a", "p")
		if r.Chance(25) {
			k += "r"
		} else {
			k += "n"
		}
		m.tgts = append(m.tgts, k)
	}
	// n different checks for a scope: 1-5 `check` directives (a list of 3, 5, 6 or 7 entries built by
	// repeated append has spare capacity)
	// the source and destination blocks mostly have checks of their own (not the global ones)
	scope := func(sizes ...int) []int {
		n := sizes[r.Intn(len(sizes))]
		if n > nC {
			n = nC
		}
		var l []int
		for tries := 0; len(l) < n; tries++ {
			x := r.Intn(nC)
			if c06Has(l, x) || (c06Has(m.global, x) && len(m.global) < nC && tries < 50 && !r.Chance(15)) {
				continue
			}
			l = append(l, x)
		}
		return l
	}
	if m.dmarc == "off" {
		m.global = scope(0, 1, 2, 3, 3, 3, 3, 5)
	} else {
		// the check that feeds the DMARC verifier is one more directive
		m.global = scope(0, 1, 2, 2, 2, 2, 4)
	}
	nS := 1 + r.Intn(3)
	for k := 0; k < nS; k++ {
		src := c06Src{checks: scope(0, 1, 1, 2, 3, 3, 3), nomod: r.Chance(25)}
		nB := []int{1, 2, 2, 3}[r.Intn(4)]
		for b := 0; b < nB; b++ {
			blk := c06Block{checks: scope(0, 1, 1, 1, 2, 3), nomod: r.Chance(45), flaky: r.Chance(4)}
			n := 1
			if r.Chance(30) {
				n = 2
			}
			for len(blk.targets) < n && len(blk.targets) < nT {
				if t := r.Intn(nT); !c06Has(blk.targets, t) {
					blk.targets = append(blk.targets, t)
				}
			}
			src.blocks = append(src.blocks, blk)
		}
		m.srcs = append(m.srcs, src)
	}
	nTx := []int{1, 2, 2, 2, 3, 3}[r.Intn(6)]
	if big && r.Chance(15) {
		nTx = 4
	}
	pRej := []int{0, 0, 3, 8}[r.Intn(4)]
	pQ := []int{0, 5, 15}[r.Intn(3)]
	pIgn := []int{0, 10}[r.Intn(2)]
	gen := func() c06V {
		x := r.Intn(100)
		switch {
		case x < pRej:
			return c06V{'1', 'r'}
		case x < pRej+pQ:
			return c06V{'1', 'q'}
		case x < pRej+pQ+pIgn:
			return c06V{'1', 'i'}
		}
		return c06V{'0', r.Pick("i", "q", "r")[0]}
	}
	for i := 0; i < nTx; i++ {
		c := &c06Case{mode: r.Pick("smtp", "lmtp"), form: c06GenForm(r), q0: r.Chance(8)}
		c.src = r.Intn(nS)
		if i > 0 && nS > 1 && r.Chance(50) {
			// another source block than the transaction before
			for c.src == m.txs[i-1].src {
				c.src = r.Intn(nS)
			}
		}
		if c.form == 'z' {
			c.src = nS - 1
		}
		nB := len(m.srcs[c.src].blocks)
		nR := []int{1, 2, 2, 3, 3}[r.Intn(5)]
		blkOf := map[int]int{}
		for id := 1; id <= 3; id++ {
			// mostly: the recipients of a message go through different destination blocks
			blkOf[id] = (id - 1) % nB
			if r.Chance(35) {
				blkOf[id] = r.Intn(nB)
			}
		}
		used := map[int]bool{}
		for len(c.rcpts) < nR {
			id := 1 + r.Intn(3)
			if used[id] && !r.Chance(12) {
				continue
			}
			used[id] = true
			c.rcpts = append(c.rcpts, c06Rcpt{id: id, blk: blkOf[id]})
		}
		for ci := 0; ci < nC; ci++ {
			sc := c06Script{conn: gen(), sender: gen(), body: gen(), rcpt: map[int]c06V{}}
			for id := 1; id <= 3; id++ {
				if v := gen(); v.raw != '0' {
					sc.rcpt[id] = v
				}
			}
			c.scripts = append(c.scripts, sc)
			var d [4]int
			if r.Chance(50) {
				for j := range d {
					d[j] = r.Intn(4)
				}
			}
			c.delays = append(c.delays, d)
		}
		// a check of the message's own scope (source block, block of its first recipient) has something
		// to say about the body
		if r.Chance(45) {
			own := append(append([]int(nil), m.srcs[c.src].checks...), m.srcs[c.src].blocks[c.rcpts[0].blk].checks...)
			if len(own) > 0 {
				c.scripts[own[r.Intn(len(own))]].body = c06V{'1', r.Pick("r", "q")[0]}
			}
		}
		if r.Chance(10) {
			c.global, c.source, c.blocks = m.global, m.srcs[c.src].checks, m.srcs[c.src].blocks
			c06GenDup(r, c)
		}
		for i := range c.rcpts {
			if r.Chance(6) {
				c.rcpts[i].sp = r.Pick("d", "m")[0]
			}
		}
		m.txs = append(m.txs, c)
	}
	if r.Chance(10) {
		m.dirs = c06GenDirs(r)
	}
	if m.dirs != nil {
		// directives nobody reads refuse nothing: a pipeline without any `check` directive
		ref := len(m.global)
		for _, sb := range m.srcs {
			ref += len(sb.checks)
			for _, bl := range sb.blocks {
				ref += len(bl.checks)
			}
		}
		if ref == 0 {
			m.dirs = nil
		}
	}
	// round 10: some of the checks are real stateless checks
	var prefix []int
	if r.Chance(40) {
		for k := 0; k < nC; k++ {
			if r.Chance(45) {
				m.sl = append(m.sl, k)
			}
		}
	}
	if r.Chance(22) {
		c06GenGroup(r, m, nC)
	} else if m.dirs == nil && r.Chance(45) {
		prefix = c06GenSlReuse(r, m)
	}
	m.fill()
	if m.dirs != nil {
		for _, c := range m.txs {
			c06GenDirsUse(r, m.dirs, c)
		}
	}
	m.sched = c06Interleave(r, m)
	if prefix != nil {
		// the favoured beginning, the rest of the commands in a random merge
		rest := append([]int(nil), m.sched...)
		for _, p := range prefix {
			for i, x := range rest {
				if x == p {
					rest = append(rest[:i], rest[i+1:]...)
					break
				}
			}
		}
		m.sched = append(append([]int(nil), prefix...), rest...)
	}
	return m
}

// c06GenGroup (round 11): a named check group (top-level `checks verif_c06_grp { }`, 1-5 members;
// 3 and 5 favoured - CheckGroup.Init's repeated append leaves such a list with spare capacity)
// that 2-4 scopes of the pipeline (global / source blocks / destination blocks) reference with
// `check &verif_c06_grp` as their FIRST check directive, each followed by 1-2 `check { }` directives
// with checks of its own (different ones per scope where the pipeline has enough checks); the
// transactions that pass such a scope mostly get a verdict of the scope's OWN extra check (body
// reject / quarantine, a recipient of the block, sender, connection).
func c06GenGroup(r *vh.Rng, m *c06Multi, nC int) {
	k := []int{3, 3, 3, 3, 5, 5, 1, 2, 4}[r.Intn(9)]
	if k > nC-2 {
		k = nC - 2
	}
	for len(m.grp) < k {
		if x := r.Intn(nC); !c06Has(m.grp, x) {
			m.grp = append(m.grp, x)
		}
	}
	// the scopes: -1 global, (s, -1) source block s, (s, b) destination block b of source s
	type scope struct{ s, b int }
	var all, onPath []scope
	all = append(all, scope{-1, -1})
	for s, sb := range m.srcs {
		all = append(all, scope{s, -1})
		for b, bl := range sb.blocks {
			if !bl.flaky {
				all = append(all, scope{s, b})
			}
		}
	}
	for _, c := range m.txs {
		onPath = append(onPath, scope{c.src, -1})
		for _, rc := range c.rcpts {
			if !m.srcs[c.src].blocks[rc.blk].flaky {
				onPath = append(onPath, scope{c.src, rc.blk})
			}
		}
	}
	has := func(l []scope, x scope) bool {
		for _, y := range l {
			if x == y {
				return true
			}
		}
		return false
	}
	var chosen []scope
	n := 2 + r.Intn(3)
	for tries := 0; len(chosen) < n && tries < 40; tries++ {
		x := all[r.Intn(len(all))]
		if len(chosen) < 2 && r.Chance(75) {
			x = onPath[r.Intn(len(onPath))]
		}
		if !has(chosen, x) {
			chosen = append(chosen, x)
		}
	}
	var taken []int // the extra checks handed out so far
	extras := map[scope][]int{}
	for _, sc := range chosen {
		var avoid []int
		if sc.s >= 0 {
			avoid = append(avoid, m.global...)
			if sc.b >= 0 {
				avoid = append(avoid, m.srcs[sc.s].checks...)
			}
		}
		var ex []int
		ne := 1
		if r.Chance(30) {
			ne = 2
		}
		for tries := 0; len(ex) < ne && tries < 60; tries++ {
			x := r.Intn(nC)
			if c06Has(m.grp, x) || c06Has(ex, x) || (tries < 40 && (c06Has(avoid, x) || c06Has(taken, x))) {
				continue
			}
			ex = append(ex, x)
		}
		taken = append(taken, ex...)
		extras[sc] = ex
		l := append(append([]int(nil), m.grp...), ex...)
		switch {
		case sc.s < 0:
			m.global = l
		case sc.b < 0:
			m.srcs[sc.s].checks = l
		default:
			m.srcs[sc.s].blocks[sc.b].checks = l
		}
	}
	for _, c := range m.txs {
		if !r.Chance(70) {
			continue
		}
		var mine []scope
		for _, sc := range chosen {
			if sc.s < 0 || (sc.s == c.src && sc.b < 0) {
				mine = append(mine, sc)
			}
			for _, rc := range c.rcpts {
				if sc.s == c.src && sc.b == rc.blk && !has(mine, sc) {
					mine = append(mine, sc)
				}
			}
		}
		if len(mine) == 0 {
			continue
		}
		sc := mine[r.Intn(len(mine))]
		if len(extras[sc]) == 0 {
			continue
		}
		x := extras[sc][r.Intn(len(extras[sc]))]
		v := c06V{'1', r.Pick("r", "q", "q")[0]}
		switch y := r.Intn(10); {
		case y < 6:
			c.scripts[x].body = v
		case y < 8 && sc.b >= 0:
			for _, rc := range c.rcpts {
				if rc.blk == sc.b {
					c.scripts[x].rcpt[rc.id] = v
				}
			}
		case y < 9:
			c.scripts[x].sender = v
		default:
			c.scripts[x].conn = v
		}
	}
}

// c06GenSlReuse (round 10): the situation in which a state object of a check is closed while its
// message goes on.  Check X (a real stateless check) is referenced in the global scope AND in the
// destination block of the first recipient of transaction 0; check Y is referenced in that block
// only, so it gets its state at that RCPT command, is shown the connection and the sender then -
// and rejects one of them: the command is refused and checkStates closes the states of the group.
// Transaction 0 goes on (a second recipient, DATA) and X has something to say about that; in
// between another transaction starts (MAIL) on the same pipeline, for which X says nothing.
// Returns the beginning of the schedule (nil: the pipeline has no room for the situation).
func c06GenSlReuse(r *vh.Rng, m *c06Multi) []int {
	if len(m.txs) < 2 {
		return nil
	}
	a, o := m.txs[0], m.txs[1]
	nC := len(a.scripts)
	src := &m.srcs[a.src]
	if len(m.global) == 0 {
		m.global = []int{r.Intn(nC)}
	}
	x := m.global[r.Intn(len(m.global))]
	y := -1
	for j, start := 0, r.Intn(nC); j < nC; j++ {
		k := (start + j) % nC
		if k != x && !c06Has(m.global, k) && !c06Has(src.checks, k) {
			y = k
			break
		}
	}
	if y < 0 {
		return nil
	}
	blk := &src.blocks[a.rcpts[0].blk]
	l := append([]int(nil), blk.checks...)
	// the other way to the same place: a check of the block cannot create its state (backend
	// down) - checkStates gives up in its creation loop, X (listed before it) has its state
	down := r.Chance(50)
	if down {
		var rest []int
		for _, k := range l {
			if k != x {
				rest = append(rest, k)
			}
		}
		l = append([]int{x}, rest...)
		blk.flaky = true
	} else {
		if !c06Has(l, x) {
			l = append(l, x)
		}
		if !c06Has(l, y) {
			if r.Chance(50) {
				l = append([]int{y}, l...)
			} else {
				l = append(l, y)
			}
		}
	}
	blk.checks = l
	if !c06Has(m.sl, x) {
		m.sl = append(m.sl, x)
		sort.Ints(m.sl)
	}
	none := c06V{'0', 'i'}
	first := a.rcpts[0].id
	// transaction 0 gets as far as the block's checks at its first RCPT command
	for _, k := range append(append([]int(nil), m.global...), src.checks...) {
		sc := &a.scripts[k]
		if sc.conn.proper() != "n" && sc.conn.proper() != "i" {
			sc.conn = none
		}
		if sc.sender.proper() != "n" && sc.sender.proper() != "i" {
			sc.sender = none
		}
		delete(sc.rcpt, first)
	}
	// ... where Y refuses the connection or the sender it is shown late
	switch {
	case down:
	case r.Chance(50):
		a.scripts[y].conn = c06V{'1', 'r'}
	default:
		a.scripts[y].sender = c06V{'1', 'r'}
	}
	// a second recipient (another address)
	second := -1
	for i, rc := range a.rcpts {
		if i > 0 && rc.id != first {
			second = rc.id
			break
		}
	}
	if second < 0 {
		second = first%3 + 1
		a.rcpts = append(a.rcpts, c06Rcpt{id: second, blk: r.Intn(len(src.blocks))})
	}
	if down && len(src.blocks) > 1 {
		// the later recipients mostly go through blocks that work
		for i := range a.rcpts {
			if i > 0 && a.rcpts[i].id != first && a.rcpts[i].blk == a.rcpts[0].blk && r.Chance(80) {
				nb := (a.rcpts[i].blk + 1 + r.Intn(len(src.blocks)-1)) % len(src.blocks)
				for j := range a.rcpts {
					if a.rcpts[j].id == a.rcpts[i].id {
						a.rcpts[j].blk = nb
					}
				}
			}
		}
	}
	// X decides about the rest of transaction 0 ...
	switch r.Intn(3) {
	case 0:
		a.scripts[x].rcpt[second] = c06V{'1', 'r'}
	case 1:
		a.scripts[x].body = c06V{'1', 'r'}
	default:
		a.scripts[x].body = c06V{'1', 'q'}
	}
	// ... and has nothing to say about the other message
	o.scripts[x] = c06Script{conn: none, sender: none, body: none, rcpt: map[int]c06V{}}
	return []int{0, 0, 1}
}

// c06GenMF: failing modifiers.  Favoured: one recipient of a destination block accepted, a LATER
// recipient (another address) of the SAME block fails in the block's own RewriteRcpt, whatever
// follows follows, and a check of that block has something to say about the body.
func c06GenMF(r *vh.Rng, c *c06Case) *c06MF {
	m := c06NewMF()
	kind := func() byte { return r.Pick("t", "p")[0] }
	if r.Chance(8) {
		m.sender[r.Pick("g", "s")] = kind()
	}
	// positions k >= 1 with an earlier recipient j (another address; sameBlk: routed to the same block)
	later := func(sameBlk bool) (cands [][2]int) {
		for k := 1; k < len(c.rcpts); k++ {
			for j := 0; j < k; j++ {
				if c.rcpts[j].id != c.rcpts[k].id && (!sameBlk || c.rcpts[j].blk == c.rcpts[k].blk) {
					cands = append(cands, [2]int{j, k})
					break
				}
			}
		}
		return
	}
	if r.Chance(75) {
		// which modifier group fails for the later recipient: mostly its own block's, sometimes the
		// global / source group (then the earlier recipient may be of any block)
		scope := r.Pick("b", "b", "b", "b", "g", "s")[0]
		cands := later(scope == 'b')
		if len(cands) == 0 && scope == 'b' && len(c.rcpts) >= 2 && r.Chance(60) {
			// route the last recipient's address to the block of an earlier, different one
			k := len(c.rcpts) - 1
			for j := 0; j < k; j++ {
				if c.rcpts[j].id != c.rcpts[k].id {
					for i := range c.rcpts {
						if c.rcpts[i].id == c.rcpts[k].id {
							c.rcpts[i].blk = c.rcpts[j].blk
						}
					}
					break
				}
			}
			cands = later(true)
		}
		if len(cands) > 0 {
			jk := cands[r.Intn(len(cands))]
			m.setRcpt(c.rcpts[jk[1]].id, scope, kind())
			// the block of the recipient accepted before has something to say about the body
			blk := c.blocks[c.rcpts[jk[0]].blk]
			if len(blk.checks) > 0 && r.Chance(65) {
				ci := blk.checks[r.Intn(len(blk.checks))]
				c.scripts[ci].body = c06V{'1', r.Pick("r", "q")[0]}
			}
		}
	}
	for _, rc := range c.rcpts {
		if r.Chance(12) {
			m.setRcpt(rc.id, r.Pick("g", "s", "b", "b")[0], kind())
		}
	}
	if r.Chance(10) {
		m.body[r.Pick("g", "s")] = kind()
	}
	if r.Chance(10) {
		m.body[strconv.Itoa(r.Intn(len(c.blocks)))] = kind()
	}
	return m
}

// c06GenNest: a pipeline behind destination blocks of another pipeline.
func c06GenNest(r *vh.Rng, big bool) *c06Case {
	c := c06GenOpt(r, c06Opt{big: big, noOdd: true})
	for i := range c.tgts {
		c.tgts[i] = c.tgts[i][:1] + "n"
	}
	px := len(c.tgts)
	c.tgts = append(c.tgts, "px")
	some := false
	for !some {
		for b := range c.blocks {
			if c06Has(c.blocks[b].targets, px) || !r.Chance(60) {
				continue
			}
			some = true
			switch r.Intn(3) {
			case 0: // as in the default configuration: the block only hands over
				c.blocks[b].targets = []int{px}
			case 1:
				c.blocks[b].targets = append(c.blocks[b].targets, px)
			default:
				c.blocks[b].targets = append([]int{px}, c.blocks[b].targets...)
			}
		}
	}
	maxId := 0
	for _, rc := range c.rcpts {
		if rc.id > maxId {
			maxId = rc.id
		}
	}
	if maxId < 3 {
		maxId = 3
	}
	// make the interesting half likely: some check of the outer pipeline (or its DMARC policy) quarantines
	if r.Chance(55) {
		if r.Chance(25) {
			c.dmarc = "quar"
		} else {
			ci := r.Intn(len(c.scripts))
			q := c06V{'1', 'q'}
			switch r.Intn(4) {
			case 0:
				c.scripts[ci].conn = q
			case 1:
				c.scripts[ci].sender = q
			case 2:
				c.scripts[ci].body = q
			default:
				c.scripts[ci].rcpt[c.rcpts[r.Intn(len(c.rcpts))].id] = q
			}
		}
	}
	c.q0 = r.Chance(6)
	in := c06GenOpt(r, c06Opt{noOdd: true, noRej: true, ids: maxId, fewQ: true, manyRQ: true})
	in.mode = c.mode
	c.inner = in
	for _, cc := range []*c06Case{c, in} {
		for b := range cc.blocks {
			cc.blocks[b].nomod = r.Chance(40)
		}
	}
	return c
}

func c06GenOpt(r *vh.Rng, o c06Opt) *c06Case {
	big := o.big
	c := &c06Case{mode: r.Pick("smtp", "lmtp")}
	switch x := r.Intn(10); {
	case x < 6:
		c.dmarc = "off"
	case x < 7:
		c.dmarc = "pass"
	case x < 9:
		c.dmarc = "quar"
	default:
		c.dmarc = "rej"
	}
	if o.noRej && c.dmarc == "rej" {
		c.dmarc = "pass"
	}
	if o.fewQ && c.dmarc == "quar" && r.Chance(70) {
		c.dmarc = "off"
	}
	nC := 1 + r.Intn(4)
	nB := 1 + r.Intn(3)
	nT := 1 + r.Intn(3)
	if big && r.Chance(20) {
		nC = 5 + r.Intn(3)
		nB = 4
	}
	for i := 0; i < nT; i++ {
		k := r.Pick("a", "p")
		pr := 25
		if o.manyRQ {
			pr = 50
		}
		if r.Chance(pr) {
			k += "r"
		} else {
			k += "n"
		}
		c.tgts = append(c.tgts, k)
	}
	c.blocks = make([]c06Block, nB)
	for b := range c.blocks {
		n := 1
		if r.Chance(35) {
			n = 2
		}
		for len(c.blocks[b].targets) < n && len(c.blocks[b].targets) < nT {
			t := r.Intn(nT)
			if !c06Has(c.blocks[b].targets, t) {
				c.blocks[b].targets = append(c.blocks[b].targets, t)
			}
		}
	}
	// placement: every check in 1-3 places; destination blocks favoured
	for ci := 0; ci < nC; ci++ {
		places := 1
		if r.Chance(45) {
			places = 2
		}
		if r.Chance(15) {
			places = 3
		}
		for p := 0; p < places; p++ {
			switch x := r.Intn(10); {
			case x < 2:
				if !c06Has(c.global, ci) {
					c.global = append(c.global, ci)
				}
			case x < 4:
				if !c06Has(c.source, ci) {
					c.source = append(c.source, ci)
				}
			default:
				b := r.Intn(nB)
				if !c06Has(c.blocks[b].checks, ci) {
					c.blocks[b].checks = append(c.blocks[b].checks, ci)
				}
			}
		}
	}
	// envelope
	nR := 1 + r.Intn(3)
	if big && r.Chance(15) {
		nR = 4 + r.Intn(3)
	}
	maxId := 3
	if nR > 3 {
		maxId = nR
	}
	if o.ids > maxId {
		maxId = o.ids
	}
	blkOf := map[int]int{}
	for i := 1; i <= maxId; i++ {
		blkOf[i] = r.Intn(nB)
	}
	used := map[int]bool{}
	for len(c.rcpts) < nR {
		id := 1 + r.Intn(maxId)
		if used[id] && !r.Chance(12) {
			continue
		}
		used[id] = true
		c.rcpts = append(c.rcpts, c06Rcpt{id: id, blk: blkOf[id]})
	}
	if o.ids > 0 {
		// not an envelope but the routing table: every id once
		c.rcpts = nil
		for i := 1; i <= maxId; i++ {
			c.rcpts = append(c.rcpts, c06Rcpt{id: i, blk: blkOf[i]})
		}
	}
	// verdicts
	pRej := []int{0, 3, 8, 20}[r.Intn(4)]
	pQ := []int{0, 5, 15, 30}[r.Intn(4)]
	pIgn := []int{0, 10, 25}[r.Intn(3)]
	pOdd := []int{0, 0, 0, 6}[r.Intn(4)]
	if o.noOdd {
		pOdd = 0
	}
	if o.noRej {
		pRej = 0
	}
	if o.fewQ {
		pQ = []int{0, 0, 0, 10}[r.Intn(4)]
	}
	gen := func() c06V {
		x := r.Intn(100)
		switch {
		case x < pRej:
			return c06V{'1', 'r'}
		case x < pRej+pQ:
			if r.Chance(20) {
				return c06V{'2', r.Pick("i", "q")[0]}
			}
			return c06V{'1', 'q'}
		case x < pRej+pQ+pIgn:
			return c06V{'1', 'i'}
		case x < pRej+pQ+pIgn+pOdd:
			// both flags at once; a flag without a reason is never generated here: it would consume
			// the runner's sync.Once with a nil error and mask a later verdict depending on the
			// completion order (see notes/C06.md), the property's four verdicts never produce one
			return c06V{r.Pick("2", "5")[0], r.Pick("i", "q", "r")[0]}
		}
		return c06V{'0', r.Pick("i", "q", "r")[0]}
	}
	for ci := 0; ci < nC; ci++ {
		s := c06Script{conn: gen(), sender: gen(), body: gen(), rcpt: map[int]c06V{}}
		for id := 1; id <= maxId; id++ {
			v := gen()
			if v.raw != '0' {
				s.rcpt[id] = v
			}
		}
		c.scripts = append(c.scripts, s)
		var d [4]int
		if r.Chance(60) {
			for j := range d {
				d[j] = r.Intn(4)
			}
		}
		c.delays = append(c.delays, d)
	}
	return c
}

func TestVerifC06Pipeline(t *testing.T) {
	// VERIF_C06_TAG names a second, independent run (the check uses it for the run under the race detector)
	tag := os.Getenv("VERIF_C06_TAG")
	out := vh.Open("c06_pipeline" + tag)
	defer out.Close()
	if ops := vh.Replay(); ops != nil {
		for _, op := range ops {
			if strings.HasPrefix(op, "C06 multi ") {
				m, err := c06ParseMulti(op)
				if err != nil {
					t.Fatalf("%v: %s", err, op)
				}
				c06MultiCase(t, out, m, true)
				continue
			}
			if !strings.HasPrefix(op, "C06 run ") && !strings.HasPrefix(op, "C06 nest ") {
				continue
			}
			c, err := c06Parse(op)
			if err != nil {
				t.Fatalf("%v: %s", err, op)
			}
			c06CaseRun(out, c, true)
		}
		return
	}
	r := vh.NewRng(vh.Seed() + 606 + uint64(len(tag))*7919)
	n := vh.N(400)
	for i := 0; i < n; i++ {
		var c *c06Case
		if r.Chance(28) {
			m := c06GenMulti(r, vh.Thorough())
			if m2, err := c06ParseMulti(m.op()); err != nil || m2.op() != m.op() {
				t.Fatalf("op line does not round-trip: %s (%v)", m.op(), err)
			}
			c06MultiCase(t, out, m, true)
			continue
		}
		if r.Chance(15) {
			c = c06GenNest(r, vh.Thorough())
		} else {
			c = c06Gen(r, vh.Thorough())
		}
		if c2, err := c06Parse(c.op()); err != nil || c2.op() != c.op() {
			t.Fatalf("op line does not round-trip: %s", c.op())
		}
		c06CaseRun(out, c, true)
	}
}

// c06ActEff: what a failing check whose action is fa does to a message, at each of the four stages:
// a one-check pipeline (global scope) with the verdict at that stage only.
func c06ActEff(fa modconfig.FailAction) [4]string {
	var eff [4]string
	for i, stage := range []string{"c", "s", "r", "b"} {
		v := c06V{'1', 'r'}
		sc := c06Script{conn: c06V{'0', 'i'}, sender: c06V{'0', 'i'}, body: c06V{'0', 'i'}, rcpt: map[int]c06V{}}
		switch stage {
		case "c":
			sc.conn = v
		case "s":
			sc.sender = v
		case "r":
			sc.rcpt[1] = v
		default:
			sc.body = v
		}
		c := &c06Case{mode: []string{"smtp", "lmtp"}[i%2], dmarc: "off", global: []int{0}, blocks: []c06Block{{targets: []int{0}}}, tgts: []string{"pn"},
			rcpts: []c06Rcpt{{id: 1}}, scripts: []c06Script{sc}, delays: [][4]int{{}}, acts: &c06Acts{a: [3]modconfig.FailAction{fa, fa, fa}}}
		in := c06Run(c)
		switch {
		case in.startRef || (len(in.rcptRef) > 0 && in.rcptRef[0]) || in.bodyKind == "chk":
			eff[i] = "rej"
		case in.finalQ:
			eff[i] = "quar"
		default:
			eff[i] = "none"
		}
	}
	return eff
}

// The directive grammar: generated `<x>_action` directive lines through the REAL parser
// (modconfig.ParseActionDirective); an accepted one is then used by a failing check at each of the
// four stages.  Oracle: a directive is either refused at load, or its lower-cased first word is one
// of the three documented actions and every stage enforces exactly that action.
func TestVerifC06Action(t *testing.T) {
	out := vh.Open("c06_action")
	defer out.Close()
	one := func(args []string) {
		op := "C06 act " + c06DirEnc(args)
		if back, err := c06DirDec(c06DirEnc(args)); err != nil || strings.Join(back, "\x00") != strings.Join(args, "\x00") || len(back) != len(args) {
			t.Fatalf("directive does not round-trip: %q", args)
		}
		fa, err := modconfig.ParseActionDirective(args)
		doc := c06DocWord(args)
		switch {
		case len(args) == 0:
			out.Stat("act.no-arguments")
		case doc < 0:
			out.Stat("act.unknown-word")
		case args[0] == c06Words[doc]:
			out.Stat(fmt.Sprintf("act.%s.lower-case.args-%d", c06Words[doc], len(args)-1))
		default:
			out.Stat(fmt.Sprintf("act.%s.other-case", c06Words[doc]))
		}
		if err != nil {
			out.Stat("act.refused")
			out.Corr(op, "refused")
			return
		}
		out.Stat("act.accepted")
		b := func(x bool) string {
			if x {
				return "1"
			}
			return "0"
		}
		ovr := "-"
		if o := fa.ReasonOverride; o != nil {
			ovr = fmt.Sprintf("%d/%d.%d.%d/%s", o.Code, o.EnhancedCode[0], o.EnhancedCode[1], o.EnhancedCode[2], strings.ReplaceAll(o.Message, " ", "_"))
		}
		eff := c06ActEff(fa)
		out.Corr(op, fmt.Sprintf("ok q=%s r=%s ovr=%s eff=%s", b(fa.Quarantine), b(fa.Reject), ovr, strings.Join(eff[:], ",")))
		if doc < 0 {
			out.Violation("C06/invalid-action-accepted", op, fmt.Sprintf("the action directive %q names none of reject / quarantine / ignore and was accepted", strings.Join(args, " ")))
			return
		}
		want := [3]string{"none", "quar", "rej"}[doc]
		for i, st := range []string{"connection", "sender", "recipient", "body"} {
			if eff[i] == want {
				continue
			}
			sig := [3]string{"C06/ignore-changed-outcome", "C06/quarantine-not-flagged", "C06/reject-not-enforced"}[doc]
			out.Violation(sig, op, fmt.Sprintf("the directive %q was accepted at configuration load and documents the action %s; a check failing with it at the %s stage: %s", strings.Join(args, " "), c06Words[doc], st, eff[i]))
		}
	}
	if ops := vh.Replay(); ops != nil {
		for _, op := range ops {
			f := strings.Fields(op)
			if len(f) != 3 || f[0] != "C06" || f[1] != "act" {
				continue
			}
			args, err := c06DirDec(f[2])
			if err != nil {
				t.Fatalf("%v: %s", err, op)
			}
			one(args)
		}
		return
	}
	// the documented spellings, their other-case forms, nothing
	one(nil)
	for k, w := range c06Words {
		one([]string{w})
		one([]string{strings.ToUpper(w[:1]) + w[1:]})
		one([]string{strings.ToUpper(w)})
		one([]string{w, "550"})
		one([]string{strings.ToUpper(w[:1]) + w[1:], "550", "5.7.1", "go away"})
		_ = k
	}
	r := vh.NewRng(vh.Seed() + 6061)
	n := vh.N(400)/3 + 60
	for i := 0; i < n; i++ {
		k := r.Intn(3)
		if r.Chance(60) {
			k = 1 + r.Intn(2)
		}
		if r.Chance(2) {
			one(nil)
			continue
		}
		args := []string{c06GenWord(r, k, 40)}
		if k > 0 || r.Chance(30) {
			args = append(args, c06GenOverride(r, 80)...)
		}
		one(args)
	}
}

// The action table itself: FailAction.Apply on every raw result and what the runner does with it.
func TestVerifC06Apply(t *testing.T) {
	out := vh.Open("c06_apply")
	defer out.Close()
	for _, raw := range "012345" {
		for _, act := range "iqr" {
			v := c06V{byte(raw), byte(act)}
			res := v.result(0, nil)
			b := func(x bool) string {
				if x {
					return "1"
				}
				return "0"
			}
			// what the runner does with it is observed on a one-check pipeline
			c := &c06Case{mode: "smtp", dmarc: "off", global: []int{0}, blocks: []c06Block{{targets: []int{0}}}, tgts: []string{"an"},
				rcpts: []c06Rcpt{{id: 1}}, scripts: []c06Script{{conn: c06V{'0', 'i'}, sender: c06V{'0', 'i'}, body: v, rcpt: map[int]c06V{}}}, delays: [][4]int{{}}}
			in := c06Run(c)
			eff := "none"
			if in.bodyKind == "chk" {
				eff = "rej"
			} else if in.finalQ {
				eff = "quar"
			}
			op := fmt.Sprintf("C06 apply %c %c", raw, act)
			out.Corr(op, fmt.Sprintf("reason=%s q=%s r=%s eff=%s", b(res.Reason != nil), b(res.Quarantine), b(res.Reject), eff))
			if v.raw == '1' && v.act == 'i' && (res.Quarantine || res.Reject || eff != "none") {
				out.Violation("C06/ignore-changed-outcome", op, "action ignore produced a flag")
			}
			out.Stat("apply." + eff)
		}
	}
}
