package msgpipeline

// VerifC16EnableDMARC switches the DMARC evaluation of a pipeline on, as the `dmarc yes` directive
// does (overlay-only file, see /verif/DESIGN.md; used by the C16 harness of internal/endpoint/smtp on a
// pipeline built with Mock).
func (d *MsgPipeline) VerifC16EnableDMARC() { d.doDMARC = true }
