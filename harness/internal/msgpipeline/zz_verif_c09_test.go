package msgpipeline

import (
	"context"
	"errors"
	"fmt"
	"sort"
	"strconv"
	"strings"
	"sync"
	"testing"

	"golang.org/x/net/idna"

	"github.com/emersion/go-message/textproto"
	"github.com/emersion/go-msgauth/authres"
	"github.com/emersion/go-smtp"
	"github.com/foxcpp/go-mockdns"
	"github.com/foxcpp/maddy/framework/address"
	"github.com/foxcpp/maddy/framework/buffer"
	"github.com/foxcpp/maddy/framework/dns"
	"github.com/foxcpp/maddy/framework/exterrors"
	"github.com/foxcpp/maddy/framework/log"
	"github.com/foxcpp/maddy/framework/module"
	"github.com/foxcpp/maddy/internal/modify"
	"github.com/foxcpp/maddy/internal/testutils"
	"github.com/foxcpp/maddy/internal/verifshim/vh"
)

// scripted per-recipient target
type c09PTarget struct {
	fail map[string]bool
	// refuse: the target's AddRcpt refuses the k-th call (1-based) it sees for the address; 0 = every call
	refuse map[string]int
	last   *c09PDelivery
}
type c09PDelivery struct {
	t     *c09PTarget
	rcpts []string
	asked map[string]int
}

func c09PRefused(refuse map[string]int, asked map[string]int, to string) error {
	asked[to]++
	if k, ok := refuse[to]; ok && (k == 0 || k == asked[to]) {
		return &exterrors.SMTPError{Code: 550, EnhancedCode: exterrors.EnhancedCode{5, 1, 1}, Message: "no such mailbox (verif)"}
	}
	return nil
}

func (t *c09PTarget) Start(ctx context.Context, m *module.MsgMetadata, from string) (module.Delivery, error) {
	t.last = &c09PDelivery{t: t, asked: map[string]int{}}
	return t.last, nil
}
func (d *c09PDelivery) AddRcpt(ctx context.Context, to string, _ smtp.RcptOptions) error {
	if err := c09PRefused(d.t.refuse, d.asked, to); err != nil {
		return err
	}
	d.rcpts = append(d.rcpts, to)
	return nil
}
func (d *c09PDelivery) Body(ctx context.Context, h textproto.Header, b buffer.Buffer) error {
	return errors.New("atomic Body must not be used")
}
func (d *c09PDelivery) BodyNonAtomic(ctx context.Context, sc module.StatusCollector, h textproto.Header, b buffer.Buffer) {
	for _, r := range d.rcpts {
		if d.t.fail[r] {
			sc.SetStatus(r, errors.New("mailbox full"))
		} else {
			sc.SetStatus(r, nil)
		}
	}
}
func (d *c09PDelivery) Abort(ctx context.Context) error  { return nil }
func (d *c09PDelivery) Commit(ctx context.Context) error { return nil }

// scripted target WITHOUT per-recipient results (no BodyNonAtomic): Body succeeds or fails for the whole
// delivery; the pipeline itself has to produce the per-recipient results of a failure
type c09ATarget struct {
	fail   bool
	refuse map[string]int
}
type c09ADelivery struct {
	t     *c09ATarget
	asked map[string]int
}

func (t *c09ATarget) Start(ctx context.Context, m *module.MsgMetadata, from string) (module.Delivery, error) {
	return &c09ADelivery{t: t, asked: map[string]int{}}, nil
}
func (d *c09ADelivery) AddRcpt(ctx context.Context, to string, _ smtp.RcptOptions) error {
	return c09PRefused(d.t.refuse, d.asked, to)
}
func (d *c09ADelivery) Body(ctx context.Context, h textproto.Header, b buffer.Buffer) error {
	if d.t.fail {
		return errors.New("storage unavailable")
	}
	return nil
}
func (d *c09ADelivery) Abort(ctx context.Context) error  { return nil }
func (d *c09ADelivery) Commit(ctx context.Context) error { return nil }

// c09PPlan: where the body stage of one pipeline fails as a whole and what kind of target is behind it.
// Token `S<stage>/<tgt>[/<routed>]` (outer pipeline) and `I<stage>/<tgt>` (nested pipeline):
//
//	stage  - none | cg cs cr body check rejects (global / source block / destination blocks) |
//	       ar applyResults fails (DMARC policy reject) | mg ms mr RewriteBody of a modifier fails (global / source / destination blocks)
//	tgt    p per-recipient (PartialDelivery) target | a target without per-recipient results, Body succeeds | A Body fails
//	routed (tgt a/A only) `*` or absent: every direct recipient goes to that target; a `+` list of tokens: only the
//	       recipients of per-address destination blocks for these (key address.ForLookup) do, the rest go to the per-recipient target
type c09PPlan struct {
	stage  string
	tgt    byte
	all    bool
	routed map[string]bool
}

func c09PParsePlan(tok string) *c09PPlan {
	f := strings.Split(tok[1:], "/")
	if len(f) < 2 || len(f[1]) != 1 {
		return nil
	}
	p := &c09PPlan{stage: f[0], tgt: f[1][0], all: true, routed: map[string]bool{}}
	if len(f) > 2 && f[2] != "*" {
		p.all = false
		for _, t := range strings.Split(f[2], "+") {
			k, _ := address.ForLookup(c09PAddr(t))
			p.routed[k] = true
		}
	}
	return p
}

// c09PBuild: the configuration of one pipeline: the rewriting modifier at `place`, the failing stage of `stage`;
// mk makes a destination block (the destination-level modifiers and checks are the same in every block).
func c09PBuild(rw map[string][]string, place, stage, inst string) (cfg msgpipelineCfg, mk func(t module.DeliveryTarget) *rcptBlock, res dns.Resolver) {
	mod := testutils.Modifier{InstName: inst, RcptTo: rw}
	bad := testutils.Modifier{InstName: inst + "_body", BodyErr: errors.New("cannot sign")}
	rej := &testutils.Check{InstName: inst + "_check", BodyRes: module.CheckResult{Reject: true, Reason: errors.New("refused by policy")}}
	var g, s, r []module.Modifier
	var gc, sc, rc []module.Check
	switch place {
	case "g":
		g = append(g, mod)
	case "s":
		s = append(s, mod)
	default:
		r = append(r, mod)
	}
	switch stage {
	case "mg":
		g = append(g, bad)
	case "ms":
		s = append(s, bad)
	case "mr":
		r = append(r, bad)
	case "cg":
		gc = append(gc, rej)
	case "cs":
		sc = append(sc, rej)
	case "cr":
		rc = append(rc, rej)
	case "ar":
		// DKIM passes for another domain than the header From, whose DMARC policy is reject
		gc = append(gc, &testutils.Check{InstName: inst + "_auth", BodyRes: module.CheckResult{AuthResult: []authres.Result{
			&authres.DKIMResult{Value: authres.ResultPass, Domain: "example.org"},
			&authres.SPFResult{Value: authres.ResultNone, From: "example.org", Helo: "mx.example.org"},
		}}})
		res = &mockdns.Resolver{Zones: map[string]mockdns.Zone{"_dmarc.example.com.": {TXT: []string{"v=DMARC1; p=reject"}}}}
	}
	mk = func(t module.DeliveryTarget) *rcptBlock {
		return &rcptBlock{targets: []module.DeliveryTarget{t}, modifiers: modify.Group{Modifiers: r}, checks: rc}
	}
	cfg = msgpipelineCfg{
		globalChecks:    gc,
		globalModifiers: modify.Group{Modifiers: g},
		perSource:       map[string]sourceBlock{},
		defaultSource: sourceBlock{
			checks:    sc,
			modifiers: modify.Group{Modifiers: s},
			perRcpt:   map[string]*rcptBlock{},
		},
		doDMARC: stage == "ar",
	}
	return cfg, mk, res
}

type c09PCol struct {
	mu sync.Mutex
	st []string
}

func (c *c09PCol) SetStatus(r string, err error) {
	c.mu.Lock()
	defer c.mu.Unlock()
	res := "o"
	if err != nil {
		res = "f"
	}
	c.st = append(c.st, r+"="+res)
}

// op: C09 pipe <client>:<eff>+<eff>,...   <failing effective ids e.g. 11,12 or ->   <placement>
// An address token is <number>[<form>]: number < 10 = c<i>@example.org (client recipients), number >= 10 =
// e<j>@example.org; "<i>:" alone = not rewritten. An effective token below 10 is the address of
// CLIENT recipient j: the rewrite result of one client-supplied recipient is itself an address the
// client supplied (and which may be rewritten further: a->b, b->c).
// The optional form letter gives another SPELLING of the same mailbox (address.Equal, different string):
//
//	(none) c1@example.org   u C1@EXAMPLE.ORG   U C1@example.org   D c1@EXAMPLE.ORG
//	i c1@пример.example     I C1@пример.example   x c1@xn--e1afmkfd.example   X C1@XN--E1AFMKFD.EXAMPLE
//	c cé1@example.org (NFC) d ce\u03011@example.org (NFD)   C CÉ1@example.org
//
// so "1u:1" is a lower-casing modifier, "1i:1x" a conversion to A-labels, "1d:1c" a normalisation.
// The same client token may occur several times (the client sends one address twice).
//
// Optional 6th token: a NESTED pipeline behind the outer one,
//
//	<K><p>:<routed>:<inner spec>
//
// K = R (`reroute { ... }`: a *MsgPipeline as target) or M (`deliver_to &pipeline`: the msgpipeline
// module wrapping one); p = placement of the INNER rewriting modifier (g/s/r); routed = `*` (the outer
// default destination block hands everything to the nested pipeline) or a `+` list of tokens: the
// outer pipeline gets a per-address destination block for each of them (key = address.ForLookup, so
// every spelling of that mailbox) whose target is the nested pipeline, everything else goes to a
// direct target (the block is chosen BEFORE per-destination modifiers run: with outer placement r the
// client-supplied address decides, otherwise the outer effective one); inner spec = `-` or
// `<eff>:<fin>+<fin>,...`, the recipient rewrites of the inner pipeline. The failing ids of the 4th
// token are FINAL addresses (what the target behind the last pipeline sees). The nested pipeline gets
// the same *MsgMetadata as the outer one and is started lazily by the first recipient routed into it.
//
// Optional token `P<addr>:<orig>,...`: the MsgMetadata handed to Start already carries an
// OriginalRcpts table (left by a pipeline the message went through BEFORE, e.g. in front of a queue whose
// target this pipeline is): <addr> (a recipient this pipeline is given, or an address it produces) was
// <orig> there. Those are not addresses THIS pipeline was given: no result may be reported under them.
type c09PNest struct {
	kind, place byte
	all         bool
	routed      map[string]bool     // address.ForLookup keys
	rw          map[string][]string // inner rewrites
}

func c09PParseNest(tok string, nameOf map[string]string) *c09PNest {
	f := strings.Split(tok, ":")
	if len(f) < 3 || len(f[0]) != 2 {
		return nil
	}
	n := &c09PNest{kind: f[0][0], place: f[0][1], routed: map[string]bool{}, rw: map[string][]string{}}
	if f[1] == "*" {
		n.all = true
	} else {
		for _, t := range strings.Split(f[1], "+") {
			k, _ := address.ForLookup(c09PAddr(t))
			n.routed[k] = true
		}
	}
	inner := strings.Join(f[2:], ":")
	if inner != "-" {
		for _, part := range strings.Split(inner, ",") {
			g := strings.Split(part, ":")
			if len(g) != 2 || g[1] == "" {
				continue
			}
			x := c09PAddr(g[0])
			for _, e := range strings.Split(g[1], "+") {
				a := c09PAddr(e)
				if _, ok := nameOf[a]; !ok {
					nameOf[a] = c09PName(e)
				}
				n.rw[x] = append(n.rw[x], a)
			}
		}
	}
	return n
}

func c09PTok(tok string) (int, byte) {
	i := 0
	for i < len(tok) && tok[i] >= '0' && tok[i] <= '9' {
		i++
	}
	n, _ := strconv.Atoi(tok[:i])
	if i < len(tok) {
		return n, tok[i]
	}
	return n, 0
}

func c09PName(tok string) string {
	if n, _ := c09PTok(tok); n < 10 {
		return "c" + tok
	}
	return "e" + tok
}

func c09PAddr(tok string) string {
	num, form := c09PTok(tok)
	p := "e"
	if num < 10 {
		p = "c"
	}
	P := strings.ToUpper(p)
	n := strconv.Itoa(num)
	alabel, _ := idna.ToASCII("пример.example")
	switch form {
	case 'u':
		return P + n + "@EXAMPLE.ORG"
	case 'U':
		return P + n + "@example.org"
	case 'D':
		return p + n + "@EXAMPLE.ORG"
	case 'i':
		return p + n + "@пример.example"
	case 'I':
		return P + n + "@пример.example"
	case 'x':
		return p + n + "@" + alabel
	case 'X':
		return P + n + "@" + strings.ToUpper(alabel)
	case 'c':
		return p + "\u00e9" + n + "@example.org"
	case 'd':
		return p + "e\u0301" + n + "@example.org"
	case 'C':
		return P + "\u00c9" + n + "@example.org"
	}
	return p + n + "@example.org"
}

func c09Pipe(out *vh.Out, op string) {
	toks := strings.Fields(op)
	rw := map[string][]string{}
	var clients []string    // one entry per AddRcpt call of the client
	var distinct []string   // the distinct client-supplied addresses, in order of first use
	occ := map[string]int{} // client-supplied address -> number of AddRcpt calls with it
	effOf := map[string][]string{}
	nameOf := map[string]string{}
	for _, part := range strings.Split(toks[2], ",") {
		f := strings.Split(part, ":")
		c := c09PAddr(f[0])
		nameOf[c] = c09PName(f[0])
		clients = append(clients, c)
		occ[c]++
		if occ[c] > 1 {
			continue // the same address once more (same rewrite result: the modifier is a function)
		}
		distinct = append(distinct, c)
		if f[1] != "" {
			for _, e := range strings.Split(f[1], "+") {
				a := c09PAddr(e)
				if _, ok := nameOf[a]; !ok {
					nameOf[a] = c09PName(e)
				}
				rw[c] = append(rw[c], a)
				cn, cf := c09PTok(f[0])
				en, ef := c09PTok(e)
				if cn == en && cf != ef {
					if address.Equal(a, c) && a != c {
						out.Stat("pipe.rewritten-to-another-spelling." + c09PForm(cf) + ">" + c09PForm(ef))
					} else {
						out.Stat("pipe.respelled-token-not-equal")
					}
				}
			}
			effOf[c] = rw[c]
		} else {
			effOf[c] = []string{c}
		}
	}
	for _, c := range distinct {
		if occ[c] > 1 {
			out.Stat("pipe.client-address-sent." + strconv.Itoa(occ[c]) + "-times")
		}
	}
	fail := map[string]bool{}
	if toks[3] != "-" {
		for _, e := range strings.Split(toks[3], ",") {
			fail[c09PAddr(e)] = true
		}
	}
	name := func(a string) string {
		if n, ok := nameOf[a]; ok {
			return n
		}
		return "?" + vh.HexRunes(a)
	}
	var nest *c09PNest
	var pre map[string]string
	for _, tk := range toks[min(5, len(toks)):] {
		switch tk[0] {
		case 'R', 'M':
			nest = c09PParseNest(tk, nameOf)
		case 'P':
			pre = map[string]string{}
			for _, e := range strings.Split(tk[1:], ",") {
				g := strings.Split(e, ":")
				if len(g) == 2 {
					o := c09PAddr(g[1])
					pre[c09PAddr(g[0])] = o
					if _, ok := nameOf[o]; !ok {
						nameOf[o] = c09PName(g[1])
					}
				}
			}
			out.Stat("pipe.metadata-with-table-of-an-earlier-pipeline")
		}
	}
	// refusals at AddRcpt time: X = by the per-recipient target, Y = by a SECOND target (without per-recipient
	// results, Body succeeds) that every destination block gets next to it; entries <address token>/<k>: the k-th
	// AddRcpt call the target sees for that address is refused (0 = every call)
	// W<addr>,...: per-address destination blocks that REJECT (`destination <addr> { reject 550 }`; key = address.ForLookup,
	// so every spelling of that mailbox): the pipeline itself refuses the effective address (the client-supplied one when
	// the rewriting modifier sits in the destination block: the block is chosen before its modifiers run)
	var rejectW map[string]bool
	var refuseX, refuseY map[string]int
	for _, tk := range toks[min(5, len(toks)):] {
		if tk[0] == 'W' {
			rejectW = map[string]bool{}
			for _, e := range strings.Split(tk[1:], ",") {
				k, _ := address.ForLookup(c09PAddr(e))
				rejectW[k] = true
			}
			continue
		}
		if tk[0] != 'X' && tk[0] != 'Y' {
			continue
		}
		m := map[string]int{}
		if tk[1:] != "-" {
			for _, e := range strings.Split(tk[1:], ",") {
				g := strings.Split(e, "/")
				if len(g) == 2 {
					k, _ := strconv.Atoi(g[1])
					m[c09PAddr(g[0])] = k
					if _, ok := nameOf[c09PAddr(g[0])]; !ok {
						nameOf[c09PAddr(g[0])] = c09PName(g[0])
					}
				}
			}
		}
		if tk[0] == 'X' {
			refuseX = m
		} else {
			refuseY = m
		}
	}
	refusals := refuseX != nil || refuseY != nil || rejectW != nil
	outerPlan := &c09PPlan{stage: "-", tgt: 'p', all: true}
	innerPlan := &c09PPlan{stage: "-", tgt: 'p', all: true}
	for _, tk := range toks[min(5, len(toks)):] {
		switch tk[0] {
		case 'S':
			if pl := c09PParsePlan(tk); pl != nil {
				outerPlan = pl
			}
		case 'I':
			if pl := c09PParsePlan(tk); pl != nil {
				innerPlan = pl
			}
		}
	}
	mkTarget := func(pl *c09PPlan) module.DeliveryTarget {
		if pl.tgt == 'p' {
			return &c09PTarget{fail: fail}
		}
		return &c09ATarget{fail: pl.tgt == 'A'}
	}
	// where the rewriting modifier sits: g = global, s = source block, r = recipient block
	place := "g"
	if len(toks) > 4 {
		place = toks[4]
	}
	cfg, mkBlock, resolver := c09PBuild(rw, place, outerPlan.stage, "verif_rewrite")
	var primary *c09PTarget
	if refusals {
		// (only generated without nested pipelines and stage plans)
		primary = &c09PTarget{fail: fail, refuse: refuseX}
		mk0 := mkBlock
		mkBlock = func(t module.DeliveryTarget) *rcptBlock {
			b := mk0(primary)
			if refuseY != nil {
				b.targets = append(b.targets, &c09ATarget{refuse: refuseY})
			}
			return b
		}
	}
	for k := range rejectW {
		cfg.defaultSource.perRcpt[k] = &rcptBlock{rejectErr: &exterrors.SMTPError{Code: 550, EnhancedCode: exterrors.EnhancedCode{5, 7, 1}, Message: "rejected by configuration (verif)"}}
	}
	if rejectW != nil {
		out.Stat("pipe.refusals.rejecting-destination-block")
	}
	if outerPlan.tgt == 'p' || outerPlan.all {
		cfg.defaultSource.defaultRcpt = mkBlock(mkTarget(outerPlan))
	} else {
		cfg.defaultSource.defaultRcpt = mkBlock(&c09PTarget{fail: fail})
	}
	if nest != nil {
		// the nested pipeline: its own rewriting modifier, its own target
		icfg, imk, ires := c09PBuild(nest.rw, string(rune(nest.place)), innerPlan.stage, "verif_rewrite_inner")
		icfg.defaultSource.defaultRcpt = imk(mkTarget(innerPlan))
		inner := &MsgPipeline{msgpipelineCfg: icfg, Log: log.Logger{Out: log.NopOutput{}}, Resolver: ires}
		var ntgt module.DeliveryTarget = inner
		if nest.kind == 'M' {
			ntgt = &Module{instName: "verif_nested", MsgPipeline: inner}
		}
		if nest.all {
			cfg.defaultSource.defaultRcpt = mkBlock(ntgt)
		} else {
			for k := range nest.routed {
				cfg.defaultSource.perRcpt[k] = mkBlock(ntgt)
			}
		}
		out.Stat("pipe.nested.kind." + string(rune(nest.kind)))
		out.Stat("pipe.nested.inner-place." + string(rune(nest.place)))
		out.Stat("pipe.nested.inner-stage." + innerPlan.stage + "/" + string(rune(innerPlan.tgt)))
	}
	if outerPlan.tgt != 'p' && !outerPlan.all {
		alt := mkTarget(outerPlan)
		for k := range outerPlan.routed {
			if _, taken := cfg.defaultSource.perRcpt[k]; !taken {
				cfg.defaultSource.perRcpt[k] = mkBlock(alt)
			}
		}
	}
	d := MsgPipeline{msgpipelineCfg: cfg, Log: log.Logger{Out: log.NopOutput{}}, Resolver: resolver}
	out.Stat("pipe.stage." + outerPlan.stage + "/" + string(rune(outerPlan.tgt)))
	out.Stat("pipe.place." + place)
	ctx := context.Background()
	delivery, err := d.Start(ctx, &module.MsgMetadata{ID: "verif", OriginalRcpts: pre}, "sender@example.com")
	if err != nil {
		out.Corr(op, "start-error")
		return
	}
	// per AddRcpt call: was it accepted, and how many effective addresses did the per-recipient target take
	// while it ran (ground truth read from the scripted target itself)
	var addOK []bool
	var tookDuring [][]string
	for _, c := range clients {
		before := 0
		if primary != nil && primary.last != nil {
			before = len(primary.last.rcpts)
		}
		err := delivery.AddRcpt(ctx, c, smtp.RcptOptions{})
		if err != nil && !refusals {
			out.Corr(op, "addrcpt-error")
			delivery.Abort(ctx)
			return
		}
		addOK = append(addOK, err == nil)
		var took []string
		if primary != nil && primary.last != nil {
			took = append(took, primary.last.rcpts[before:]...)
		}
		tookDuring = append(tookDuring, took)
	}
	if refusals {
		any := false
		for _, ok := range addOK {
			any = any || ok
		}
		if !any {
			// every RCPT TO was refused: the caller has nothing to send
			delivery.Abort(ctx)
			var adds []string
			for range addOK {
				adds = append(adds, "f")
			}
			out.Corr(op, "add:"+strings.Join(adds, ",")+" status:")
			out.Stat("pipe.refusals.every-recipient-refused")
			return
		}
	}
	col := &c09PCol{}
	hdr := textproto.Header{}
	hdr.Add("Subject", "x")
	hdr.Add("From", "<sender@example.com>")
	delivery.(module.PartialDelivery).BodyNonAtomic(ctx, col, hdr, buffer.MemoryBuffer{Slice: []byte("x\r\n")})
	delivery.Commit(ctx)
	// canonical form: the token names of the addresses (an address the op does not mention: ?hex)
	var canon []string
	for _, s := range col.st {
		i := strings.LastIndex(s, "=")
		canon = append(canon, name(s[:i])+s[i:])
	}
	sort.Strings(canon)
	shown := strings.Join(canon, ",")
	if refusals {
		var adds []string
		for _, ok := range addOK {
			adds = append(adds, map[bool]string{true: "o", false: "f"}[ok])
		}
		out.Corr(op, "add:"+strings.Join(adds, ",")+" status:"+shown)
	} else {
		out.Corr(op, shown)
	}

	isClient := map[string]bool{}
	for _, c := range clients {
		isClient[c] = true
	}
	got := map[string]int{}
	gotVals := map[string][]string{}
	for _, s := range col.st {
		i := strings.LastIndex(s, "=")
		k := s[:i]
		got[k]++
		gotVals[k] = append(gotVals[k], s[i+1:])
	}
	var gotKeys []string
	for k := range got {
		gotKeys = append(gotKeys, k)
	}
	sort.Strings(gotKeys)
	for _, k := range gotKeys {
		if !isClient[k] {
			out.Violation("C09/pipeline-status-under-effective-address", op, "result reported under "+name(k)+" ("+vh.HexRunes(k)+") which the client never supplied (as given); "+shown)
		}
	}
	if refusals {
		// Some AddRcpt calls were refused. Every ACCEPTED call is due one result per effective recipient, under the
		// address the client supplied. A refused call may leave effective addresses behind in the target (it took
		// them before another one - or the second target - refused; module.Delivery has no way to take them back):
		// the target reports on those too, and IF such a result is reported it has to be under the client-supplied
		// address as well (rule above) - it is allowed, not demanded.
		// With a stage plan (S<stage>/p) the body stage fails for the whole delivery and the PIPELINE generates the
		// results: a failure per entry of delivery.recipients (the client-supplied address, once per effective address
		// the target took).
		due := map[string][]string{}
		left := map[string][]string{}
		refusedCalls, leftovers := 0, 0
		stageFails := outerPlan.stage != "-"
		if stageFails {
			out.Stat("pipe.refusals.with-pipeline-generated-statuses")
		}
		for i, c := range clients {
			if addOK[i] {
				for _, e := range effOf[c] {
					due[c] = append(due[c], map[bool]string{true: "f", false: "o"}[fail[e] || stageFails])
				}
				continue
			}
			refusedCalls++
			for _, e := range tookDuring[i] {
				left[c] = append(left[c], map[bool]string{true: "f", false: "o"}[fail[e] || stageFails])
				leftovers++
			}
			seenBefore := false
			for j := 0; j < i; j++ {
				seenBefore = seenBefore || (clients[j] == c && addOK[j])
			}
			switch {
			case seenBefore:
				out.Stat("pipe.refusals.repetition-of-an-accepted-recipient-refused")
			case len(tookDuring[i]) > 0:
				out.Stat("pipe.refusals.refused-after-the-target-took-some-of-its-addresses")
			default:
				out.Stat("pipe.refusals.refused-before-the-target-took-anything")
			}
			if len(effOf[c]) != 1 || effOf[c][0] != c {
				out.Stat("pipe.refusals.refused-recipient-is-rewritten")
			}
		}
		out.Stat(fmt.Sprintf("pipe.refusals.refused-calls-%d", min(refusedCalls, 3)))
		out.Stat(fmt.Sprintf("pipe.refusals.leftover-addresses-%d", min(leftovers, 3)))
		if refuseY != nil {
			out.Stat("pipe.refusals.second-target-in-block")
		}
		nf := func(l []string) int { return strings.Count(strings.Join(l, ""), "f") }
		for _, c := range distinct {
			lo, hi := len(due[c]), len(due[c])+len(left[c])
			if got[c] < lo || got[c] > hi {
				out.Violation("C09/pipeline-result-count", op, fmt.Sprintf("client recipient %s: accepted calls are due %d results (+%d for addresses a refused call left in the target), %d results; %s", name(c), lo, hi-lo, got[c], shown))
				continue
			}
			if f := nf(gotVals[c]); f < nf(due[c]) || f > nf(due[c])+nf(left[c]) || got[c]-f > (lo-nf(due[c]))+(hi-lo-nf(left[c])) {
				out.Violation("C09/pipeline-result-of-another-recipient", op, fmt.Sprintf("client recipient %s: its effective recipients ended %v (+ left behind by refused calls %v), results reported under it %v; %s", name(c), due[c], left[c], gotVals[c], shown))
			}
		}
		out.Stat("pipe.clients." + strconv.Itoa(len(clients)))
		return
	}
	// each client-supplied recipient gets one result per FINAL effective recipient it was expanded to
	// (through the outer and, when routed there, the nested pipeline), per AddRcpt call with it
	// (collisions of two DIFFERENT client addresses on one effective address are the known finding KF-C09-1).
	// A result is either what a per-recipient target said about the final address (tgt D / N), or a failure the
	// PIPELINE generates for the recipients of a delivery that failed as a whole (body check / modifier /
	// applyResults failure: every recipient; Body error of a target without per-recipient results: its
	// recipients). A target without per-recipient results whose Body succeeded (tgt a) reports nothing:
	// silence stands for success there, a result is not demanded - but none may be a failure.
	type fin struct{ tgt, addr string }
	outerFail := outerPlan.stage != "-"
	innerFail := nest != nil && innerPlan.stage != "-"
	finOf := map[string][]fin{}
	viaOuter := map[string]bool{} // outer effective address whose results go through the outer reverse translation
	firstNested := ""
	for _, c := range distinct {
		for _, e := range effOf[c] {
			look := e
			if place == "r" {
				look = c // the destination block is chosen before its modifiers rewrite the address
			}
			k, _ := address.ForLookup(look)
			// per-address destination blocks come before the default one
			altBlock := outerPlan.tgt != 'p' && !outerPlan.all && outerPlan.routed[k]
			routed := nest != nil && (nest.routed[k] || (nest.all && !altBlock))
			var ys []string
			if routed {
				ys = []string{e}
				if len(nest.rw[e]) > 0 {
					ys = nest.rw[e]
					out.Stat("pipe.nested.rewritten-again-by-inner")
				}
			}
			switch {
			case outerFail:
				finOf[c] = append(finOf[c], fin{"F", e}) // one failure per entry of delivery.recipients
			case routed && innerFail:
				for _, y := range ys {
					finOf[c] = append(finOf[c], fin{"NF", y})
				}
				viaOuter[e] = true
			case routed && innerPlan.tgt != 'p':
				for _, y := range ys {
					finOf[c] = append(finOf[c], fin{"N" + string(rune(innerPlan.tgt)), y})
				}
				viaOuter[e] = viaOuter[e] || innerPlan.tgt == 'A'
			case routed:
				for _, y := range ys {
					finOf[c] = append(finOf[c], fin{"N", y})
				}
				viaOuter[e] = true
			case outerPlan.tgt != 'p' && (outerPlan.all || outerPlan.routed[k]):
				finOf[c] = append(finOf[c], fin{string(rune(outerPlan.tgt)), e})
			default:
				finOf[c] = append(finOf[c], fin{"D", e})
				viaOuter[e] = true
			}
			if routed && e != c {
				out.Stat("pipe.nested.outer-rewritten-recipient-routed-into-nest")
			}
		}
	}
	if nest != nil {
		for _, c := range clients { // AddRcpt order
			for _, f := range finOf[c] {
				if f.tgt[0] == 'N' && firstNested == "" {
					firstNested = c
					if len(effOf[c]) != 1 || effOf[c][0] != c {
						out.Stat("pipe.nested.started-by-a-rewritten-recipient")
					} else {
						out.Stat("pipe.nested.started-by-an-unrewritten-recipient")
					}
				}
			}
		}
		if firstNested == "" && !outerFail {
			out.Stat("pipe.nested.never-started")
		}
	}
	collide := map[string]int{}
	collideAny := map[string]int{}
	collideFin := map[fin]int{}
	for _, c := range distinct {
		seen := map[string]bool{}
		for _, e := range effOf[c] {
			if !seen[e] {
				collideAny[e]++
				if viaOuter[e] {
					collide[e]++
				}
			}
			seen[e] = true
		}
		for _, f := range finOf[c] {
			if f.tgt == "N" { // translated by the nested delivery
				collideFin[f]++
			}
		}
	}
	anyCollision := false
	for _, n := range collide {
		if n > 1 {
			anyCollision = true
		}
	}
	for _, n := range collideFin {
		if n > 1 {
			anyCollision = true
		}
	}
	manyToOne := false
	for _, n := range collideAny {
		if n > 1 {
			manyToOne = true
		}
	}
	generated := outerFail
	for _, c := range distinct {
		for _, f := range finOf[c] {
			if f.tgt == "NF" || f.tgt == "NA" || f.tgt == "A" {
				generated = true
			}
		}
	}
	if manyToOne {
		out.Stat("pipe.many-to-one-recipient-list")
		if generated {
			out.Stat("pipe.many-to-one-recipient-list.with-pipeline-generated-statuses")
		}
		if anyCollision {
			out.Stat("pipe.many-to-one-recipient-list.through-the-reverse-translation(KF-C09-1)")
		}
	}
	if generated {
		out.Stat("pipe.pipeline-generated-statuses")
	}
	chained := false
	for _, c := range distinct {
		for _, e := range effOf[c] {
			if e != c && isClient[e] {
				chained = true
			}
		}
	}
	if chained {
		out.Stat("pipe.rewritten-to-another-client-address")
		if firstNested != "" {
			out.Stat("pipe.nested.with-rewrite-to-another-client-address")
		}
	}
	for _, c := range distinct {
		// required results (sorted values) and how many further successes may be reported (silent targets)
		var wantVals []string
		optional := 0
		for k := 0; k < occ[c]; k++ {
			for _, f := range finOf[c] {
				switch f.tgt {
				case "a", "Na":
					optional++
				case "D", "N":
					if fail[f.addr] {
						wantVals = append(wantVals, "f")
					} else {
						wantVals = append(wantVals, "o")
					}
				default:
					wantVals = append(wantVals, "f")
				}
			}
		}
		if got[c] < len(wantVals) || got[c] > len(wantVals)+optional {
			sig := "C09/pipeline-result-count"
			for _, e := range effOf[c] {
				if collide[e] > 1 {
					sig = "C09/pipeline-alias-collision-result-misfiled"
				}
			}
			for _, f := range finOf[c] {
				if collideFin[f] > 1 {
					sig = "C09/pipeline-alias-collision-result-misfiled"
				}
			}
			wantS := strconv.Itoa(len(wantVals))
			if optional > 0 {
				wantS += ".." + strconv.Itoa(len(wantVals)+optional)
			}
			out.Violation(sig, op, fmt.Sprintf("client recipient %s (sent %d times) expanded to %d effective recipients (%s results due), %d results; %s", name(c), occ[c], len(finOf[c]), wantS, got[c], shown))
			continue
		}
		if anyCollision {
			continue // known finding KF-C09-1: results are misfiled between the colliding recipients
		}
		// the results filed under a client-supplied recipient are those of ITS effective recipients
		sort.Strings(wantVals)
		gv := append([]string{}, gotVals[c]...)
		sort.Strings(gv)
		nf := func(l []string) int { return strings.Count(strings.Join(l, ""), "f") }
		if nf(gv) != nf(wantVals) {
			out.Violation("C09/pipeline-result-of-another-recipient", op, fmt.Sprintf("client recipient %s: its effective recipients ended %v (+%d that may be reported as delivered), results reported under it %v; %s", name(c), wantVals, optional, gv, shown))
		}
	}
	out.Stat("pipe.clients." + strconv.Itoa(len(clients)))
}

func c09PForm(f byte) string {
	if f == 0 {
		return "a"
	}
	return string(rune(f))
}

// c09PGenRespell: rewriting modifiers whose output differs from the client-supplied address only by
// letter case / IDN form / Unicode normalisation (a lower-casing table, conversion to A-labels or
// U-labels, NFC), alone or inside a 1-to-N expansion, next to unrewritten recipients, genuine
// rewrites and further client recipients that are other spellings of the same mailbox (rewritten to
// something else, so every effective address string stays unique: not the collision of KF-C09-1).
func c09PGenRespell(r *vh.Rng, out *vh.Out) (parts, effs []string) {
	fams := []string{"auUD", "ixIX", "cdC"}
	tok := func(n int, f byte) string {
		if f == 'a' {
			return strconv.Itoa(n)
		}
		return strconv.Itoa(n) + string(rune(f))
	}
	nc := 1 + r.Intn(3)
	next := 10
	usedEff := map[string]bool{}
	usedClient := map[string]bool{}
	add := func(ctok string, tg []string) {
		parts = append(parts, ctok+":"+strings.Join(tg, "+"))
		usedClient[ctok] = true
		if len(tg) == 0 {
			tg = []string{ctok}
		}
		for _, e := range tg {
			if usedEff[e] {
				out.Note("generator: effective address used twice (respell)")
			}
			usedEff[e] = true
			effs = append(effs, e)
		}
	}
	fresh := func() string { next++; return strconv.Itoa(next) }
	for c := 1; c <= nc; c++ {
		fam := fams[r.Intn(len(fams))]
		free := []byte(fam)
		take := func() byte {
			k := r.Intn(len(free))
			f := free[k]
			free = append(free[:k], free[k+1:]...)
			return f
		}
		ctok := tok(c, take())
		var tg []string
		switch {
		case r.Chance(75):
			tg = []string{tok(c, take())}
			if len(free) > 0 && r.Chance(12) {
				tg = append(tg, tok(c, take())) // two other spellings
			}
			if r.Chance(25) {
				if r.Chance(50) {
					tg = append(tg, fresh())
				} else {
					tg = append([]string{fresh()}, tg...)
				}
			}
		case r.Chance(50):
			tg = []string{fresh()}
		}
		add(ctok, tg)
		// a further client recipient that is another spelling of the same mailbox, or exactly the
		// spelling the first one was rewritten to (a chain through spellings)
		if r.Chance(30) && (len(free) > 0 || len(tg) > 0) {
			var stok string
			sameMbox := false
			if len(tg) > 0 {
				n0, _ := c09PTok(tg[0])
				sameMbox = n0 == c
			}
			if sameMbox && !usedClient[tg[0]] && r.Chance(50) {
				stok = tg[0] // it must itself be rewritten: its address is already an effective one
			} else if len(free) > 0 {
				stok = tok(c, take())
			}
			if stok != "" {
				var stg []string
				switch {
				case len(free) > 0 && r.Chance(50):
					stg = []string{tok(c, take())}
				case usedEff[stok] || r.Chance(60):
					stg = []string{fresh()}
				}
				add(stok, stg)
			}
		}
	}
	for k := len(parts) - 1; k > 0; k-- {
		j := r.Intn(k + 1)
		parts[k], parts[j] = parts[j], parts[k]
	}
	return parts, effs
}

// c09PGenNest puts a nested pipeline behind the outer one described by parts: which recipients are
// routed into it (all, or those of a random non-empty subset of the addresses the outer pipeline
// chooses the destination block by), and what the inner pipeline rewrites them to (nothing, a fresh
// address, two, another spelling of the same mailbox, or - rarely - the address of a client recipient
// that itself stays outside the nested pipeline). Every address a target sees stays unique (not the
// collision of KF-C09-1). Returns the token and the FINAL effective tokens.
func c09PGenNest(r *vh.Rng, out *vh.Out, parts []string, place string, innerManyToOne bool) (string, []string) {
	type path struct{ c, x string }
	var paths []path
	used := map[string]bool{}
	seen := map[string]bool{}
	var clientToks []string
	for _, p := range parts {
		f := strings.Split(p, ":")
		if seen[f[0]] {
			continue
		}
		seen[f[0]] = true
		clientToks = append(clientToks, f[0])
		used[c09PAddr(f[0])] = true
		es := []string{f[0]}
		if f[1] != "" {
			es = strings.Split(f[1], "+")
		}
		for _, x := range es {
			paths = append(paths, path{f[0], x})
			used[c09PAddr(x)] = true
		}
	}
	lookOf := func(p path) string {
		if place == "r" {
			return p.c
		}
		return p.x
	}
	key := func(tok string) string { k, _ := address.ForLookup(c09PAddr(tok)); return k }
	var look []string
	lseen := map[string]bool{}
	for _, p := range paths {
		if l := lookOf(p); !lseen[key(l)] {
			lseen[key(l)] = true
			look = append(look, l)
		}
	}
	all := r.Chance(40)
	routedKeys := map[string]bool{}
	var routedToks []string
	if !all {
		k := 1 + r.Intn(len(look))
		for _, i := range c09PPerm(r, len(look))[:k] {
			routedToks = append(routedToks, look[i])
			routedKeys[key(look[i])] = true
		}
	}
	isRouted := func(p path) bool { return all || routedKeys[key(lookOf(p))] }
	fams := []string{"auUD", "ixIX", "cdC"}
	next := 40
	var inner, finals []string
	doneX := map[string]bool{}
	for _, p := range paths {
		if !isRouted(p) {
			finals = append(finals, p.x)
			continue
		}
		if doneX[p.x] {
			continue
		}
		doneX[p.x] = true
		if !r.Chance(55) {
			finals = append(finals, p.x)
			continue
		}
		n := 1
		if r.Chance(25) {
			n = 2
		}
		var tg []string
		for i := 0; i < n; i++ {
			tok := ""
			switch {
			case r.Chance(30):
				// another spelling of the mailbox the outer pipeline produced
				num, form := c09PTok(p.x)
				if form == 0 {
					form = 'a'
				}
				for _, fam := range fams {
					if strings.IndexByte(fam, form) < 0 {
						continue
					}
					f := fam[r.Intn(len(fam))]
					t := strconv.Itoa(num)
					if f != 'a' {
						t += string(rune(f))
					}
					if !used[c09PAddr(t)] {
						tok = t
					}
				}
			case r.Chance(35):
				// the address of a client recipient that does not enter the nested pipeline itself
				for _, t := range clientToks {
					ok := !used[c09PAddr(t)+"#fin"]
					for _, q := range paths {
						if (q.c == t && isRouted(q)) || (isRouted(q) && c09PAddr(q.x) == c09PAddr(t)) {
							ok = false
						}
					}
					if ok {
						tok = t
						used[c09PAddr(t)+"#fin"] = true
						out.Stat("pipe.nested.inner-rewrites-to-a-client-address-outside-the-nest")
						break
					}
				}
			}
			if tok == "" {
				next++
				tok = strconv.Itoa(next)
				if r.Chance(20) {
					tok += string(rune("uUDixc"[r.Intn(6)]))
				}
			}
			used[c09PAddr(tok)] = true
			tg = append(tg, tok)
		}
		inner = append(inner, p.x+":"+strings.Join(tg, "+"))
		finals = append(finals, tg...)
	}
	// the INNER rewrites are many-to-one: two addresses the nested pipeline is given become one, or one of them
	// becomes the other (only asked for when the nested delivery's results are generated by a pipeline)
	if innerManyToOne {
		var rx []string
		seenX := map[string]bool{}
		for _, p := range paths {
			if isRouted(p) && !seenX[p.x] {
				seenX[p.x] = true
				rx = append(rx, p.x)
			}
		}
		if len(rx) >= 2 {
			pm := c09PPerm(r, len(rx))
			xs := []string{rx[pm[0]], rx[pm[1]]}
			if len(rx) >= 3 && r.Chance(30) {
				xs = append(xs, rx[pm[2]])
			}
			var keep []string
			for _, e := range inner {
				drop := false
				for _, x := range xs {
					drop = drop || strings.HasPrefix(e, x+":")
				}
				if !drop {
					keep = append(keep, e)
				}
			}
			inner = keep
			if r.Chance(50) {
				next++
				y := strconv.Itoa(next)
				for _, x := range xs {
					inner = append(inner, x+":"+y)
				}
				finals = append(finals, y)
			} else {
				for _, x := range xs[1:] {
					inner = append(inner, x+":"+xs[0])
				}
			}
			out.Stat("pipe.nested.inner-rewrites-many-to-one")
		}
	}
	rt := "*"
	if !all {
		rt = strings.Join(routedToks, "+")
	}
	in := "-"
	if len(inner) > 0 {
		in = strings.Join(inner, ",")
	}
	return fmt.Sprintf("%c%c:%s:%s", "RM"[r.Intn(2)], "gsr"[r.Intn(3)], rt, in), finals
}

// c09PGenManyToOne: recipient lists on which the effective->client table is neither injective nor total:
// an alias together with the mailbox it is rewritten to (1:2,2:), two or three aliases of one mailbox
// (fresh: 1:20,2:20 / itself supplied: 1:3,2:3,3:), two spellings normalised to one (1u:1,1: / 1u:1,1D:1),
// a chain that ends in a supplied mailbox (1:2,2:3,3:); decorated with a 1-to-N expansion, an unrelated
// recipient, a client address sent twice; in every order. Returns the parts and the tokens of the
// recipients involved (client side / effective side) - the caller sees to it that their results are
// generated by the pipeline (whole-delivery failure) and do not pass the reverse translation (KF-C09-1).
func c09PGenManyToOne(r *vh.Rng) (parts, effs, cliToks, effToks []string) {
	next := 19
	fresh := func() string { next++; return strconv.Itoa(next) }
	var tg [][2]string
	switch r.Intn(7) {
	case 0:
		tg = [][2]string{{"1", "2"}, {"2", ""}}
	case 1:
		m := fresh()
		tg = [][2]string{{"1", m}, {"2", m}}
		if r.Chance(35) {
			tg = append(tg, [2]string{"3", m})
		}
	case 2:
		tg = [][2]string{{"1", "3"}, {"2", "3"}, {"3", ""}}
	case 3:
		fam := r.Pick("uUD", "iIxX", "cdC")
		f := []byte(fam)
		for k := len(f) - 1; k > 0; k-- {
			j := r.Intn(k + 1)
			f[k], f[j] = f[j], f[k]
		}
		base := "1"
		if fam != "uUD" {
			base = "1" + string(rune(f[2]))
		}
		a, b := "1"+string(rune(f[0])), "1"+string(rune(f[1]))
		if r.Chance(50) {
			tg = [][2]string{{a, base}, {base, ""}}
		} else {
			tg = [][2]string{{a, base}, {b, base}}
			if r.Chance(40) {
				tg = append(tg, [2]string{base, ""})
			}
		}
	case 4:
		tg = [][2]string{{"1", "2"}, {"2", "3"}, {"3", ""}}
	case 5:
		// alias of a mailbox that is supplied too and itself an alias of a third that is supplied: 1:2,2:3,3:,4:3
		tg = [][2]string{{"1", "2"}, {"2", "3"}, {"3", ""}, {"4", "3"}}
	default:
		// two independent groups
		m := fresh()
		tg = [][2]string{{"1", "2"}, {"2", ""}, {"3", m}, {"4", m}}
	}
	for _, t := range tg {
		cliToks = append(cliToks, t[0])
		if t[1] != "" {
			effToks = append(effToks, t[1])
		} else {
			effToks = append(effToks, t[0])
		}
	}
	// a 1-to-N expansion inside the group
	if r.Chance(30) {
		k := r.Intn(len(tg))
		if tg[k][1] != "" {
			x := fresh()
			effToks = append(effToks, x)
			if r.Chance(50) {
				tg[k][1] += "+" + x
			} else {
				tg[k][1] = x + "+" + tg[k][1]
			}
		}
	}
	// unrelated recipients (their results may come from the per-recipient target)
	for c := 5; c <= 6; c++ {
		if r.Chance(40) {
			if r.Chance(50) {
				tg = append(tg, [2]string{strconv.Itoa(c), ""})
			} else {
				tg = append(tg, [2]string{strconv.Itoa(c), fresh()})
			}
		}
	}
	for _, t := range tg {
		parts = append(parts, t[0]+":"+t[1])
		e := t[1]
		if e == "" {
			e = t[0]
		}
		effs = append(effs, strings.Split(e, "+")...)
	}
	for k := len(parts) - 1; k > 0; k-- {
		j := r.Intn(k + 1)
		parts[k], parts[j] = parts[j], parts[k]
	}
	return
}

var c09PStages = []string{"cg", "cs", "cr", "ar", "mg", "ms", "mr"}

func c09PPerm(r *vh.Rng, n int) []int {
	p := make([]int, n)
	for i := range p {
		p[i] = i
	}
	for i := n - 1; i > 0; i-- {
		j := r.Intn(i + 1)
		p[i], p[j] = p[j], p[i]
	}
	return p
}

func TestVerifC09Pipeline(t *testing.T) {
	out := vh.Open("c09_pipeline")
	defer out.Close()
	if ops := vh.Replay(); ops != nil {
		for _, op := range ops {
			if strings.HasPrefix(op, "C09 pipe") {
				c09Pipe(out, op)
			}
		}
		return
	}
	r := vh.NewRng(vh.Seed() + 929)
	n := vh.N(150) * 2 // no network in here: a case costs microseconds
	for i := 0; i < n; i++ {
		nc := 1 + r.Intn(3)
		next := 10
		var parts []string
		var effs []string
		respell := r.Chance(30)
		manyToOne := !respell && r.Chance(22)
		if respell || manyToOne {
			nc = 0
		}
		for c := 1; c <= nc; c++ {
			switch r.Intn(4) {
			case 0:
				parts = append(parts, fmt.Sprintf("%d:", c))
				effs = append(effs, strconv.Itoa(c))
			case 1, 2:
				next++
				parts = append(parts, fmt.Sprintf("%d:%d", c, next))
				effs = append(effs, strconv.Itoa(next))
			default:
				parts = append(parts, fmt.Sprintf("%d:%d+%d", c, next+1, next+2))
				effs = append(effs, strconv.Itoa(next+1), strconv.Itoa(next+2))
				next += 2
			}
		}
		collision := false
		// occasionally make two clients collide on one effective address
		var m21Cli, m21Eff []string
		if respell {
			parts, effs = c09PGenRespell(r, out)
		} else if manyToOne {
			parts, effs, m21Cli, m21Eff = c09PGenManyToOne(r)
		} else if nc >= 2 && r.Chance(10) {
			collision = true
			parts[0] = "1:77"
			parts[1] = "2:77"
			effs = append(effs, "77")
		} else if r.Chance(35) {
			// the rewrite result of one client-supplied recipient is the address of another
			// client-supplied recipient, which is itself rewritten to something else (a->b, b->c;
			// longer chains; a swap a->b, b->a; inside a 1-to-N expansion). Every effective address
			// stays unique, so this is NOT the collision of KF-C09-1.
			nc = 2 + r.Intn(3)
			parts, effs = nil, nil
			order := make([]int, nc)
			for k := range order {
				order[k] = k + 1
			}
			for k := nc - 1; k > 0; k-- {
				j := r.Intn(k + 1)
				order[k], order[j] = order[j], order[k]
			}
			target := map[int]string{}
			used := map[string]bool{}
			links := 1 + r.Intn(nc-1)
			swap := r.Chance(20)
			if swap {
				target[order[0]] = strconv.Itoa(order[1])
				target[order[1]] = strconv.Itoa(order[0])
			} else {
				// order[0] -> order[1] -> ... -> order[links] -> fresh effective address
				for k := 0; k < links; k++ {
					target[order[k]] = strconv.Itoa(order[k+1])
				}
				next++
				target[order[links]] = strconv.Itoa(next)
			}
			for c := 1; c <= nc; c++ {
				tg, ok := target[c]
				switch {
				case !ok && r.Chance(50):
					next++
					tg = strconv.Itoa(next)
				case !ok:
					tg = ""
				case r.Chance(25):
					next++
					if r.Chance(50) {
						tg = tg + "+" + strconv.Itoa(next)
					} else {
						tg = strconv.Itoa(next) + "+" + tg
					}
				}
				parts = append(parts, fmt.Sprintf("%d:%s", c, tg))
				if tg == "" {
					tg = strconv.Itoa(c)
				}
				for _, e := range strings.Split(tg, "+") {
					if used[e] {
						out.Note("generator: effective address used twice")
					}
					used[e] = true
					effs = append(effs, e)
				}
			}
			// the order in which the client sends them matters (a before b / b before a)
			for k := len(parts) - 1; k > 0; k-- {
				j := r.Intn(k + 1)
				parts[k], parts[j] = parts[j], parts[k]
			}
		}
		// the client sends one of its addresses twice (or three times)
		dupChance := 12
		if manyToOne {
			dupChance = 25
		}
		if !collision && r.Chance(dupChance) {
			k := r.Intn(len(parts))
			for n := 1 + r.Intn(2); n > 0; n-- {
				j := r.Intn(len(parts) + 1)
				parts = append(parts, "")
				copy(parts[j+1:], parts[j:])
				if j <= k {
					k++
				}
				parts[j] = parts[k]
			}
		}
		// a nested pipeline behind the outer one (reroute / pipeline as a target); where the body stage fails
		// for a whole delivery and which targets have no per-recipient results, so that the PIPELINE has to
		// produce the results (tokens S = outer, I = nested pipeline)
		place := r.Pick("g", "s", "r")
		nestTok, planTok := "", ""
		// refusals at AddRcpt time (tokens X / Y): the client repeats a recipient and the target refuses the
		// repetition; a 1-to-N expansion of which the target takes one address and refuses another; a destination
		// block with two targets of which the second refuses; refusals anywhere. The transaction goes on after a
		// refused RCPT TO, as an SMTP session does.
		refuseTok := ""
		repetition := false
		if !collision && !manyToOne && r.Chance(34) {
			effsOf := func(p string) []string {
				f := strings.Split(p, ":")
				if f[1] == "" {
					return []string{f[0]}
				}
				return strings.Split(f[1], "+")
			}
			var xs, ys []string
			useY := r.Chance(30)
			taken := map[string]bool{}
			add := func(tok string, k int) {
				toY := useY && r.Chance(60)
				if taken[fmt.Sprint(toY, tok)] {
					return
				}
				taken[fmt.Sprint(toY, tok)] = true
				if toY {
					ys = append(ys, fmt.Sprintf("%s/%d", tok, k))
				} else {
					xs = append(xs, fmt.Sprintf("%s/%d", tok, k))
				}
			}
			repeat := func(k int) {
				j := r.Intn(len(parts) + 1)
				parts = append(parts, "")
				copy(parts[j+1:], parts[j:])
				if j <= k {
					k++
				}
				parts[j] = parts[k]
			}
			// a part with a 1-to-N expansion (one is made if the list has none)
			expansion := func() int {
				k := -1
				for _, i := range c09PPerm(r, len(parts)) {
					if len(effsOf(parts[i])) >= 2 {
						k = i
					}
				}
				if k < 0 {
					k = r.Intn(len(parts))
					old := parts[k]
					nw := strings.Split(old, ":")[0] + ":31+32"
					if r.Chance(30) {
						nw += "+33"
						effs = append(effs, "33")
					}
					effs = append(effs, "31", "32")
					for i := range parts {
						if parts[i] == old {
							parts[i] = nw
						}
					}
				}
				return k
			}
			switch r.Intn(5) {
			case 0, 1:
				k := r.Intn(len(parts))
				cnt := 0
				for _, p := range parts {
					if p == parts[k] {
						cnt++
					}
				}
				if cnt < 2 {
					repeat(k)
				}
				es := effsOf(parts[k])
				add(es[r.Intn(len(es))], 2)
				repetition = true
			case 2, 3:
				k := expansion()
				es := effsOf(parts[k])
				idx := 1 + r.Intn(len(es)-1)
				if r.Chance(20) {
					idx = 0
				}
				add(es[idx], r.Intn(2))
				if r.Chance(30) {
					repeat(k)
				}
			default:
				es := effsOf(parts[r.Intn(len(parts))])
				add(es[r.Intn(len(es))], r.Intn(3))
			}
			if r.Chance(30) {
				es := effsOf(parts[r.Intn(len(parts))])
				add(es[r.Intn(len(es))], r.Intn(3))
			}
			// a rejecting per-address destination block: for a later address of a 1-to-N expansion (the target took
			// the earlier ones), or any effective address; with the modifier in the destination block the block is
			// chosen by the client-supplied address
			if r.Chance(40) {
				var ws []string
				if place != "r" && r.Chance(60) {
					expansion()
				}
				for _, i := range c09PPerm(r, len(parts)) {
					es := effsOf(parts[i])
					if place == "r" {
						if len(ws) == 0 && len(parts) > 1 {
							ws = append(ws, strings.Split(parts[i], ":")[0])
						}
						continue
					}
					if len(es) >= 2 && len(ws) == 0 {
						ws = append(ws, es[1+r.Intn(len(es)-1)])
					}
				}
				if len(ws) == 0 || r.Chance(25) {
					es := effsOf(parts[r.Intn(len(parts))])
					if w := es[r.Intn(len(es))]; len(ws) == 0 || ws[0] != w {
						ws = append(ws, w)
					}
				}
				refuseTok += " W" + strings.Join(ws, ",")
			}
			if len(xs) > 0 {
				refuseTok += " X" + strings.Join(xs, ",")
			}
			if len(ys) > 0 {
				refuseTok += " Y" + strings.Join(ys, ",")
			} else if useY {
				refuseTok += " Y-"
			}
		}
		lookToks := func() []string { // what the outer pipeline chooses destination blocks by
			var l []string
			seen := map[string]bool{}
			for _, p := range parts {
				f := strings.Split(p, ":")
				cand := []string{f[0]}
				if place != "r" && f[1] != "" {
					cand = strings.Split(f[1], "+")
				}
				for _, t := range cand {
					if !seen[t] {
						seen[t] = true
						l = append(l, t)
					}
				}
			}
			return l
		}
		stagePlan := func(tag string) string {
			return tag + c09PStages[r.Intn(len(c09PStages))] + "/" + r.Pick("p", "p", "a", "A")
		}
		switch {
		case collision:
		case refuseTok != "":
			nestTok = refuseTok
			// the body stage fails as a whole: the results are the pipeline's own (one per entry of delivery.recipients)
			if !strings.Contains(refuseTok, " Y") && (r.Chance(35) || (repetition && r.Chance(40))) {
				planTok = " S" + c09PStages[r.Intn(len(c09PStages))] + "/p"
			}
		case manyToOne:
			// every result of the recipients involved has to be generated by the pipeline
			switch x := r.Intn(100); {
			case x < 55:
				planTok = " " + stagePlan("S")
				if r.Chance(35) {
					ip := ""
					if r.Chance(40) {
						ip = " " + stagePlan("I")
					}
					nestTok, effs = c09PGenNest(r, out, parts, place, r.Chance(50))
					nestTok = " " + nestTok + ip
				}
			case x < 80:
				planTok = " S-/" + r.Pick("A", "A", "A", "A", "a")
			default:
				rt := m21Eff
				if place == "r" {
					rt = m21Cli
				}
				seen := map[string]bool{}
				var l []string
				for _, t := range rt {
					if !seen[t] {
						seen[t] = true
						l = append(l, t)
					}
				}
				planTok = " S-/A/" + strings.Join(l, "+")
			}
		default:
			if r.Chance(30) {
				switch x := r.Intn(100); {
				case x < 50:
					planTok = " " + stagePlan("S")
				case x < 75:
					planTok = " S-/" + r.Pick("A", "A", "a")
				default:
					l := lookToks()
					k := 1 + r.Intn(len(l))
					var sub []string
					for _, i := range c09PPerm(r, len(l))[:k] {
						sub = append(sub, l[i])
					}
					planTok = " S-/" + r.Pick("A", "A", "a") + "/" + strings.Join(sub, "+")
				}
			}
			if r.Chance(45) {
				ip := ""
				gen := strings.HasPrefix(planTok, " S") && !strings.HasPrefix(planTok, " S-")
				if r.Chance(40) {
					if r.Chance(60) {
						ip = " " + stagePlan("I")
					} else {
						ip = " I-/" + r.Pick("A", "A", "a")
					}
					gen = true
				}
				nestTok, effs = c09PGenNest(r, out, parts, place, gen && r.Chance(45))
				nestTok = " " + nestTok + ip
			}
		}
		nestTok += planTok
		var fails []string
		for _, e := range effs {
			if r.Chance(30) {
				fails = append(fails, e)
			}
		}
		fs := "-"
		if len(fails) > 0 {
			fs = strings.Join(fails, ",")
		}
		// the metadata already carries the table of a pipeline the message went through earlier
		preTok := ""
		if r.Chance(20) {
			var es []string
			seen := map[string]bool{}
			for _, p := range parts {
				f := strings.Split(p, ":")
				cands := []string{f[0]}
				if f[1] != "" && r.Chance(30) {
					cands = append(cands, strings.Split(f[1], "+")...)
				}
				for _, a := range cands {
					if !seen[a] && r.Chance(70) {
						es = append(es, fmt.Sprintf("%s:%d", a, 60+len(es)))
					}
					seen[a] = true
				}
			}
			if len(es) > 0 {
				preTok = " P" + strings.Join(es, ",")
			}
		}
		c09Pipe(out, fmt.Sprintf("C09 pipe %s %s %s%s%s", strings.Join(parts, ","), fs, place, nestTok, preTok))
	}
}
