package msgpipeline

import (
	"context"
	"errors"
	"fmt"
	"sort"
	"strconv"
	"strings"
	"sync"
	"testing"

	"github.com/emersion/go-message/textproto"
	"github.com/emersion/go-smtp"
	"github.com/foxcpp/maddy/framework/buffer"
	"github.com/foxcpp/maddy/framework/log"
	"github.com/foxcpp/maddy/framework/module"
	"github.com/foxcpp/maddy/internal/modify"
	"github.com/foxcpp/maddy/internal/testutils"
	"github.com/foxcpp/maddy/internal/verifshim/vh"
)

// scripted per-recipient target
type c09PTarget struct {
	fail map[string]bool
}
type c09PDelivery struct {
	t     *c09PTarget
	rcpts []string
}

func (t *c09PTarget) Start(ctx context.Context, m *module.MsgMetadata, from string) (module.Delivery, error) {
	return &c09PDelivery{t: t}, nil
}
func (d *c09PDelivery) AddRcpt(ctx context.Context, to string, _ smtp.RcptOptions) error {
	d.rcpts = append(d.rcpts, to)
	return nil
}
func (d *c09PDelivery) Body(ctx context.Context, h textproto.Header, b buffer.Buffer) error {
	return errors.New("atomic Body must not be used")
}
func (d *c09PDelivery) BodyNonAtomic(ctx context.Context, sc module.StatusCollector, h textproto.Header, b buffer.Buffer) {
	for _, r := range d.rcpts {
		if d.t.fail[r] {
			sc.SetStatus(r, errors.New("mailbox full"))
		} else {
			sc.SetStatus(r, nil)
		}
	}
}
func (d *c09PDelivery) Abort(ctx context.Context) error  { return nil }
func (d *c09PDelivery) Commit(ctx context.Context) error { return nil }

type c09PCol struct {
	mu sync.Mutex
	st []string
}

func (c *c09PCol) SetStatus(r string, err error) {
	c.mu.Lock()
	defer c.mu.Unlock()
	res := "o"
	if err != nil {
		res = "f"
	}
	c.st = append(c.st, r+"="+res)
}

// op: C09 pipe <client>:<eff>+<eff>,...   <failing effective ids e.g. 11,12 or ->   <placement>
// client address c<i>@example.org (i < 10); effective address e<j>@example.org (j >= 10);
// "<i>:" alone = not rewritten. An effective id below 10 is the address of CLIENT recipient j
// (c<j>@example.org): the rewrite result of one client-supplied recipient is itself an address
// the client supplied (and which may be rewritten further: a->b, b->c).
func c09PAddr(id string) string {
	if n, err := strconv.Atoi(id); err == nil && n < 10 {
		return "c" + id + "@example.org"
	}
	return "e" + id + "@example.org"
}

func c09Pipe(out *vh.Out, op string) {
	toks := strings.Fields(op)
	rw := map[string][]string{}
	var clients []string
	effOf := map[string][]string{}
	for _, part := range strings.Split(toks[2], ",") {
		f := strings.Split(part, ":")
		c := "c" + f[0] + "@example.org"
		clients = append(clients, c)
		if f[1] != "" {
			for _, e := range strings.Split(f[1], "+") {
				rw[c] = append(rw[c], c09PAddr(e))
			}
			effOf[c] = rw[c]
		} else {
			effOf[c] = []string{c}
		}
	}
	fail := map[string]bool{}
	if toks[3] != "-" {
		for _, e := range strings.Split(toks[3], ",") {
			fail[c09PAddr(e)] = true
		}
	}
	tgt := &c09PTarget{fail: fail}
	mod := testutils.Modifier{InstName: "verif_rewrite", RcptTo: rw}
	// where the rewriting modifier sits: g = global, s = source block, r = recipient block
	place := "g"
	if len(toks) > 4 {
		place = toks[4]
	}
	grp := modify.Group{Modifiers: []module.Modifier{mod}}
	cfg := msgpipelineCfg{
		perSource: map[string]sourceBlock{},
		defaultSource: sourceBlock{
			perRcpt:     map[string]*rcptBlock{},
			defaultRcpt: &rcptBlock{targets: []module.DeliveryTarget{tgt}},
		},
	}
	switch place {
	case "g":
		cfg.globalModifiers = grp
	case "s":
		cfg.defaultSource.modifiers = grp
	default:
		cfg.defaultSource.defaultRcpt.modifiers = grp
	}
	d := MsgPipeline{msgpipelineCfg: cfg, Log: log.Logger{Out: log.NopOutput{}}}
	out.Stat("pipe.place." + place)
	ctx := context.Background()
	delivery, err := d.Start(ctx, &module.MsgMetadata{ID: "verif"}, "sender@example.com")
	if err != nil {
		out.Corr(op, "start-error")
		return
	}
	for _, c := range clients {
		if err := delivery.AddRcpt(ctx, c, smtp.RcptOptions{}); err != nil {
			out.Corr(op, "addrcpt-error")
			delivery.Abort(ctx)
			return
		}
	}
	col := &c09PCol{}
	hdr := textproto.Header{}
	hdr.Add("Subject", "x")
	delivery.(module.PartialDelivery).BodyNonAtomic(ctx, col, hdr, buffer.MemoryBuffer{Slice: []byte("x\r\n")})
	delivery.Commit(ctx)
	sort.Strings(col.st)
	var canon []string
	for _, s := range col.st {
		canon = append(canon, strings.Replace(strings.Replace(s, "@example.org", "", 1), "=", "=", 1))
	}
	out.Corr(op, strings.Join(canon, ","))

	isClient := map[string]bool{}
	for _, c := range clients {
		isClient[c] = true
	}
	got := map[string]int{}
	gotVals := map[string][]string{}
	for _, s := range col.st {
		kv := strings.SplitN(s, "=", 2)
		k := kv[0]
		got[k]++
		gotVals[k] = append(gotVals[k], kv[1])
		if !isClient[k] {
			out.Violation("C09/pipeline-status-under-effective-address", op, "result reported under "+k+" which the client never supplied; "+strings.Join(col.st, ","))
		}
	}
	// each client-supplied recipient gets one result per effective recipient it was expanded to
	// (collisions of two clients on one effective address are counted per AddRcpt call)
	collide := map[string]int{}
	for _, c := range clients {
		for _, e := range effOf[c] {
			collide[e]++
		}
	}
	anyCollision := false
	for _, n := range collide {
		if n > 1 {
			anyCollision = true
		}
	}
	chained := false
	for _, c := range clients {
		for _, e := range effOf[c] {
			if e != c && isClient[e] {
				chained = true
			}
		}
	}
	if chained {
		out.Stat("pipe.rewritten-to-another-client-address")
	}
	for _, c := range clients {
		want := len(effOf[c])
		if got[c] != want {
			sig := "C09/pipeline-result-count"
			for _, e := range effOf[c] {
				if collide[e] > 1 {
					sig = "C09/pipeline-alias-collision-result-misfiled"
				}
			}
			out.Violation(sig, op, fmt.Sprintf("client recipient %s expanded to %d effective recipients, %d results; %s", c, want, got[c], strings.Join(col.st, ",")))
			continue
		}
		if anyCollision {
			continue // known finding KF-C09-1: results are misfiled between the colliding recipients
		}
		// the results filed under a client-supplied recipient are those of ITS effective recipients
		var wantVals []string
		for _, e := range effOf[c] {
			if fail[e] {
				wantVals = append(wantVals, "f")
			} else {
				wantVals = append(wantVals, "o")
			}
		}
		sort.Strings(wantVals)
		gv := append([]string{}, gotVals[c]...)
		sort.Strings(gv)
		if strings.Join(gv, "") != strings.Join(wantVals, "") {
			out.Violation("C09/pipeline-result-of-another-recipient", op, fmt.Sprintf("client recipient %s: its effective recipients ended %v, results reported under it %v; %s", c, wantVals, gv, strings.Join(col.st, ",")))
		}
	}
	out.Stat("pipe.clients." + strconv.Itoa(len(clients)))
}

func TestVerifC09Pipeline(t *testing.T) {
	out := vh.Open("c09_pipeline")
	defer out.Close()
	if ops := vh.Replay(); ops != nil {
		for _, op := range ops {
			if strings.HasPrefix(op, "C09 pipe") {
				c09Pipe(out, op)
			}
		}
		return
	}
	r := vh.NewRng(vh.Seed() + 929)
	n := vh.N(150)
	for i := 0; i < n; i++ {
		nc := 1 + r.Intn(3)
		next := 10
		var parts []string
		var effs []string
		for c := 1; c <= nc; c++ {
			switch r.Intn(4) {
			case 0:
				parts = append(parts, fmt.Sprintf("%d:", c))
				effs = append(effs, strconv.Itoa(c))
			case 1, 2:
				next++
				parts = append(parts, fmt.Sprintf("%d:%d", c, next))
				effs = append(effs, strconv.Itoa(next))
			default:
				parts = append(parts, fmt.Sprintf("%d:%d+%d", c, next+1, next+2))
				effs = append(effs, strconv.Itoa(next+1), strconv.Itoa(next+2))
				next += 2
			}
		}
		// occasionally make two clients collide on one effective address
		if nc >= 2 && r.Chance(10) {
			parts[0] = "1:77"
			parts[1] = "2:77"
			effs = append(effs, "77")
		} else if r.Chance(35) {
			// the rewrite result of one client-supplied recipient is the address of another
			// client-supplied recipient, which is itself rewritten to something else (a->b, b->c;
			// longer chains; a swap a->b, b->a; inside a 1-to-N expansion). Every effective address
			// stays unique, so this is NOT the collision of KF-C09-1.
			nc = 2 + r.Intn(3)
			parts, effs = nil, nil
			order := make([]int, nc)
			for k := range order {
				order[k] = k + 1
			}
			for k := nc - 1; k > 0; k-- {
				j := r.Intn(k + 1)
				order[k], order[j] = order[j], order[k]
			}
			target := map[int]string{}
			used := map[string]bool{}
			links := 1 + r.Intn(nc-1)
			swap := r.Chance(20)
			if swap {
				target[order[0]] = strconv.Itoa(order[1])
				target[order[1]] = strconv.Itoa(order[0])
			} else {
				// order[0] -> order[1] -> ... -> order[links] -> fresh effective address
				for k := 0; k < links; k++ {
					target[order[k]] = strconv.Itoa(order[k+1])
				}
				next++
				target[order[links]] = strconv.Itoa(next)
			}
			for c := 1; c <= nc; c++ {
				tg, ok := target[c]
				switch {
				case !ok && r.Chance(50):
					next++
					tg = strconv.Itoa(next)
				case !ok:
					tg = ""
				case r.Chance(25):
					next++
					if r.Chance(50) {
						tg = tg + "+" + strconv.Itoa(next)
					} else {
						tg = strconv.Itoa(next) + "+" + tg
					}
				}
				parts = append(parts, fmt.Sprintf("%d:%s", c, tg))
				if tg == "" {
					tg = strconv.Itoa(c)
				}
				for _, e := range strings.Split(tg, "+") {
					if used[e] {
						out.Note("generator: effective address used twice")
					}
					used[e] = true
					effs = append(effs, e)
				}
			}
			// the order in which the client sends them matters (a before b / b before a)
			for k := len(parts) - 1; k > 0; k-- {
				j := r.Intn(k + 1)
				parts[k], parts[j] = parts[j], parts[k]
			}
		}
		var fails []string
		for _, e := range effs {
			if r.Chance(30) {
				fails = append(fails, e)
			}
		}
		fs := "-"
		if len(fails) > 0 {
			fs = strings.Join(fails, ",")
		}
		c09Pipe(out, fmt.Sprintf("C09 pipe %s %s %s", strings.Join(parts, ","), fs, r.Pick("g", "s", "r")))
	}
}
