package msgpipeline

import (
	"fmt"
	"strconv"
	"strings"
	"testing"

	"github.com/foxcpp/maddy/framework/config"
	modconfig "github.com/foxcpp/maddy/framework/config/module"
	"github.com/foxcpp/maddy/framework/exterrors"
	"github.com/foxcpp/maddy/internal/verifshim/vh"
)

var c16BadCodes = []string{"abc", "", "4x0", "45 0"}
var c16BadEnch = []string{"5.7", "5.7.0.1", "", "a.b.c", "5..0"}

// op: C16 reject <p|c> <nargs> <code|x> <a.b.c|x> <msgEmpty> <rendering>
func c16Reject(out *vh.Out, op string) {
	toks := strings.Fields(op)
	variant, nargs := toks[2], 0
	fmt.Sscan(toks[3], &nargs)
	rend, _ := strconv.Atoi(strings.TrimPrefix(toks[7], "r"))
	var args []string
	if nargs >= 1 {
		if toks[4] == "x" {
			args = append(args, c16BadCodes[rend%len(c16BadCodes)])
		} else {
			args = append(args, toks[4])
		}
	}
	if nargs >= 2 {
		if toks[5] == "x" {
			args = append(args, c16BadEnch[rend%len(c16BadEnch)])
		} else {
			args = append(args, toks[5])
		}
	}
	if nargs >= 3 {
		if toks[6] == "1" {
			args = append(args, "")
		} else {
			args = append(args, "Go away")
		}
	}
	for len(args) < nargs {
		args = append(args, "extra")
	}
	var res *exterrors.SMTPError
	var err error
	if variant == "p" {
		res, err = parseRejectDirective(config.Node{Name: "reject", Args: args})
	} else {
		res, err = modconfig.ParseRejectDirective(args)
	}
	if err != nil {
		out.Corr(op, "err")
		out.Stat("reject.err")
		return
	}
	out.Corr(op, fmt.Sprintf("%d %d.%d.%d", res.Code, res.EnhancedCode[0], res.EnhancedCode[1], res.EnhancedCode[2]))
	out.Stat(fmt.Sprintf("reject.ok.nargs%d", nargs))
	cls := res.EnhancedCode[0]
	coherent := cls == res.Code/100 && (cls == 4 || cls == 5)
	if nargs <= 1 && !coherent {
		out.Violation("C16/reject-directive-class-mismatch", op,
			fmt.Sprintf("reject %s => %d %d.%d.%d", strings.Join(args, " "), res.Code, cls, res.EnhancedCode[1], res.EnhancedCode[2]))
	}
}

func TestVerifC16Reject(t *testing.T) {
	out := vh.Open("c16_reject")
	defer out.Close()
	if ops := vh.Replay(); ops != nil {
		for _, op := range ops {
			if strings.HasPrefix(op, "C16 reject") {
				c16Reject(out, op)
			}
		}
		return
	}
	r := vh.NewRng(vh.Seed() + 11)
	n := vh.N(4000) / 4
	codes := []string{"450", "451", "421", "550", "554", "500", "250", "354", "600", "99", "0", "x"}
	enchs := []string{"4.7.0", "5.7.1", "4.0.0", "5.1.1", "2.0.0", "0.7.0", "6.1.1", "x"}
	for i := 0; i < n; i++ {
		nargs := r.Intn(5)
		op := fmt.Sprintf("C16 reject %s %d %s %s %d r%d", r.Pick("p", "c"), nargs,
			codes[r.Intn(len(codes))], enchs[r.Intn(len(enchs))], r.Intn(2), r.Intn(5))
		c16Reject(out, op)
	}
}
