package msgpipeline

import (
	"bufio"
	"context"
	"errors"
	"fmt"
	"math/rand"
	"strings"
	"testing"

	"github.com/emersion/go-message/textproto"
	"github.com/emersion/go-msgauth/authres"
	"github.com/emersion/go-smtp"
	"github.com/foxcpp/go-mockdns"
	"github.com/foxcpp/maddy/framework/buffer"
	"github.com/foxcpp/maddy/framework/exterrors"
	"github.com/foxcpp/maddy/framework/log"
	"github.com/foxcpp/maddy/framework/module"
	"github.com/foxcpp/maddy/internal/testutils"
	"github.com/foxcpp/maddy/internal/verifshim/vdmarc"
	"github.com/foxcpp/maddy/internal/verifshim/vh"
)

func c07SeedWorks() bool {
	rand.Seed(12345)
	a, b := rand.Int31n(100), rand.Int31n(1000)
	rand.Seed(12345)
	return a == rand.Int31n(100) && b == rand.Int31n(1000)
}

// One case through the REAL pipeline: a check reports the SPF/DKIM results (and, for priorQ, another
// check quarantines), dmarc is on, the resolver is scripted; observed: the SMTP error of Body or
// the quarantine flag the target sees.
func c07Reply(out *vh.Out, c *vdmarc.Case, seedOK bool) {
	hdr, err := textproto.ReadHeader(bufio.NewReader(strings.NewReader(c.HdrRaw)))
	if err != nil {
		out.Note("generated header does not parse: " + err.Error())
		return
	}
	var vals []string
	for f := hdr.FieldsByKey("From"); f.Next(); {
		vals = append(vals, f.Value())
	}
	c.Rnd = 0
	if seedOK {
		rand.Seed(c.Seed)
		c.Rnd = int(rand.Int31n(100))
	}
	op := c.Op("reply", vals, out)

	tgt := testutils.Target{}
	checks := []module.Check{&testutils.Check{BodyRes: module.CheckResult{AuthResult: c.AuthResults()}}}
	if c.PriorQ {
		checks = append(checks, &testutils.Check{InstName: "flagger", BodyRes: module.CheckResult{Quarantine: true, Reason: errors.New("flagged by an earlier check")}})
	}
	p := MsgPipeline{
		msgpipelineCfg: msgpipelineCfg{
			globalChecks: checks,
			perSource:    map[string]sourceBlock{},
			defaultSource: sourceBlock{
				perRcpt:     map[string]*rcptBlock{},
				defaultRcpt: &rcptBlock{targets: []module.DeliveryTarget{&tgt}},
			},
			doDMARC: true,
		},
		Log:      log.Logger{Out: log.NopOutput{}},
		Resolver: &mockdns.Resolver{Zones: c.MockZones()},
	}
	ctx := context.Background()
	meta := module.MsgMetadata{DontTraceSender: true, ID: "c07"}
	var bodyErr error
	func() {
		d, err := p.Start(ctx, &meta, "sender@example.org")
		if err != nil {
			bodyErr = fmt.Errorf("start: %w", err)
			return
		}
		if err := d.AddRcpt(ctx, "rcpt@example.net", smtp.RcptOptions{}); err != nil {
			d.Abort(ctx)
			bodyErr = fmt.Errorf("rcpt: %w", err)
			return
		}
		if seedOK {
			rand.Seed(c.Seed)
		}
		if err := d.Body(ctx, hdr, buffer.MemoryBuffer{Slice: []byte("foobar\r\n")}); err != nil {
			d.Abort(ctx)
			bodyErr = err
			return
		}
		if err := d.Commit(ctx); err != nil {
			bodyErr = fmt.Errorf("commit: %w", err)
		}
	}()

	var obs, got, verdict string
	if bodyErr != nil {
		var se *exterrors.SMTPError
		if !errors.As(bodyErr, &se) {
			out.Note("unexpected pipeline error: " + bodyErr.Error())
			return
		}
		obs = fmt.Sprintf("refuse %d %d.%d.%d", se.Code, se.EnhancedCode[0], se.EnhancedCode[1], se.EnhancedCode[2])
		switch {
		case se.Code/100 == 4 && se.EnhancedCode[0] == 4:
			got = "temp"
		case se.Code/100 == 5 && se.EnhancedCode[0] == 5:
			got = "perm"
		default:
			got = "incoherent-refusal"
		}
		if se.CheckName != "dmarc" {
			out.Note("refusal not attributed to dmarc: " + bodyErr.Error())
		}
	} else {
		if len(tgt.Messages) != 1 {
			out.Note(fmt.Sprintf("accepted but target has %d messages", len(tgt.Messages)))
			return
		}
		m := tgt.Messages[0]
		obs = "accept 0"
		got = "accept"
		if m.MsgMeta.Quarantine {
			obs = "accept 1"
			if !c.PriorQ {
				got = "quarantine"
			}
		}
		// the DMARC verdict the pipeline recorded in Authentication-Results
		if f := m.Header.Get("Authentication-Results"); f != "" {
			if _, rs, err := authres.Parse(f); err == nil {
				for _, r := range rs {
					if dr, ok := r.(*authres.DMARCResult); ok {
						verdict = string(dr.Value)
					}
				}
			}
		}
	}
	out.Corr(op, obs)

	// ---- monitor ----
	e := c.Expectation()
	flagged := obs == "accept 1"
	if e.CheckFate {
		bad := ""
		switch e.Fate {
		case "temp", "perm":
			if got != e.Fate {
				bad = got
			}
		case "quarantine":
			if bodyErr != nil || !flagged {
				bad = got
			}
		case "accept":
			switch {
			case bodyErr != nil:
				bad = got
			case flagged && !c.PriorQ:
				bad = "quarantine"
			case !flagged && c.PriorQ:
				out.Violation("C07/earlier-quarantine-lost", op, "message flagged by an earlier check arrives unflagged")
			}
		}
		if bad != "" {
			out.Violation("C07/reply-"+e.Fate+"-expected-got-"+bad, op, fmt.Sprintf("pipeline: %s; expected %s: %s", obs, e.Fate, e.Why))
		}
	}
	if e.CheckPass && verdict != "" && (verdict == "pass") != e.Pass {
		out.Violation("C07/recorded-verdict-wrong", op, fmt.Sprintf("Authentication-Results says dmarc=%s; expected pass=%v: %s", verdict, e.Pass, e.Why))
	}
	out.Stat("reply." + strings.ReplaceAll(obs, " ", "_"))
	if e.CheckFate {
		out.Stat("reply.oracle." + e.Fate)
	}
}

func TestVerifC07Reply(t *testing.T) {
	out := vh.Open("c07_reply")
	defer out.Close()
	seedOK := c07SeedWorks()
	if ops := vh.Replay(); ops != nil {
		for _, op := range ops {
			kind, c, err := vdmarc.ParseOp(op)
			if err != nil || (kind != "verify" && kind != "reply") {
				continue
			}
			c07Reply(out, c, seedOK)
		}
		return
	}
	r := vh.NewRng(vh.Seed() + 73).Fork()
	for _, c := range vdmarc.Corpus() {
		c07Reply(out, c, seedOK)
	}
	n := vh.N(20000) / 4
	for i := 0; i < n; i++ {
		c07Reply(out, vdmarc.Random(r), seedOK)
	}
}
