package msgpipeline

import (
	"bufio"
	"context"
	"errors"
	"fmt"
	"math/rand"
	"net"
	"runtime"
	"strings"
	"sync"
	"testing"
	"time"

	"github.com/emersion/go-message/textproto"
	"github.com/emersion/go-msgauth/authres"
	"github.com/emersion/go-smtp"
	"github.com/foxcpp/go-mockdns"
	"github.com/foxcpp/maddy/framework/buffer"
	"github.com/foxcpp/maddy/framework/config"
	modconfig "github.com/foxcpp/maddy/framework/config/module"
	"github.com/foxcpp/maddy/framework/exterrors"
	"github.com/foxcpp/maddy/framework/log"
	"github.com/foxcpp/maddy/framework/module"
	"github.com/foxcpp/maddy/internal/testutils"
	"github.com/foxcpp/maddy/internal/verifshim/vdmarc"
	"github.com/foxcpp/maddy/internal/verifshim/vh"
)

func c07SeedWorks() bool {
	rand.Seed(12345)
	a, b := rand.Int31n(100), rand.Int31n(1000)
	rand.Seed(12345)
	return a == rand.Int31n(100) && b == rand.Int31n(1000)
}

// ---- virtual time for the asynchronous policy lookup -------------------------------------------
//
// Stages: 0 = the moment the lookup is started, k = 1..3 = the body checks of block k (global,
// source, recipient) are running, 4 = all body checks are done (Apply is waiting).  c07Clock
// holds one gate per stage; the body check of block k opens the gates up to k when it is entered,
// the gates of stage 4 are opened a moment after the last block's check was entered (or, without
// any check, after Body was called).  Nothing the harness asserts depends on how long that moment
// is: the answer published in the DNS is the same whenever it arrives.

const c07Stages = 5

type c07Clock struct {
	mu    sync.Mutex
	gates [c07Stages]chan struct{}
	open  int // gates [0, open) are open
}

func newC07Clock() *c07Clock {
	k := &c07Clock{}
	for i := range k.gates {
		k.gates[i] = make(chan struct{})
	}
	k.advance(0)
	return k
}

// advance opens the gates of the stages up to and including stage.
func (k *c07Clock) advance(stage int) {
	k.mu.Lock()
	defer k.mu.Unlock()
	for k.open <= stage && k.open < c07Stages {
		close(k.gates[k.open])
		k.open++
	}
}

func (k *c07Clock) late() {
	go func() {
		time.Sleep(100 * time.Microsecond)
		k.advance(c07Stages - 1)
	}()
}

// c07Resolver answers like the scripted mockdns resolver of the case, but only when the stage of
// the asked name has come, and - as net.Resolver does - gives up with the context's error when
// the context of the lookup is cancelled before the answer has arrived.
type c07Resolver struct {
	*mockdns.Resolver
	clock *c07Clock
	c     *vdmarc.Case

	mu      sync.Mutex
	aborted int
	started int
	pending map[int]int // lookups in flight -> their stage
}

// settle lets the lookups whose answers are due by `stage` come to their end (and a follow-up
// query of the same lookup goroutine start): "the answer arrives while the checks of block k run"
// then means that it has arrived when those checks return.  Pacing only - nothing is asserted about it.
func (r *c07Resolver) settle(stage int) {
	last, stable := -1, 0
	for i := 0; i < 500 && stable < 2; i++ {
		for t := time.Now().Add(15 * time.Microsecond); time.Now().Before(t); {
			runtime.Gosched()
		}
		r.mu.Lock()
		busy := false
		for _, s := range r.pending {
			if s <= stage {
				busy = true
			}
		}
		st := r.started
		r.mu.Unlock()
		if busy || st != last {
			last, stable = st, 0
			continue
		}
		stable++
	}
}

func (r *c07Resolver) LookupTXT(ctx context.Context, name string) ([]string, error) {
	n := strings.TrimSuffix(strings.TrimPrefix(strings.ToLower(name), "_dmarc."), ".")
	stage := r.c.ArriveAt(n)
	if stage < 0 {
		stage = 0
	}
	if stage >= c07Stages {
		stage = c07Stages - 1
	}
	r.mu.Lock()
	r.started++
	id := r.started
	if r.pending == nil {
		r.pending = map[int]int{}
	}
	r.pending[id] = stage
	r.mu.Unlock()
	defer func() {
		r.mu.Lock()
		delete(r.pending, id)
		r.mu.Unlock()
	}()
	select {
	case <-r.clock.gates[stage]:
	case <-ctx.Done():
	}
	// a context cancelled before the answer arrived: no answer
	if err := ctx.Err(); err != nil {
		r.mu.Lock()
		r.aborted++
		r.mu.Unlock()
		if errors.Is(err, context.DeadlineExceeded) {
			return nil, &net.DNSError{Err: "i/o timeout", Name: name, IsTimeout: true}
		}
		return nil, &net.DNSError{Err: "operation was canceled", Name: name}
	}
	return r.Resolver.LookupTXT(ctx, name)
}

// c07Check is a check whose body stage reports a fixed result and tells the clock that its block
// has been reached.
type c07Check struct {
	name  string
	res   module.CheckResult
	stage byte // the stage at which res is reported: c, s, r; anything else: the body stage
	enter func()
}

func (c *c07Check) at(stage byte) module.CheckResult {
	if c.stage == stage {
		return c.res
	}
	return module.CheckResult{}
}

// c07Reasons: what the stock checks attach to a verdict they do not act on themselves.
var c07Reasons = []error{
	&exterrors.SMTPError{Code: 550, EnhancedCode: exterrors.EnhancedCode{5, 7, 23}, Message: "SPF authentication failed", CheckName: "spf", Err: errors.New("matched -all")},
	errors.New("softfail"),
	&exterrors.SMTPError{Code: 451, EnhancedCode: exterrors.EnhancedCode{4, 7, 24}, Message: "SPF authentication failed with a temporary error", CheckName: "spf", Err: errors.New("lookup timed out")},
	&exterrors.SMTPError{Code: 550, EnhancedCode: exterrors.EnhancedCode{5, 7, 20}, Message: "No passing DKIM signatures", CheckName: "dkim"},
	&exterrors.SMTPError{Code: 550, EnhancedCode: exterrors.EnhancedCode{5, 7, 23}, Message: "No SPF policy", CheckName: "spf"},
}

// c07Wrapped is the CheckResult by which the check of block k hands over its share of the
// authentication results (vdmarc.Case.Wraps).
func c07Wrapped(c *vdmarc.Case, k int, results []authres.Result) (module.CheckResult, byte) {
	w := c.WrapOf(k)
	res := module.CheckResult{AuthResult: results}
	if vdmarc.WrapHas(w, 'i') || vdmarc.WrapHas(w, 'q') {
		res.Reason = c07Reasons[(k+len(results)+len(c.Res))%len(c07Reasons)]
	}
	if vdmarc.WrapHas(w, 'h') {
		res.Header = textproto.Header{}
		res.Header.Add("Received-SPF", "fail (example.net: sender is not authorized) client-ip=192.0.2.1; helo=mx.example.net;")
		if (k+len(results))%2 == 1 {
			res.Header.Add("X-Check-Verdict", "dmarc=pass header.from=example.com")
		}
	}
	// the action is applied the way the stock checks do it: with the real FailAction.Apply
	// (action ignore: a reason and no flag; action quarantine: the flag)
	res = modconfig.FailAction{Quarantine: vdmarc.WrapHas(w, 'q')}.Apply(res)
	return res, vdmarc.WrapStage(w)
}

func (c *c07Check) Init(*config.Map) error { return nil }
func (c *c07Check) Name() string           { return "c07_check" }
func (c *c07Check) InstanceName() string   { return c.name }
func (c *c07Check) CheckStateForMsg(ctx context.Context, msgMeta *module.MsgMetadata) (module.CheckState, error) {
	return c, nil
}
func (c *c07Check) CheckConnection(ctx context.Context) module.CheckResult { return c.at('c') }
func (c *c07Check) CheckSender(ctx context.Context, from string) module.CheckResult {
	return c.at('s')
}
func (c *c07Check) CheckRcpt(ctx context.Context, to string) module.CheckResult {
	return c.at('r')
}
func (c *c07Check) CheckBody(ctx context.Context, header textproto.Header, body buffer.Buffer) module.CheckResult {
	if c.enter != nil {
		c.enter()
	}
	if c.stage == 'c' || c.stage == 's' || c.stage == 'r' {
		return module.CheckResult{}
	}
	return c.res
}
func (c *c07Check) Close() error { return nil }

type c07Status struct {
	mu  sync.Mutex
	err error
}

func (s *c07Status) SetStatus(rcptTo string, err error) {
	s.mu.Lock()
	defer s.mu.Unlock()
	if err != nil && s.err == nil {
		s.err = err
	}
}

// c07Routed puts the routing blocks of the case (vdmarc.Case.Hops) in front of the storage target:
// nested pipelines without DMARC of their own, the way `deliver_to &local_routing` is set up.  They
// share the message's metadata with the pipeline that evaluates DMARC.
func c07Routed(c *vdmarc.Case, tgt module.DeliveryTarget) module.DeliveryTarget {
	final := tgt
	for i := len(c.Hops) - 1; i >= 0; i-- {
		var global, rcpt []module.Check
		switch c.Hops[i] {
		case "c":
			global = []module.Check{&c07Check{name: fmt.Sprintf("hop%d", i)}}
		case "m":
			global = []module.Check{&c07Check{name: fmt.Sprintf("hop%d", i)}}
			rcpt = []module.Check{&c07Check{name: fmt.Sprintf("hop%dr", i), stage: 'r'}}
		case "f":
			global = []module.Check{&c07Check{name: fmt.Sprintf("hop%dflag", i),
				res: modconfig.FailAction{Quarantine: true}.Apply(module.CheckResult{Reason: errors.New("flagged by a check of the routing block")})}}
		}
		final = &MsgPipeline{
			msgpipelineCfg: msgpipelineCfg{
				globalChecks: global,
				perSource:    map[string]sourceBlock{},
				defaultSource: sourceBlock{
					perRcpt:     map[string]*rcptBlock{},
					defaultRcpt: &rcptBlock{checks: rcpt, targets: []module.DeliveryTarget{final}},
				},
			},
			Log:      log.Logger{Out: log.NopOutput{}},
			Resolver: &mockdns.Resolver{},
		}
	}
	return final
}

// c07TimedPipeline builds the pipeline of a case with a timing: up to three check blocks, each with
// one check reporting its share of the authentication results, the quarantining check in block
// QBlock, the resolver on virtual time.
func c07TimedPipeline(c *vdmarc.Case, tgt module.DeliveryTarget) (*MsgPipeline, *c07Clock, *c07Resolver, bool) {
	all := c.AuthResults()
	clock := newC07Clock()
	res := &c07Resolver{Resolver: &mockdns.Resolver{Zones: c.MockZones()}, clock: clock, c: c}
	blocks := [3][]module.Check{}
	last, first, pos := -1, -1, 0
	for k := 0; k < 3 && k < len(c.Blocks); k++ {
		if c.Blocks[k] < 0 {
			continue
		}
		if first < 0 {
			first = k
		}
		last = k
	}
	for k := 0; k < 3 && k < len(c.Blocks); k++ {
		n := c.Blocks[k]
		if n < 0 {
			continue
		}
		if pos+n > len(all) {
			return nil, nil, nil, false
		}
		k := k
		chk := &c07Check{name: fmt.Sprintf("block%d", k)}
		chk.res, chk.stage = c07Wrapped(c, k, all[pos:pos+n])
		chk.enter = func() {
			clock.advance(k + 1)
			res.settle(k + 1)
			if k == last {
				clock.late()
			}
		}
		pos += n
		blocks[k] = append(blocks[k], chk)
		if vdmarc.WrapHas(c.WrapOf(k), 'd') {
			// the same check object is referenced by the later blocks too
			for j := k + 1; j < 3; j++ {
				blocks[j] = append(blocks[j], chk)
			}
		}
	}
	if pos != len(all) || first < 0 {
		return nil, nil, nil, false
	}
	if c.PriorQ {
		qb := c.QBlock
		if qb < 0 || qb > 2 || len(blocks[qb]) == 0 {
			qb = first
		}
		blocks[qb] = append(blocks[qb], &c07Check{name: "flagger", res: module.CheckResult{Quarantine: true, Reason: errors.New("flagged by an earlier check")}})
	}
	p := &MsgPipeline{
		msgpipelineCfg: msgpipelineCfg{
			globalChecks: blocks[0],
			perSource:    map[string]sourceBlock{},
			defaultSource: sourceBlock{
				checks:      blocks[1],
				perRcpt:     map[string]*rcptBlock{},
				defaultRcpt: &rcptBlock{checks: blocks[2], targets: []module.DeliveryTarget{tgt}},
			},
			doDMARC: true,
		},
		Log:      log.Logger{Out: log.NopOutput{}},
		Resolver: res,
	}
	return p, clock, res, true
}

// One case through the REAL pipeline: a check reports the SPF/DKIM results (and, for priorQ, another
// check quarantines), dmarc is on, the resolver is scripted; observed: the SMTP error of Body or
// the quarantine flag the target sees.
func c07Reply(out *vh.Out, c *vdmarc.Case, seedOK bool) {
	hdr, err := textproto.ReadHeader(bufio.NewReader(strings.NewReader(c.HdrRaw)))
	if err != nil {
		out.Note("generated header does not parse: " + err.Error())
		return
	}
	var vals []string
	for f := hdr.FieldsByKey("From"); f.Next(); {
		vals = append(vals, f.Value())
	}
	c.Rnd = 0
	if seedOK {
		rand.Seed(c.Seed)
		c.Rnd = int(rand.Int31n(100))
	}
	op := c.Op("reply", vals, out)

	tgt := testutils.Target{}
	var p *MsgPipeline
	var clock *c07Clock
	var timedRes *c07Resolver
	if c.Blocks != nil {
		var ok bool
		p, clock, timedRes, ok = c07TimedPipeline(c, c07Routed(c, &tgt))
		if !ok {
			out.Note("ill-formed timing in op: " + op)
			return
		}
		// whatever happens, every answer arrives in the end
		defer clock.advance(c07Stages - 1)
	} else {
		var again []module.Check
		checks := []module.Check{&testutils.Check{BodyRes: module.CheckResult{AuthResult: c.AuthResults()}}}
		if c.Wraps != nil {
			chk := &c07Check{name: "block0"}
			chk.res, chk.stage = c07Wrapped(c, 0, c.AuthResults())
			checks = []module.Check{chk}
			if vdmarc.WrapHas(c.WrapOf(0), 'd') {
				again = []module.Check{chk}
			}
		}
		if c.PriorQ {
			checks = append(checks, &testutils.Check{InstName: "flagger", BodyRes: module.CheckResult{Quarantine: true, Reason: errors.New("flagged by an earlier check")}})
		}
		p = &MsgPipeline{
			msgpipelineCfg: msgpipelineCfg{
				globalChecks: checks,
				perSource:    map[string]sourceBlock{},
				defaultSource: sourceBlock{
					checks:      again,
					perRcpt:     map[string]*rcptBlock{},
					defaultRcpt: &rcptBlock{checks: again, targets: []module.DeliveryTarget{c07Routed(c, &tgt)}},
				},
				doDMARC: true,
			},
			Log:      log.Logger{Out: log.NopOutput{}},
			Resolver: &mockdns.Resolver{Zones: c.MockZones()},
		}
	}
	ctx := context.Background()
	meta := module.MsgMetadata{DontTraceSender: true, ID: "c07"}
	var bodyErr error
	func() {
		d, err := p.Start(ctx, &meta, "sender@example.org")
		if err != nil {
			bodyErr = fmt.Errorf("start: %w", err)
			return
		}
		if err := d.AddRcpt(ctx, "rcpt@example.net", smtp.RcptOptions{}); err != nil {
			d.Abort(ctx)
			bodyErr = fmt.Errorf("rcpt: %w", err)
			return
		}
		if seedOK {
			rand.Seed(c.Seed)
		}
		body := buffer.MemoryBuffer{Slice: []byte("foobar\r\n")}
		if c.NonAtomic {
			// the LMTP way: per-recipient statuses
			pd, ok := d.(module.PartialDelivery)
			if !ok {
				d.Abort(ctx)
				bodyErr = errors.New("pipeline delivery without BodyNonAtomic")
				return
			}
			sc := &c07Status{}
			pd.BodyNonAtomic(ctx, sc, hdr, body)
			if sc.err != nil {
				d.Abort(ctx)
				bodyErr = sc.err
				return
			}
		} else if err := d.Body(ctx, hdr, body); err != nil {
			d.Abort(ctx)
			bodyErr = err
			return
		}
		if err := d.Commit(ctx); err != nil {
			bodyErr = fmt.Errorf("commit: %w", err)
		}
	}()

	var obs, got, verdict string
	recSPF, recDKIM, recParsed := 0, 0, false
	if bodyErr != nil {
		var se *exterrors.SMTPError
		if !errors.As(bodyErr, &se) {
			out.Note("unexpected pipeline error: " + bodyErr.Error())
			return
		}
		obs = fmt.Sprintf("refuse %d %d.%d.%d", se.Code, se.EnhancedCode[0], se.EnhancedCode[1], se.EnhancedCode[2])
		switch {
		case se.Code/100 == 4 && se.EnhancedCode[0] == 4:
			got = "temp"
		case se.Code/100 == 5 && se.EnhancedCode[0] == 5:
			got = "perm"
		default:
			got = "incoherent-refusal"
		}
		if se.CheckName != "dmarc" {
			out.Note("refusal not attributed to dmarc: " + bodyErr.Error())
		}
	} else {
		if len(tgt.Messages) != 1 {
			out.Note(fmt.Sprintf("accepted but target has %d messages", len(tgt.Messages)))
			return
		}
		m := tgt.Messages[0]
		obs = "accept 0"
		got = "accept"
		if m.MsgMeta.Quarantine {
			obs = "accept 1"
			if !c.PriorQ {
				got = "quarantine"
			}
		}
		// the DMARC verdict the pipeline recorded in Authentication-Results
		if f := m.Header.Get("Authentication-Results"); f != "" {
			if _, rs, err := authres.Parse(f); err == nil {
				for _, r := range rs {
					switch dr := r.(type) {
					case *authres.DMARCResult:
						verdict = string(dr.Value)
					case *authres.SPFResult:
						recSPF++
					case *authres.DKIMResult:
						recDKIM++
					}
				}
				recParsed = true
			} else {
				out.Stat("reply.recorded-results-unparsable")
			}
		}
	}
	out.Corr(op, obs)

	// ---- monitor ----
	e := c.Expectation()
	flagged := obs == "accept 1"
	if e.CheckFate {
		bad := ""
		switch e.Fate {
		case "temp", "perm":
			if got != e.Fate {
				bad = got
			}
		case "quarantine":
			if bodyErr != nil || !flagged {
				bad = got
			}
		case "accept":
			switch {
			case bodyErr != nil:
				bad = got
			case flagged && !c.EarlierQ():
				bad = "quarantine"
			case !flagged && c.EarlierQ():
				out.Violation("C07/earlier-quarantine-lost", op, "message flagged by an earlier check arrives unflagged")
			}
		}
		if bad == "accept" && e.Fate == "quarantine" && len(c.Hops) > 0 {
			// accepted, evaluated, but the storage behind the routing blocks sees no flag
			out.Violation("C07/quarantine-flag-lost-behind-routing-block", op, fmt.Sprintf("pipeline: %s after %d routing block(s); expected %s: %s", obs, len(c.Hops), e.Fate, e.Why))
			bad = ""
		}
		if bad != "" {
			out.Violation("C07/reply-"+e.Fate+"-expected-got-"+bad, op, fmt.Sprintf("pipeline: %s; expected %s: %s", obs, e.Fate, e.Why))
		}
	}
	if e.CheckPass && verdict != "" && (verdict == "pass") != e.Pass {
		out.Violation("C07/recorded-verdict-wrong", op, fmt.Sprintf("Authentication-Results says dmarc=%s; expected pass=%v: %s", verdict, e.Pass, e.Why))
	}
	if recParsed {
		// every SPF/DKIM verdict a check reported is in the trace header next to the DMARC verdict
		nSPF, nDKIM := 0, 0
		for _, r := range c.Res {
			switch {
			case r.Kind == 's', r.Kind == 'o' && r.Other == 6: // 6: a generic result of method "spf" reads back as an SPF result
				nSPF++
			case r.Kind == 'd', r.Kind == 'o' && r.Other == 5:
				nDKIM++
			}
		}
		if recSPF != nSPF || recDKIM != nDKIM {
			out.Stat("reply.recorded-results-differ-from-reported")
		}
	}
	out.Stat("reply." + strings.ReplaceAll(obs, " ", "_"))
	if c.Wraps != nil {
		for k, w := range c.Wraps {
			if w == "-" || (c.Blocks != nil && c.Blocks[k] < 0) {
				continue
			}
			out.Stat("reply.check.stage." + string(vdmarc.WrapStage(w)))
			switch {
			case vdmarc.WrapHas(w, 'i'):
				out.Stat("reply.check.reason-without-action")
			case vdmarc.WrapHas(w, 'q'):
				out.Stat("reply.check.own-action-quarantine")
			default:
				out.Stat("reply.check.bare")
			}
			if vdmarc.WrapHas(w, 'h') {
				out.Stat("reply.check.adds-header-fields")
			}
			if vdmarc.WrapHas(w, 'd') {
				out.Stat("reply.check.referenced-by-later-blocks-too")
			}
		}
	}
	if c.Hops != nil {
		out.Stat(fmt.Sprintf("reply.routing-blocks.%d", len(c.Hops)))
		for _, h := range c.Hops {
			out.Stat("reply.routing-block." + h)
		}
		if e.CheckFate {
			out.Stat("reply.routing-blocks.oracle." + e.Fate)
		}
	} else {
		out.Stat("reply.routing-blocks.0")
	}
	if c.Blocks != nil {
		nb, maxStage := 0, 0
		for _, n := range c.Blocks {
			if n >= 0 {
				nb++
			}
		}
		for _, n := range c.Names {
			if s := c.ArriveAt(n); s > maxStage {
				maxStage = s
			}
		}
		out.Stat(fmt.Sprintf("reply.timed.blocks.%d", nb))
		if c.NonAtomic {
			out.Stat("reply.timed.body-non-atomic")
		}
		out.Stat(fmt.Sprintf("reply.timed.last-answer-at-stage.%d", maxStage))
		timedRes.mu.Lock()
		if timedRes.aborted > 0 {
			out.Stat("reply.timed.lookup-aborted-by-context")
		}
		timedRes.mu.Unlock()
	}
	if e.CheckFate {
		out.Stat("reply.oracle." + e.Fate)
	}
}

func TestVerifC07Reply(t *testing.T) {
	out := vh.Open("c07_reply")
	defer out.Close()
	seedOK := c07SeedWorks()
	if ops := vh.Replay(); ops != nil {
		for _, op := range ops {
			kind, c, err := vdmarc.ParseOp(op)
			if err != nil || (kind != "verify" && kind != "reply") {
				continue
			}
			c07Reply(out, c, seedOK)
		}
		return
	}
	r := vh.NewRng(vh.Seed() + 73).Fork()
	for _, c := range vdmarc.Corpus() {
		c07Reply(out, c, seedOK)
	}
	for _, c := range vdmarc.TimedCorpus() {
		c07Reply(out, c, seedOK)
	}
	for _, c := range vdmarc.WrapCorpus() {
		c07Reply(out, c, seedOK)
	}
	for _, c := range vdmarc.HopCorpus() {
		c07Reply(out, c, seedOK)
	}
	n := vh.N(20000) / 4
	for i := 0; i < n; i++ {
		c := vdmarc.Random(r)
		if i%2 == 1 {
			// several check blocks, the resolver on virtual time
			vdmarc.AddTiming(r, c)
		}
		if i%5 != 0 {
			// the checks hand their results over the way the stock checks do: at other stages, with a
			// reason and no action of their own, with an action of their own, with header fields
			vdmarc.AddWraps(r, c)
		}
		if i%3 != 2 {
			// the stock shape: the storage sits behind routing blocks (nested pipelines)
			vdmarc.AddHops(r, c)
		}
		c07Reply(out, c, seedOK)
	}
}
