package main

import (
	"bytes"
	"fmt"
	"go/ast"
	"go/parser"
	"go/printer"
	"go/token"
	"os"
	"path/filepath"
	"sort"
	"strconv"
	"strings"
)

type lit struct {
	File string
	Line int
	// kind: "const" (Code and EnhancedCode are literals), "helper" (SMTPCode/SMTPEnchCode pair),
	// "notset" (Code literal, EnhancedCode absent or EnhancedCodeNotSet), "dynamic" (anything else)
	Kind      string
	Code      int
	T, P      int // helper: temporary / permanent basic code
	Cls, S, D int
	CodeExpr  string
	EnchExpr  string
	Func      string // enclosing function ("" = package level)
	Defs      string // dynamic, codes given by plain identifiers: how the function computes them
}

// fieldWrite is an assignment to the Code / EnhancedCode field of some value (an error object
// adjusted after it was built): "lhs op rhs".
type fieldWrite struct {
	File, Func, Stmt string
}

// rootIdent strips index expressions: enchCode[0] -> enchCode.
func rootIdent(e ast.Expr) (string, bool) {
	for {
		switch t := e.(type) {
		case *ast.IndexExpr:
			e = t.X
		case *ast.ParenExpr:
			e = t.X
		case *ast.Ident:
			return t.Name, true
		default:
			return "", false
		}
	}
}

// codeFieldSel: e is X.Code, X.EnhancedCode or an element of the latter.
func codeFieldSel(e ast.Expr) bool {
	for {
		switch t := e.(type) {
		case *ast.IndexExpr:
			e = t.X
		case *ast.ParenExpr:
			e = t.X
		case *ast.SelectorExpr:
			return t.Sel.Name == "Code" || t.Sel.Name == "EnhancedCode"
		default:
			return false
		}
	}
}

// defsOf lists, in source order, how the identifiers `names` get their values inside fn:
// parameters, var declarations, assignments (also to elements).
func defsOf(fset *token.FileSet, fn *ast.FuncDecl, names map[string]bool) string {
	var out []string
	if fn.Type.Params != nil {
		for _, f := range fn.Type.Params.List {
			for _, n := range f.Names {
				if names[n.Name] {
					out = append(out, "param "+n.Name+" "+exprStr(fset, f.Type))
				}
			}
		}
	}
	ast.Inspect(fn.Body, func(n ast.Node) bool {
		switch st := n.(type) {
		case *ast.AssignStmt:
			hit := false
			for _, l := range st.Lhs {
				if id, ok := rootIdent(l); ok && names[id] {
					hit = true
				}
			}
			if hit {
				var ls, rs []string
				for _, l := range st.Lhs {
					ls = append(ls, exprStr(fset, l))
				}
				for _, r := range st.Rhs {
					rs = append(rs, exprStr(fset, r))
				}
				out = append(out, strings.Join(ls, ", ")+" "+st.Tok.String()+" "+strings.Join(rs, ", "))
			}
		case *ast.ValueSpec:
			for i, id := range st.Names {
				if names[id.Name] {
					v := ""
					if i < len(st.Values) {
						v = " = " + exprStr(fset, st.Values[i])
					}
					out = append(out, "var "+id.Name+v)
				}
			}
		case *ast.IncDecStmt:
			if id, ok := rootIdent(st.X); ok && names[id] {
				out = append(out, exprStr(fset, st.X)+st.Tok.String())
			}
		}
		return true
	})
	return strings.Join(out, "; ")
}

func exprStr(fset *token.FileSet, e ast.Expr) string {
	if e == nil {
		return ""
	}
	var b bytes.Buffer
	printer.Fprint(&b, fset, e)
	return strings.Join(strings.Fields(b.String()), " ")
}

func intLit(e ast.Expr) (int, bool) {
	bl, ok := e.(*ast.BasicLit)
	if !ok || bl.Kind != token.INT {
		return 0, false
	}
	v, err := strconv.Atoi(bl.Value)
	return v, err == nil
}

func tripleLit(e ast.Expr) (a, b, c int, ok bool) {
	cl, isCl := e.(*ast.CompositeLit)
	if !isCl || len(cl.Elts) != 3 {
		return
	}
	var v [3]int
	for i, el := range cl.Elts {
		x, k := intLit(el)
		if !k {
			return
		}
		v[i] = x
	}
	return v[0], v[1], v[2], true
}

func calleeName(e ast.Expr) string {
	ce, ok := e.(*ast.CallExpr)
	if !ok {
		return ""
	}
	switch f := ce.Fun.(type) {
	case *ast.SelectorExpr:
		return f.Sel.Name
	case *ast.Ident:
		return f.Name
	}
	return ""
}

func isSMTPErrorType(e ast.Expr) bool {
	switch t := e.(type) {
	case *ast.SelectorExpr:
		return t.Sel.Name == "SMTPError"
	case *ast.Ident:
		return t.Name == "SMTPError"
	}
	return false
}

func init() { commands["smtplits"] = smtpLits }

func smtpLits(repo, out string) error {
	fset := token.NewFileSet()
	var lits []lit
	var writes []fieldWrite
	err := filepath.Walk(repo, func(path string, info os.FileInfo, err error) error {
		if err != nil {
			return err
		}
		rel, _ := filepath.Rel(repo, path)
		if info.IsDir() {
			if rel == "tests" || rel == ".git" || rel == "docs" || rel == "dist" || rel == "contrib" {
				return filepath.SkipDir
			}
			return nil
		}
		if !strings.HasSuffix(path, ".go") || strings.HasSuffix(path, "_test.go") || strings.HasPrefix(filepath.Base(path), "zz_verif") {
			return nil
		}
		if strings.Contains(rel, "testutils") {
			return nil
		}
		f, perr := parser.ParseFile(fset, path, nil, 0)
		if perr != nil {
			return perr
		}
		for _, decl := range f.Decls {
			fn, _ := decl.(*ast.FuncDecl)
			fname := ""
			if fn != nil {
				fname = fn.Name.Name
			}
			ast.Inspect(decl, func(n ast.Node) bool {
				if as, ok := n.(*ast.AssignStmt); ok {
					for _, lh := range as.Lhs {
						if codeFieldSel(lh) {
							var ls, rs []string
							for _, x := range as.Lhs {
								ls = append(ls, exprStr(fset, x))
							}
							for _, x := range as.Rhs {
								rs = append(rs, exprStr(fset, x))
							}
							writes = append(writes, fieldWrite{rel, fname, strings.Join(ls, ", ") + " " + as.Tok.String() + " " + strings.Join(rs, ", ")})
							break
						}
					}
					return true
				}
				cl, ok := n.(*ast.CompositeLit)
				if !ok || cl.Type == nil || !isSMTPErrorType(cl.Type) {
					return true
				}
				var codeE, enchE ast.Expr
				for _, el := range cl.Elts {
					kv, ok := el.(*ast.KeyValueExpr)
					if !ok {
						continue
					}
					k, _ := kv.Key.(*ast.Ident)
					if k == nil {
						continue
					}
					switch k.Name {
					case "Code":
						codeE = kv.Value
					case "EnhancedCode":
						enchE = kv.Value
					}
				}
				l := lit{File: rel, Line: fset.Position(cl.Pos()).Line, CodeExpr: exprStr(fset, codeE), EnchExpr: exprStr(fset, enchE), Func: fname}
				code, codeConst := 0, false
				if codeE != nil {
					code, codeConst = intLit(codeE)
				}
				a, b, c, enchConst := 0, 0, 0, false
				if enchE != nil {
					a, b, c, enchConst = tripleLit(enchE)
				}
				enchNotSet := enchE == nil || strings.HasSuffix(l.EnchExpr, "EnhancedCodeNotSet")
				switch {
				case codeConst && enchConst:
					l.Kind, l.Code, l.Cls, l.S, l.D = "const", code, a, b, c
				case codeConst && enchNotSet:
					l.Kind, l.Code = "notset", code
				case calleeName(codeE) == "SMTPCode" && calleeName(enchE) == "SMTPEnchCode":
					ca := codeE.(*ast.CallExpr).Args
					ea := enchE.(*ast.CallExpr).Args
					t, ok1 := 0, false
					p, ok2 := 0, false
					if len(ca) == 3 {
						t, ok1 = intLit(ca[1])
						p, ok2 = intLit(ca[2])
					}
					x, y, z, ok3 := 0, 0, 0, false
					if len(ea) == 2 {
						x, y, z, ok3 = tripleLit(ea[1])
					}
					sameErr := len(ca) == 3 && len(ea) == 2 && exprStr(fset, ca[0]) == exprStr(fset, ea[0])
					if ok1 && ok2 && ok3 && sameErr {
						l.Kind, l.T, l.P, l.Cls, l.S, l.D = "helper", t, p, x, y, z
					} else {
						l.Kind = "dynamic"
					}
				default:
					l.Kind = "dynamic"
				}
				if l.Kind == "dynamic" && fn != nil && fn.Body != nil {
					names := map[string]bool{}
					for _, e := range []ast.Expr{codeE, enchE} {
						if id, ok := e.(*ast.Ident); ok {
							names[id.Name] = true
						}
					}
					if len(names) != 0 {
						l.Defs = defsOf(fset, fn, names)
					}
				}
				lits = append(lits, l)
				return true
			})
		}
		return nil
	})
	if err != nil {
		return err
	}
	sort.Slice(lits, func(i, j int) bool {
		if lits[i].File != lits[j].File {
			return lits[i].File < lits[j].File
		}
		return lits[i].Line < lits[j].Line
	})
	var b strings.Builder
	b.WriteString("-- GENERATED by /verif/tools/extract smtplits from the current /repo working tree. Do not edit.\n")
	b.WriteString("namespace MaddyVerif.Generated.SmtpLits\n\n")
	b.WriteString("/-- (file, line, code, cls, subj, det): literals whose Code and EnhancedCode are constants -/\n")
	b.WriteString("def constLits : List (String × Nat × Nat × Nat × Nat × Nat) := [\n")
	first := true
	for _, l := range lits {
		if l.Kind != "const" {
			continue
		}
		if !first {
			b.WriteString(",\n")
		}
		first = false
		fmt.Fprintf(&b, "  (%q, %d, %d, %d, %d, %d)", l.File, l.Line, l.Code, l.Cls, l.S, l.D)
	}
	b.WriteString("\n]\n\n")
	b.WriteString("/-- (file, line, code): Code constant, EnhancedCode absent/NotSet (go-smtp derives class.0.0) -/\n")
	b.WriteString("def notSetLits : List (String × Nat × Nat) := [\n")
	first = true
	for _, l := range lits {
		if l.Kind != "notset" {
			continue
		}
		if !first {
			b.WriteString(",\n")
		}
		first = false
		fmt.Fprintf(&b, "  (%q, %d, %d)", l.File, l.Line, l.Code)
	}
	b.WriteString("\n]\n\n")
	b.WriteString("/-- (file, line, tempCode, permCode, subj, det): {Code: SMTPCode(e,t,p), EnhancedCode: SMTPEnchCode(e,{_,s,d})} on the same e -/\n")
	b.WriteString("def helperLits : List (String × Nat × Nat × Nat × Nat × Nat) := [\n")
	first = true
	for _, l := range lits {
		if l.Kind != "helper" {
			continue
		}
		if !first {
			b.WriteString(",\n")
		}
		first = false
		fmt.Fprintf(&b, "  (%q, %d, %d, %d, %d, %d)", l.File, l.Line, l.T, l.P, l.S, l.D)
	}
	b.WriteString("\n]\n\n")
	b.WriteString("/-- (file, function, codeExpr, enchExpr, how the function computes codes given by plain identifiers):\nliterals with a non-constant code; must be on the explained allow-list -/\n")
	b.WriteString("def dynamicLits : List (String × String × String × String × String) := [\n")
	first = true
	for _, l := range lits {
		if l.Kind != "dynamic" {
			continue
		}
		if !first {
			b.WriteString(",\n")
		}
		first = false
		fmt.Fprintf(&b, "  (%q, %q, %q, %q, %q)", l.File, l.Func, l.CodeExpr, l.EnchExpr, l.Defs)
	}
	b.WriteString("\n]\n\n")
	b.WriteString("/-- (file, function, statement): assignments to the Code / EnhancedCode field of a value after it was built -/\n")
	b.WriteString("def fieldWrites : List (String × String × String) := [\n")
	sort.SliceStable(writes, func(i, j int) bool { return writes[i].File < writes[j].File })
	for i, w := range writes {
		if i != 0 {
			b.WriteString(",\n")
		}
		fmt.Fprintf(&b, "  (%q, %q, %q)", w.File, w.Func, w.Stmt)
	}
	b.WriteString("\n]\n\nend MaddyVerif.Generated.SmtpLits\n")
	return writeIfChanged(out, b.String())
}

func writeIfChanged(path, content string) error {
	old, err := os.ReadFile(path)
	if err == nil && string(old) == content {
		return nil
	}
	return os.WriteFile(path, []byte(content), 0o644)
}
