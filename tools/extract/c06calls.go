package main

// extract c06calls: facts of internal/msgpipeline/msgpipeline.go (Body, BodyNonAtomic) and
// internal/msgpipeline/check_runner.go (runAndMergeResults, checkStates) for property C06
// -> lean/MaddyVerif/Generated/C06Calls.lean
//
//   * the ordered list of pipeline steps of Body and of BodyNonAtomic: which check groups are asked
//     about the body, whether applyResults is called, where the modifiers and the deliveries come
//   * the condition chain with which one finished goroutine of runAndMergeResults is classified
//     and the order of the two tests after wg.Wait()
//   * the stages checkStates replays to newly created states, with the slice each runs over
//   * every assignment to the Quarantine field of a message's metadata anywhere in the package
//     (function, left-hand side) and the value assigned: the model's flag is only ever raised
//
// Step codes: 1 checkBody(global checks)  2 checkBody(source block checks)
//             3 checkBody(blk.checks) inside `range dd.rcptModifiersState`
//             4 applyResults  5 RewriteBody (any modifier state)  6 a delivery's Body / BodyNonAtomic
//             7 Received header generation  9 checkBody with any other argument

import (
	"bytes"
	"fmt"
	"go/ast"
	"go/parser"
	"go/printer"
	"go/token"
	"os"
	"path/filepath"
	"sort"
	"strings"
)

// The subcommand dispatches itself, so that main.go needs no change for it
// (equivalent switch line for main.go: `case "c06calls": err = c06Calls(os.Args[2], os.Args[3])`).
func init() { commands["c06calls"] = c06Calls }

func c06Str(fset *token.FileSet, n ast.Node) string {
	var b bytes.Buffer
	printer.Fprint(&b, fset, n)
	return strings.Join(strings.Fields(b.String()), " ")
}

func c06Func(f *ast.File, recv, name string) *ast.FuncDecl {
	for _, d := range f.Decls {
		fd, ok := d.(*ast.FuncDecl)
		if !ok || fd.Name.Name != name || fd.Recv == nil || len(fd.Recv.List) != 1 {
			continue
		}
		t := fd.Recv.List[0].Type
		if st, ok := t.(*ast.StarExpr); ok {
			t = st.X
		}
		if id, ok := t.(*ast.Ident); ok && id.Name == recv {
			return fd
		}
	}
	return nil
}

// c06Steps walks a body path in source order.
func c06Steps(fset *token.FileSet, fd *ast.FuncDecl) (codes []int, descr []string) {
	var walk func(n ast.Node, inBlocks bool)
	walk = func(n ast.Node, inBlocks bool) {
		ast.Inspect(n, func(x ast.Node) bool {
			switch v := x.(type) {
			case *ast.FuncLit:
				// closures (setStatusAll) are helpers, not steps
				return false
			case *ast.RangeStmt:
				if v != n {
					walk(v.Body, inBlocks || c06Str(fset, v.X) == "dd.rcptModifiersState" && v.Key != nil && c06Str(fset, v.Key) != "_")
					return false
				}
			case *ast.CallExpr:
				sel, ok := v.Fun.(*ast.SelectorExpr)
				if !ok {
					return true
				}
				recv := c06Str(fset, sel.X)
				switch sel.Sel.Name {
				case "checkBody":
					if recv != "dd.checkRunner" || len(v.Args) < 2 {
						return true
					}
					arg := c06Str(fset, v.Args[1])
					code := 9
					switch {
					case arg == "dd.d.globalChecks":
						code = 1
					case arg == "dd.sourceBlock.checks":
						code = 2
					case arg == "blk.checks" && inBlocks:
						code = 3
					}
					codes = append(codes, code)
					descr = append(descr, "checkBody "+arg)
				case "applyResults":
					if recv == "dd.checkRunner" {
						codes = append(codes, 4)
						descr = append(descr, "applyResults")
					}
				case "RewriteBody":
					codes = append(codes, 5)
					descr = append(descr, "RewriteBody "+recv)
				case "Body", "BodyNonAtomic":
					if recv == "delivery" || recv == "partDelivery" {
						codes = append(codes, 6)
						descr = append(descr, sel.Sel.Name+" "+recv)
					}
				case "GenerateReceived":
					codes = append(codes, 7)
					descr = append(descr, "GenerateReceived")
				}
			}
			return true
		})
	}
	walk(fd.Body, false)
	return
}

func c06Calls(repo, out string) error {
	fset := token.NewFileSet()
	pp := filepath.Join(repo, "internal/msgpipeline/msgpipeline.go")
	cp := filepath.Join(repo, "internal/msgpipeline/check_runner.go")
	pf, err := parser.ParseFile(fset, pp, nil, 0)
	if err != nil {
		return err
	}
	cf, err := parser.ParseFile(fset, cp, nil, 0)
	if err != nil {
		return err
	}
	body := c06Func(pf, "msgpipelineDelivery", "Body")
	bna := c06Func(pf, "msgpipelineDelivery", "BodyNonAtomic")
	ram := c06Func(cf, "checkRunner", "runAndMergeResults")
	cst := c06Func(cf, "checkRunner", "checkStates")
	if body == nil || bna == nil || ram == nil || cst == nil {
		return fmt.Errorf("Body / BodyNonAtomic / runAndMergeResults / checkStates not found")
	}
	bc, bd := c06Steps(fset, body)
	nc, nd := c06Steps(fset, bna)

	// runAndMergeResults: the if / else-if chain over subCheckRes in the goroutine, and the
	// order of the tests on data.rejectErr / data.quarantineErr after the wait
	var chain []string
	var after []string
	ast.Inspect(ram.Body, func(x ast.Node) bool {
		is, ok := x.(*ast.IfStmt)
		if !ok {
			return true
		}
		c := c06Str(fset, is.Cond)
		if c == "subCheckRes.Quarantine" || c == "subCheckRes.Reject" {
			if len(chain) == 0 {
				for cur := is; cur != nil; {
					chain = append(chain, c06Str(fset, cur.Cond))
					next, _ := cur.Else.(*ast.IfStmt)
					cur = next
				}
			}
			return false
		}
		if c == "data.rejectErr != nil" || c == "data.quarantineErr != nil" {
			act := "other"
			for _, st := range is.Body.List {
				switch s := st.(type) {
				case *ast.ReturnStmt:
					act = "return " + c06Str(fset, s.Results[0])
				case *ast.AssignStmt:
					act = c06Str(fset, s)
				}
			}
			after = append(after, c+" => "+act)
		}
		return true
	})
	// what the once-functions store
	var once []string
	ast.Inspect(ram.Body, func(x ast.Node) bool {
		as, ok := x.(*ast.AssignStmt)
		if ok && len(as.Lhs) == 1 {
			l := c06Str(fset, as.Lhs[0])
			if l == "data.quarantineErr" || l == "data.rejectErr" {
				once = append(once, l+" = "+c06Str(fset, as.Rhs[0]))
			}
		}
		return true
	})

	// checkStates: the runAndMergeResults calls of the replay, in order: (slice, state method called in the closure)
	var replay []string
	ast.Inspect(cst.Body, func(x ast.Node) bool {
		ce, ok := x.(*ast.CallExpr)
		if !ok {
			return true
		}
		sel, ok := ce.Fun.(*ast.SelectorExpr)
		if !ok || sel.Sel.Name != "runAndMergeResults" || len(ce.Args) != 2 {
			return true
		}
		over := c06Str(fset, ce.Args[0])
		what := "?"
		ast.Inspect(ce.Args[1], func(y ast.Node) bool {
			c2, ok := y.(*ast.CallExpr)
			if !ok {
				return true
			}
			if s2, ok := c2.Fun.(*ast.SelectorExpr); ok {
				switch s2.Sel.Name {
				case "CheckConnection", "CheckSender", "CheckRcpt", "checkRcptOnce":
					what = s2.Sel.Name
				}
			}
			return true
		})
		replay = append(replay, over+": "+what)
		return false
	})

	// writes to MsgMetadata.Quarantine (or to the whole shared metadata object) in the package
	var sites, values, mapUpd []string
	dir := filepath.Dir(pp)
	ents, err := os.ReadDir(dir)
	if err != nil {
		return err
	}
	var names []string
	for _, e := range ents {
		if strings.HasSuffix(e.Name(), ".go") && !strings.HasSuffix(e.Name(), "_test.go") {
			names = append(names, e.Name())
		}
	}
	sort.Strings(names)
	for _, name := range names {
		f, err := parser.ParseFile(fset, filepath.Join(dir, name), nil, 0)
		if err != nil {
			return err
		}
		for _, d := range f.Decls {
			fd, ok := d.(*ast.FuncDecl)
			if !ok || fd.Body == nil {
				continue
			}
			ast.Inspect(fd.Body, func(x ast.Node) bool {
				as, ok := x.(*ast.AssignStmt)
				if !ok {
					return true
				}
				for i, l := range as.Lhs {
					hit := false
					switch v := l.(type) {
					case *ast.SelectorExpr:
						base := c06Str(fset, v.X)
						last := base[strings.LastIndex(base, ".")+1:]
						hit = v.Sel.Name == "Quarantine" && strings.Contains(strings.ToLower(last), "meta")
					case *ast.StarExpr:
						base := c06Str(fset, v.X)
						last := base[strings.LastIndex(base, ".")+1:]
						hit = strings.Contains(strings.ToLower(last), "meta")
					}
					if !hit {
						continue
					}
					val := "?"
					if len(as.Rhs) == len(as.Lhs) {
						val = c06Str(fset, as.Rhs[i])
					}
					if as.Tok != token.ASSIGN {
						val = as.Tok.String() + " " + val
					}
					sites = append(sites, fd.Name.Name+": "+c06Str(fset, l))
					values = append(values, val)
				}
				return true
			})
			// every update of the key set of rcptModifiersState: the record of which destination
			// blocks take part in the body stage (Body / BodyNonAtomic range over it)
			ast.Inspect(fd.Body, func(x ast.Node) bool {
				switch v := x.(type) {
				case *ast.AssignStmt:
					for _, l := range v.Lhs {
						switch lv := l.(type) {
						case *ast.IndexExpr:
							if strings.HasSuffix(c06Str(fset, lv.X), "rcptModifiersState") {
								mapUpd = append(mapUpd, fd.Name.Name+": set "+c06Str(fset, l))
							}
						case *ast.SelectorExpr:
							if lv.Sel.Name == "rcptModifiersState" {
								mapUpd = append(mapUpd, fd.Name.Name+": replace "+c06Str(fset, l))
							}
						}
					}
				case *ast.CallExpr:
					if id, ok := v.Fun.(*ast.Ident); ok && (id.Name == "delete" || id.Name == "clear") && len(v.Args) > 0 &&
						strings.HasSuffix(c06Str(fset, v.Args[0]), "rcptModifiersState") {
						mapUpd = append(mapUpd, fd.Name.Name+": "+id.Name+" "+c06Str(fset, v.Args[0]))
					}
				}
				return true
			})
		}
	}

	var b strings.Builder
	b.WriteString("-- GENERATED by /verif/tools/extract c06calls from the current /repo working tree. Do not edit.\n")
	b.WriteString("namespace MaddyVerif.Generated.C06Calls\n\n")
	nat := func(name string, l []int, d []string) {
		fmt.Fprintf(&b, "/-- %s -/\ndef %s : List Nat := [", strings.Join(d, "; "), name)
		for i, x := range l {
			if i > 0 {
				b.WriteString(", ")
			}
			fmt.Fprintf(&b, "%d", x)
		}
		b.WriteString("]\n\n")
	}
	strs := func(name string, l []string) {
		fmt.Fprintf(&b, "def %s : List String := [", name)
		for i, x := range l {
			if i > 0 {
				b.WriteString(", ")
			}
			fmt.Fprintf(&b, "%q", x)
		}
		b.WriteString("]\n\n")
	}
	nat("bodySteps", bc, bd)
	nat("bodyNonAtomicSteps", nc, nd)
	strs("mergeChain", chain)
	strs("mergeOnce", once)
	strs("mergeAfterWait", after)
	strs("replayGroups", replay)
	strs("flagWriteSites", sites)
	strs("flagWriteValues", values)
	strs("blockMapUpdates", mapUpd)
	b.WriteString("end MaddyVerif.Generated.C06Calls\n")
	content := b.String()
	if old, err := os.ReadFile(out); err == nil && string(old) == content {
		return nil
	}
	if err := os.MkdirAll(filepath.Dir(out), 0o755); err != nil {
		return err
	}
	return os.WriteFile(out, []byte(content), 0o644)
}
