package main

// extract dane: facts of internal/target/remote/dane.go (verifyDANE) and security.go
// (daneDelivery.CheckConn) for property C13 -> lean/MaddyVerif/Generated/DaneFacts.lean
//
//   * the three filter switches of the record loop: case sets, what a case does, what default does
//   * every return statement of verifyDANE: (overridePKIX literal, basic code, enhanced code)
//   * every `if` condition of verifyDANE, in source order (whitespace-normalised)
//   * every return statement of CheckConn: (level expression, error expression)

import (
	"bytes"
	"fmt"
	"go/ast"
	"go/parser"
	"go/token"
	"path/filepath"
	"strings"
)

// The subcommand dispatches itself, so that main.go needs no change for it
// (equivalent switch line for main.go: `case "dane": err = daneFacts(os.Args[2], os.Args[3])`).
func init() { commands["dane"] = daneFacts }

func findFunc(f *ast.File, recv, name string) *ast.FuncDecl {
	for _, d := range f.Decls {
		fd, ok := d.(*ast.FuncDecl)
		if !ok || fd.Name.Name != name {
			continue
		}
		if recv == "" {
			if fd.Recv == nil {
				return fd
			}
			continue
		}
		if fd.Recv == nil || len(fd.Recv.List) != 1 {
			continue
		}
		t := fd.Recv.List[0].Type
		if st, ok := t.(*ast.StarExpr); ok {
			t = st.X
		}
		if id, ok := t.(*ast.Ident); ok && id.Name == recv {
			return fd
		}
	}
	return nil
}

// smtpErrLit returns (code, a, b, c) of a `&exterrors.SMTPError{Code: …, EnhancedCode: exterrors.EnhancedCode{a,b,c}, …}`
func smtpErrLit(e ast.Expr) (code, a, b, c int, ok bool) {
	if u, isU := e.(*ast.UnaryExpr); isU && u.Op == token.AND {
		e = u.X
	}
	cl, isCl := e.(*ast.CompositeLit)
	if !isCl || !isSMTPErrorType(cl.Type) {
		return
	}
	haveCode, haveEnh := false, false
	for _, el := range cl.Elts {
		kv, isKV := el.(*ast.KeyValueExpr)
		if !isKV {
			continue
		}
		k, _ := kv.Key.(*ast.Ident)
		if k == nil {
			continue
		}
		switch k.Name {
		case "Code":
			code, haveCode = intLit(kv.Value)
		case "EnhancedCode":
			a, b, c, haveEnh = tripleLit(kv.Value)
		}
	}
	ok = haveCode && haveEnh
	return
}

func daneFacts(repo, out string) error {
	fset := token.NewFileSet()
	danePath := filepath.Join(repo, "internal/target/remote/dane.go")
	secPath := filepath.Join(repo, "internal/target/remote/security.go")
	df, err := parser.ParseFile(fset, danePath, nil, 0)
	if err != nil {
		return err
	}
	sf, err := parser.ParseFile(fset, secPath, nil, 0)
	if err != nil {
		return err
	}
	vd := findFunc(df, "", "verifyDANE")
	if vd == nil {
		return fmt.Errorf("verifyDANE not found in %s", danePath)
	}
	cc := findFunc(sf, "daneDelivery", "CheckConn")
	if cc == nil {
		return fmt.Errorf("daneDelivery.CheckConn not found in %s", secPath)
	}

	// named error values: `tlsErr := &exterrors.SMTPError{…}`
	type errv struct{ code, a, b, c int }
	named := map[string]errv{}
	ast.Inspect(vd.Body, func(n ast.Node) bool {
		as, ok := n.(*ast.AssignStmt)
		if !ok || len(as.Lhs) != 1 || len(as.Rhs) != 1 {
			return true
		}
		id, ok := as.Lhs[0].(*ast.Ident)
		if !ok {
			return true
		}
		if code, a, b, c, ok := smtpErrLit(as.Rhs[0]); ok {
			named[id.Name] = errv{code, a, b, c}
		}
		return true
	})

	// the record loop: `for _, rec := range recs { switch … }`
	var loop *ast.RangeStmt
	ast.Inspect(vd.Body, func(n ast.Node) bool {
		rs, ok := n.(*ast.RangeStmt)
		if ok && loop == nil && exprStr(fset, rs.X) == "recs" {
			loop = rs
			return false
		}
		return true
	})
	if loop == nil {
		return fmt.Errorf("verifyDANE: loop over recs not found")
	}
	loopVar := exprStr(fset, loop.Value)
	type sw struct {
		tag   string
		cases []string // "v1,v2:action"
		def   string
	}
	action := func(body []ast.Stmt) string {
		if len(body) == 0 {
			return "pass"
		}
		if len(body) == 1 {
			if br, ok := body[0].(*ast.BranchStmt); ok && br.Tok == token.CONTINUE && br.Label == nil {
				return "continue"
			}
			if as, ok := body[0].(*ast.AssignStmt); ok && len(as.Lhs) == 1 && len(as.Rhs) == 1 {
				if call, ok := as.Rhs[0].(*ast.CallExpr); ok && calleeName(call) == "append" && len(call.Args) == 2 &&
					exprStr(fset, call.Args[0]) == exprStr(fset, as.Lhs[0]) && exprStr(fset, call.Args[1]) == loopVar {
					return "append " + exprStr(fset, as.Lhs[0])
				}
			}
		}
		return "other"
	}
	var sws []sw
	for _, st := range loop.Body.List {
		s, ok := st.(*ast.SwitchStmt)
		if !ok {
			return fmt.Errorf("verifyDANE: record loop contains a statement that is not a switch: %s", fset.Position(st.Pos()))
		}
		if s.Init != nil || s.Tag == nil {
			return fmt.Errorf("verifyDANE: unexpected switch form at %s", fset.Position(s.Pos()))
		}
		cur := sw{tag: exprStr(fset, s.Tag), def: "fallthrough-out"}
		for _, c := range s.Body.List {
			cl := c.(*ast.CaseClause)
			if cl.List == nil {
				cur.def = action(cl.Body)
				continue
			}
			var vals []string
			for _, v := range cl.List {
				x, ok := intLit(v)
				if !ok {
					return fmt.Errorf("verifyDANE: non-literal case value at %s", fset.Position(v.Pos()))
				}
				vals = append(vals, fmt.Sprint(x))
			}
			cur.cases = append(cur.cases, "["+strings.Join(vals, ", ")+"], "+fmt.Sprintf("%q", action(cl.Body)))
		}
		sws = append(sws, cur)
	}

	// returns of verifyDANE
	var rets []string
	var conds []string
	var bad error
	ast.Inspect(vd.Body, func(n ast.Node) bool {
		switch x := n.(type) {
		case *ast.FuncLit:
			return false
		case *ast.IfStmt:
			conds = append(conds, exprStr(fset, x.Cond))
		case *ast.ReturnStmt:
			if len(x.Results) != 2 {
				bad = fmt.Errorf("verifyDANE: return with %d results at %s", len(x.Results), fset.Position(x.Pos()))
				return false
			}
			ov := exprStr(fset, x.Results[0])
			if ov != "true" && ov != "false" {
				bad = fmt.Errorf("verifyDANE: overridePKIX result is not a literal at %s", fset.Position(x.Pos()))
				return false
			}
			var e errv
			switch r := x.Results[1].(type) {
			case *ast.Ident:
				if r.Name != "nil" {
					v, ok := named[r.Name]
					if !ok {
						bad = fmt.Errorf("verifyDANE: unknown error value %s at %s", r.Name, fset.Position(x.Pos()))
						return false
					}
					e = v
				}
			default:
				code, a, b, c, ok := smtpErrLit(r)
				if !ok {
					bad = fmt.Errorf("verifyDANE: error result is not an SMTPError literal at %s", fset.Position(x.Pos()))
					return false
				}
				e = errv{code, a, b, c}
			}
			rets = append(rets, fmt.Sprintf("(%s, %d, %d, %d, %d)", ov, e.code, e.a, e.b, e.c))
		}
		return true
	})
	if bad != nil {
		return bad
	}

	// returns of CheckConn
	var ccRets []string
	ast.Inspect(cc.Body, func(n ast.Node) bool {
		switch x := n.(type) {
		case *ast.FuncLit:
			return false
		case *ast.ReturnStmt:
			if len(x.Results) == 2 {
				ccRets = append(ccRets, fmt.Sprintf("(%q, %q)", exprStr(fset, x.Results[0]), exprStr(fset, x.Results[1])))
			} else {
				ccRets = append(ccRets, `("?", "?")`)
			}
		}
		return true
	})
	var ccConds []string
	ast.Inspect(cc.Body, func(n ast.Node) bool {
		if x, ok := n.(*ast.IfStmt); ok {
			ccConds = append(ccConds, exprStr(fset, x.Cond))
		}
		return true
	})

	// conditions and returns of discoverTLSA
	dt := findFunc(sf, "daneDelivery", "discoverTLSA")
	if dt == nil {
		return fmt.Errorf("daneDelivery.discoverTLSA not found in %s", secPath)
	}
	var dtConds, dtRets []string
	ast.Inspect(dt.Body, func(n ast.Node) bool {
		switch x := n.(type) {
		case *ast.FuncLit:
			return false
		case *ast.IfStmt:
			dtConds = append(dtConds, exprStr(fset, x.Cond))
		case *ast.ReturnStmt:
			var rs []string
			for _, r := range x.Results {
				rs = append(rs, exprStr(fset, r))
			}
			dtRets = append(dtRets, strings.Join(rs, ", "))
		}
		return true
	})

	var b bytes.Buffer
	b.WriteString("-- GENERATED by /verif/tools/extract dane from the current /repo working tree. Do not edit.\n")
	b.WriteString("namespace MaddyVerif.Generated.Dane\n\n")
	b.WriteString("/-- the switches of verifyDANE's record loop, in order: (tag, [(case values, action)], default action);\n")
	b.WriteString("actions: \"pass\" (empty body: go on to the next switch), \"continue\" (skip the record), \"append X\" -/\n")
	b.WriteString("def filterSwitches : List (String × List (List Nat × String) × String) := [\n")
	for i, s := range sws {
		fmt.Fprintf(&b, "  (%q, [", s.tag)
		for j, c := range s.cases {
			if j > 0 {
				b.WriteString(", ")
			}
			b.WriteString("(" + c + ")")
		}
		fmt.Fprintf(&b, "], %q)", s.def)
		if i+1 < len(sws) {
			b.WriteString(",")
		}
		b.WriteString("\n")
	}
	b.WriteString("]\n\n")
	b.WriteString("/-- every return statement of verifyDANE in source order: (overridePKIX, Code, EnhancedCode a b c); all zero = nil error -/\n")
	b.WriteString("def returns : List (Bool × Nat × Nat × Nat × Nat) := [\n  " + strings.Join(rets, ",\n  ") + "\n]\n\n")
	b.WriteString("/-- every `if` condition of verifyDANE in source order -/\n")
	b.WriteString("def conds : List String := [\n")
	for i, c := range conds {
		fmt.Fprintf(&b, "  %q", c)
		if i+1 < len(conds) {
			b.WriteString(",")
		}
		b.WriteString("\n")
	}
	b.WriteString("]\n\n")
	b.WriteString("/-- every return statement of daneDelivery.CheckConn in source order: (level, error) -/\n")
	b.WriteString("def checkConnReturns : List (String × String) := [\n  " + strings.Join(ccRets, ",\n  ") + "\n]\n\n")
	b.WriteString("/-- every `if` condition of daneDelivery.CheckConn in source order -/\n")
	b.WriteString("def checkConnConds : List String := [\n")
	for i, c := range ccConds {
		fmt.Fprintf(&b, "  %q", c)
		if i+1 < len(ccConds) {
			b.WriteString(",")
		}
		b.WriteString("\n")
	}
	b.WriteString("]\n\n")
	writeStrs := func(doc, name string, xs []string) {
		b.WriteString("/-- " + doc + " -/\n")
		b.WriteString("def " + name + " : List String := [\n")
		for i, c := range xs {
			fmt.Fprintf(&b, "  %q", c)
			if i+1 < len(xs) {
				b.WriteString(",")
			}
			b.WriteString("\n")
		}
		b.WriteString("]\n\n")
	}
	writeStrs("every `if` condition of daneDelivery.discoverTLSA in source order", "discoverConds", dtConds)
	writeStrs("every return statement of daneDelivery.discoverTLSA in source order", "discoverReturns", dtRets)
	b.WriteString("end MaddyVerif.Generated.Dane\n")
	return writeIfChanged(out, b.String())
}
