package main

// C12: synchronisation points of the queue scheduler.
//
//	extract c12sync    <repo> <out.lean>   the ordered synchronisation skeleton of timewheel.go / queue.go as Lean data
//	extract c12rewrite <repo> <outdir>     copies of the two files with a c12sched.Point call before every
//	                                       synchronisation statement (used through `go test -overlay`)
//
// Both are computed by the same walk over the current working tree, so the skeleton the Lean side
// checks is the list of points the harness schedules.

import (
	"bytes"
	"fmt"
	"go/ast"
	"go/parser"
	"go/printer"
	"go/token"
	"os"
	"path/filepath"
	"strconv"
	"strings"
)

const c12Pkg = "internal/target/queue"
const c12Shim = "github.com/foxcpp/maddy/internal/verifshim/c12sched"

var c12Files = []string{"timewheel.go", "queue.go"}

// functions that get a point at their entry (not a synchronisation statement, but an effect whose
// position in the interleaving matters: the quarantine rename happens after deliveryWg.Done)
var c12EntryPoints = map[string]bool{"Queue.discardBroken": true}

func init() {
	commands["c12sync"] = c12Sync
	commands["c12rewrite"] = c12Rewrite
}

type c12Fn struct {
	name   string
	labels []string
	counts map[string]int
}

type c12Walker struct {
	fset *token.FileSet
	fns  []*c12Fn // in source order (nested literals after their parent)
}

func (w *c12Walker) exprStr(e ast.Expr) string {
	var b bytes.Buffer
	printer.Fprint(&b, w.fset, e)
	return strings.Join(strings.Fields(b.String()), "")
}

func (fn *c12Fn) label(kind, what string) string {
	fn.counts[kind]++
	l := fmt.Sprintf("%s/%s#%d", fn.name, kind, fn.counts[kind])
	if what != "" {
		l += ":" + what
	}
	fn.labels = append(fn.labels, l)
	return l
}

func c12PointCall(label string) ast.Stmt {
	return &ast.ExprStmt{X: &ast.CallExpr{
		Fun:  &ast.SelectorExpr{X: ast.NewIdent("c12sched"), Sel: ast.NewIdent("Point")},
		Args: []ast.Expr{&ast.BasicLit{Kind: token.STRING, Value: strconv.Quote(label)}},
	}}
}

func isWgName(s string) bool {
	s = strings.ToLower(s)
	return strings.HasSuffix(s, "wg") || strings.HasSuffix(s, "waitgroup")
}

// syncOp classifies one expression node; "" if it is not a synchronisation operation.
func (w *c12Walker) syncOp(n ast.Node) (kind, what string) {
	switch x := n.(type) {
	case *ast.UnaryExpr:
		if x.Op == token.ARROW {
			return "recv", w.exprStr(x.X)
		}
	case *ast.CallExpr:
		if id, ok := x.Fun.(*ast.Ident); ok && id.Name == "close" && len(x.Args) == 1 {
			return "close", w.exprStr(x.Args[0])
		}
		sel, ok := x.Fun.(*ast.SelectorExpr)
		if !ok {
			return "", ""
		}
		if id, ok := sel.X.(*ast.Ident); ok && id.Name == "atomic" {
			arg := ""
			if len(x.Args) > 0 {
				arg = w.exprStr(x.Args[0])
			}
			return "atomic", sel.Sel.Name + "(" + arg + ")"
		}
		recv := w.exprStr(sel.X)
		switch sel.Sel.Name {
		case "Lock", "RLock":
			if len(x.Args) == 0 {
				return "lock", recv
			}
		case "Unlock", "RUnlock":
			if len(x.Args) == 0 {
				return "unlock", recv
			}
		case "Wait":
			if len(x.Args) == 0 && isWgName(recv) {
				return "wgwait", recv
			}
		case "Done":
			if len(x.Args) == 0 && isWgName(recv) {
				return "wgdone", recv
			}
		case "Add":
			if len(x.Args) == 1 && isWgName(recv) {
				return "wgadd", recv
			}
		}
	}
	return "", ""
}

// headerOps lists the synchronisation operations evaluated by the statement itself (not by nested
// blocks or function literals), in source order; clock reads and timer creations are rewritten in place.
func (w *c12Walker) headerOps(fn *c12Fn, nodes ...ast.Node) []string {
	var labels []string
	for _, root := range nodes {
		if root == nil {
			continue
		}
		// ast.Inspect on a typed nil interface panics; callers pass only non-nil
		ast.Inspect(root, func(n ast.Node) bool {
			switch x := n.(type) {
			case *ast.FuncLit:
				w.funcBody(fn.name+".func", x.Body, fn)
				return false
			case *ast.BlockStmt:
				return false
			case *ast.CallExpr:
				if handled, descend := w.timeCall(fn, x); handled {
					return descend
				}
			}
			if k, what := w.syncOp(n); k != "" {
				labels = append(labels, fn.label(k, what))
			}
			return true
		})
	}
	return labels
}

// timeCall replaces the package time's clock and timer functions by the shim's (virtual clock in
// controlled mode).  handled: x was such a call; descend: its arguments still have to be walked.
func (w *c12Walker) timeCall(fn *c12Fn, x *ast.CallExpr) (handled, descend bool) {
	sel, ok := x.Fun.(*ast.SelectorExpr)
	if !ok {
		return false, true
	}
	id, ok := sel.X.(*ast.Ident)
	if !ok || id.Name != "time" {
		return false, true
	}
	shim := func(name string) { x.Fun = &ast.SelectorExpr{X: ast.NewIdent("c12sched"), Sel: ast.NewIdent(name)} }
	labelled := func(kind string) ast.Expr {
		fn.counts[kind]++
		l := fmt.Sprintf("%s/%s#%d", fn.name, kind, fn.counts[kind])
		fn.labels = append(fn.labels, l)
		return &ast.BasicLit{Kind: token.STRING, Value: strconv.Quote(l)}
	}
	switch sel.Sel.Name {
	case "Now":
		if len(x.Args) != 0 {
			return false, true
		}
		shim("Now")
		x.Args = []ast.Expr{labelled("now")}
		return true, false
	case "NewTimer":
		shim("NewTimer")
		x.Args = append([]ast.Expr{labelled("newtimer")}, x.Args...)
		return true, true
	case "After":
		shim("After")
		x.Args = append([]ast.Expr{labelled("after")}, x.Args...)
		return true, true
	case "Sleep":
		shim("Sleep")
		x.Args = append([]ast.Expr{labelled("sleep")}, x.Args...)
		return true, true
	case "Until":
		shim("Until")
		return true, true
	case "Since":
		shim("Since")
		return true, true
	}
	return false, true
}

// timeOnly rewrites the clock/timer calls below n (communication clauses of a select: the channel
// operations themselves are part of the select's label).
func (w *c12Walker) timeOnly(fn *c12Fn, n ast.Node) {
	if n == nil {
		return
	}
	ast.Inspect(n, func(n ast.Node) bool {
		switch x := n.(type) {
		case *ast.FuncLit:
			w.funcBody(fn.name+".func", x.Body, fn)
			return false
		case *ast.CallExpr:
			if handled, descend := w.timeCall(fn, x); handled {
				return descend
			}
		}
		return true
	})
}

var c12LitCount = map[string]int{}

// funcBody walks one function body. parent != nil for function literals (named like the compiler does).
func (w *c12Walker) funcBody(name string, body *ast.BlockStmt, parent *c12Fn) {
	if body == nil {
		return
	}
	if parent != nil {
		c12LitCount[parent.name]++
		if strings.HasSuffix(name, ".func") {
			name = name + strconv.Itoa(c12LitCount[parent.name])
		}
		// Go names nested literals parent.func1.1; keep it simple and unique: parent.funcN
	}
	fn := &c12Fn{name: name, counts: map[string]int{}}
	w.fns = append(w.fns, fn)
	if c12EntryPoints[name] {
		l := fn.label("entry", "")
		body.List = append([]ast.Stmt{c12PointCall(l)}, body.List...)
		w.block(fn, body, 1)
		return
	}
	w.block(fn, body, 0)
}

func (w *c12Walker) stmtList(fn *c12Fn, list []ast.Stmt, skip int) []ast.Stmt {
	var out []ast.Stmt
	for i, s := range list {
		if i < skip {
			out = append(out, s)
			continue
		}
		pre, repl := w.stmt(fn, s)
		for _, l := range pre {
			out = append(out, c12PointCall(l))
		}
		out = append(out, repl)
	}
	return out
}

func (w *c12Walker) block(fn *c12Fn, b *ast.BlockStmt, skip int) {
	if b == nil {
		return
	}
	b.List = w.stmtList(fn, b.List, skip)
}

func nn(n ast.Node, isNil bool) ast.Node {
	if isNil {
		return nil
	}
	return n
}

// stmt returns the labels of the points to insert before s and the (possibly replaced) statement.
func (w *c12Walker) stmt(fn *c12Fn, s ast.Stmt) ([]string, ast.Stmt) {
	switch x := s.(type) {
	case *ast.BlockStmt:
		w.block(fn, x, 0)
		return nil, x
	case *ast.LabeledStmt:
		pre, r := w.stmt(fn, x.Stmt)
		x.Stmt = r
		return pre, x
	case *ast.IfStmt:
		pre := w.headerOps(fn, nn(x.Init, x.Init == nil), nn(x.Cond, x.Cond == nil))
		w.block(fn, x.Body, 0)
		if x.Else != nil {
			_, r := w.stmt(fn, x.Else)
			x.Else = r
		}
		return pre, x
	case *ast.ForStmt:
		pre := w.headerOps(fn, nn(x.Init, x.Init == nil), nn(x.Cond, x.Cond == nil), nn(x.Post, x.Post == nil))
		w.block(fn, x.Body, 0)
		return pre, x
	case *ast.RangeStmt:
		pre := w.headerOps(fn, x.X)
		w.block(fn, x.Body, 0)
		return pre, x
	case *ast.SwitchStmt:
		pre := w.headerOps(fn, nn(x.Init, x.Init == nil), nn(x.Tag, x.Tag == nil))
		for _, c := range x.Body.List {
			cc := c.(*ast.CaseClause)
			cc.Body = w.stmtList(fn, cc.Body, 0)
		}
		return pre, x
	case *ast.TypeSwitchStmt:
		for _, c := range x.Body.List {
			cc := c.(*ast.CaseClause)
			cc.Body = w.stmtList(fn, cc.Body, 0)
		}
		return nil, x
	case *ast.SelectStmt:
		var alts []string
		for _, c := range x.Body.List {
			cc := c.(*ast.CommClause)
			switch cm := cc.Comm.(type) {
			case nil:
				alts = append(alts, "default")
			case *ast.SendStmt:
				alts = append(alts, "send:"+w.exprStr(cm.Chan))
			case *ast.ExprStmt:
				if u, ok := cm.X.(*ast.UnaryExpr); ok {
					alts = append(alts, "recv:"+w.exprStr(u.X))
				}
			case *ast.AssignStmt:
				if len(cm.Rhs) == 1 {
					if u, ok := cm.Rhs[0].(*ast.UnaryExpr); ok {
						alts = append(alts, "recv:"+w.exprStr(u.X))
					}
				}
			}
		}
		l := fn.label("select", strings.Join(alts, "|"))
		for _, c := range x.Body.List {
			cc := c.(*ast.CommClause)
			if cc.Comm != nil {
				w.timeOnly(fn, cc.Comm)
			}
			cc.Body = w.stmtList(fn, cc.Body, 0)
		}
		return []string{l}, x
	case *ast.SendStmt:
		l := fn.label("send", w.exprStr(x.Chan))
		return []string{l}, x
	case *ast.GoStmt:
		l := fn.label("go", "")
		var f ast.Expr
		if lit, ok := x.Call.Fun.(*ast.FuncLit); ok && len(x.Call.Args) == 0 {
			w.funcBody(fn.name+".func", lit.Body, fn)
			f = lit
		} else {
			f = &ast.FuncLit{
				Type: &ast.FuncType{Params: &ast.FieldList{}},
				Body: &ast.BlockStmt{List: []ast.Stmt{&ast.ExprStmt{X: x.Call}}},
			}
		}
		return []string{l}, &ast.ExprStmt{X: &ast.CallExpr{
			Fun:  &ast.SelectorExpr{X: ast.NewIdent("c12sched"), Sel: ast.NewIdent("Go")},
			Args: []ast.Expr{&ast.BasicLit{Kind: token.STRING, Value: strconv.Quote(l)}, f},
		}}
	case *ast.DeferStmt:
		// the deferred call runs at function exit: a point here would be in the wrong place.
		// Deferred function literals are walked as functions of their own.
		if lit, ok := x.Call.Fun.(*ast.FuncLit); ok {
			w.funcBody(fn.name+".func", lit.Body, fn)
		}
		for _, a := range x.Call.Args {
			w.headerOps(fn, a)
		}
		return nil, x
	case *ast.ExprStmt:
		return w.headerOps(fn, x.X), x
	case *ast.AssignStmt:
		var nodes []ast.Node
		for _, e := range x.Rhs {
			nodes = append(nodes, e)
		}
		for _, e := range x.Lhs {
			nodes = append(nodes, e)
		}
		return w.headerOps(fn, nodes...), x
	case *ast.DeclStmt:
		return w.headerOps(fn, x.Decl), x
	case *ast.ReturnStmt:
		var nodes []ast.Node
		for _, e := range x.Results {
			nodes = append(nodes, e)
		}
		return w.headerOps(fn, nodes...), x
	case *ast.IncDecStmt:
		return w.headerOps(fn, x.X), x
	}
	return nil, s
}

func c12Process(repo, file string) (*c12Walker, *ast.File, error) {
	fset := token.NewFileSet()
	p := filepath.Join(repo, c12Pkg, file)
	f, err := parser.ParseFile(fset, p, nil, 0) // comments dropped: positions change anyway
	if err != nil {
		return nil, nil, err
	}
	w := &c12Walker{fset: fset}
	for _, d := range f.Decls {
		fd, ok := d.(*ast.FuncDecl)
		if !ok || fd.Body == nil {
			continue
		}
		name := fd.Name.Name
		if fd.Recv != nil && len(fd.Recv.List) == 1 {
			t := fd.Recv.List[0].Type
			if st, ok := t.(*ast.StarExpr); ok {
				t = st.X
			}
			if id, ok := t.(*ast.Ident); ok {
				name = id.Name + "." + name
			}
		}
		w.funcBody(name, fd.Body, nil)
	}
	// values the shim hands out instead of *time.Timer have the shim's type: fields, variables and
	// parameters declared as (*)time.Timer follow
	ast.Inspect(f, func(n ast.Node) bool {
		if sel, ok := n.(*ast.SelectorExpr); ok && sel.Sel.Name == "Timer" {
			if id, ok := sel.X.(*ast.Ident); ok && id.Name == "time" && id.Obj == nil {
				sel.X = ast.NewIdent("c12sched")
			}
		}
		return true
	})
	// import the shim
	imp := &ast.ImportSpec{Path: &ast.BasicLit{Kind: token.STRING, Value: strconv.Quote(c12Shim)}}
	added := false
	for _, d := range f.Decls {
		if gd, ok := d.(*ast.GenDecl); ok && gd.Tok == token.IMPORT {
			gd.Specs = append(gd.Specs, imp)
			if !gd.Lparen.IsValid() {
				gd.Lparen = gd.Pos()
				gd.Rparen = gd.End()
			}
			added = true
			break
		}
	}
	if !added {
		return nil, nil, fmt.Errorf("%s: no import declaration", file)
	}
	return w, f, nil
}

func c12Rewrite(repo, outdir string) error {
	if err := os.MkdirAll(outdir, 0o755); err != nil {
		return err
	}
	for _, file := range c12Files {
		for k := range c12LitCount {
			delete(c12LitCount, k)
		}
		w, f, err := c12Process(repo, file)
		if err != nil {
			return err
		}
		var b bytes.Buffer
		if err := printer.Fprint(&b, w.fset, f); err != nil {
			return err
		}
		// keep the imports used whatever was rewritten
		b.WriteString("\nvar _ = c12sched.Point\n")
		for _, im := range f.Imports {
			if im.Path.Value == `"time"` && im.Name == nil {
				b.WriteString("var _ time.Duration\n")
			}
		}
		if err := os.WriteFile(filepath.Join(outdir, file), b.Bytes(), 0o644); err != nil {
			return err
		}
	}
	return nil
}

// functions whose skeleton the model is built from
var c12Modelled = []string{
	"TimeWheel.Add", "TimeWheel.Close", "TimeWheel.tick",
	"Queue.Close", "Queue.discardBroken", "Queue.dispatch", "Queue.dispatch.func1", "Queue.dispatch.func1.func1",
	"queueDelivery.Commit", "Queue.tryDelivery", "Queue.readDiskQueue", "Queue.start", "NewTimeWheel",
}

func c12Sync(repo, out string) error {
	all := map[string][]string{}
	var order []string
	for _, file := range c12Files {
		for k := range c12LitCount {
			delete(c12LitCount, k)
		}
		w, _, err := c12Process(repo, file)
		if err != nil {
			return err
		}
		for _, fn := range w.fns {
			if _, dup := all[fn.name]; !dup {
				order = append(order, fn.name)
			}
			all[fn.name] = append(all[fn.name], fn.labels...)
		}
	}
	var b strings.Builder
	b.WriteString("-- GENERATED by /verif/tools/extract c12sync from the current /repo working tree. Do not edit.\n")
	b.WriteString("namespace MaddyVerif.Generated.TimeWheelSync\n\n")
	b.WriteString("/-- (function, its synchronisation operations in source order: kind#ordinal:operand) for the\nfunctions the C12 model mirrors -/\n")
	b.WriteString("def modelled : List (String × List String) := [\n")
	first := true
	for _, name := range c12Modelled {
		labels, ok := all[name]
		if !ok {
			continue
		}
		if !first {
			b.WriteString(",\n")
		}
		first = false
		var qs []string
		for _, l := range labels {
			qs = append(qs, strconv.Quote(strings.TrimPrefix(l, name+"/")))
		}
		fmt.Fprintf(&b, "  (%s, [%s])", strconv.Quote(name), strings.Join(qs, ", "))
	}
	b.WriteString("\n]\n\n")
	b.WriteString("/-- every other function of timewheel.go / queue.go that contains a synchronisation operation -/\n")
	b.WriteString("def others : List (String × List String) := [\n")
	first = true
	modelled := map[string]bool{}
	for _, n := range c12Modelled {
		modelled[n] = true
	}
	for _, name := range order {
		if modelled[name] || len(all[name]) == 0 {
			continue
		}
		// clock reads alone are not synchronisation
		only := true
		for _, l := range all[name] {
			if !strings.Contains(l, "/now#") {
				only = false
			}
		}
		if only {
			continue
		}
		if !first {
			b.WriteString(",\n")
		}
		first = false
		var qs []string
		for _, l := range all[name] {
			qs = append(qs, strconv.Quote(strings.TrimPrefix(l, name+"/")))
		}
		fmt.Fprintf(&b, "  (%s, [%s])", strconv.Quote(name), strings.Join(qs, ", "))
	}
	b.WriteString("\n]\n\nend MaddyVerif.Generated.TimeWheelSync\n")
	content := b.String()
	if old, err := os.ReadFile(out); err == nil && string(old) == content {
		return nil
	}
	if err := os.MkdirAll(filepath.Dir(out), 0o755); err != nil {
		return err
	}
	return os.WriteFile(out, []byte(content), 0o644)
}
