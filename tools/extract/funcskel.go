package main

// funcskel: a fingerprint of every Go function (and type declaration) a property's model mirrors,
// taken from the CURRENT /repo tree.  Usage:  extract funcskel:<Cxx> <repo> <out.lean>
//
// Which declarations belong to a property is the table funcskel_spec.json (derived from the
// `anchors.mechanism` entries of properties.jsonl, a few hand-added).  A declaration is
// normalised before it is hashed, so that what is irrelevant to behaviour does not change the
// fingerprint: comments are dropped, the code is re-printed by go/printer (layout), local
// variables, parameters, receivers and labels are renamed in order of first appearance
// (v1, v2, …), and statements that only log or trace are removed.  What is left is the control
// and data flow skeleton the hand-written model was written from and validated against.
//
// Output: Lean data `def funcs : List (String × String)` = (declaration, 16 hex digits), sorted;
// the normalised text itself goes to <out.lean>.txt beside it for diffs (never imported by Lean).

import (
	"crypto/sha256"
	_ "embed"
	"encoding/hex"
	"encoding/json"
	"fmt"
	"go/ast"
	"go/parser"
	"go/printer"
	"go/token"
	"os"
	"path/filepath"
	"sort"
	"strings"
)

//go:embed funcskel_spec.json
var funcskelSpecJSON []byte

type fsEntry struct {
	File  string   `json:"file"`
	Funcs []string `json:"funcs"`
}

func init() {
	var spec map[string][]fsEntry
	if err := json.Unmarshal(funcskelSpecJSON, &spec); err != nil {
		panic(err)
	}
	for prop, ents := range spec {
		prop, ents := prop, ents
		commands["funcskel:"+prop] = func(repo, out string) error { return funcSkel(prop, ents, repo, out) }
	}
}

// log-only / trace-only calls: removing them cannot change what the function does to its data
var fsLogMethods = map[string]bool{
	"Debugf": true, "Debugln": true, "DebugMsg": true, "Printf": true, "Println": true, "Msg": true, "Error": true,
}

func fsIsLogCall(e ast.Expr) bool {
	call, ok := e.(*ast.CallExpr)
	if !ok {
		return false
	}
	sel, ok := call.Fun.(*ast.SelectorExpr)
	if !ok || !fsLogMethods[sel.Sel.Name] {
		return false
	}
	if strings.HasPrefix(sel.Sel.Name, "Debug") {
		return true // debug output only, whatever the receiver is called
	}
	// receiver must look like a logger: an identifier or selector chain ending in log/Log/logger/Logger
	var last string
	switch x := sel.X.(type) {
	case *ast.Ident:
		last = x.Name
	case *ast.SelectorExpr:
		last = x.Sel.Name
	default:
		return false
	}
	l := strings.ToLower(last)
	return l == "log" || l == "logger" || l == "dl" || strings.HasSuffix(l, "log")
}

func fsIsTraceStmt(s ast.Stmt) bool {
	d, ok := s.(*ast.DeferStmt)
	if !ok {
		return false
	}
	// defer trace.StartRegion(ctx, "…").End()
	sel, ok := d.Call.Fun.(*ast.SelectorExpr)
	if !ok || sel.Sel.Name != "End" {
		return false
	}
	inner, ok := sel.X.(*ast.CallExpr)
	if !ok {
		return false
	}
	isel, ok := inner.Fun.(*ast.SelectorExpr)
	if !ok {
		return false
	}
	pkg, ok := isel.X.(*ast.Ident)
	return ok && pkg.Name == "trace"
}

func fsFilterStmts(list []ast.Stmt) []ast.Stmt {
	var out []ast.Stmt
	for _, s := range list {
		if es, ok := s.(*ast.ExprStmt); ok && fsIsLogCall(es.X) {
			continue
		}
		if fsIsTraceStmt(s) {
			continue
		}
		out = append(out, s)
	}
	return out
}

// fsStrip removes log/trace statements from every block below n.
func fsStrip(n ast.Node) {
	ast.Inspect(n, func(x ast.Node) bool {
		switch b := x.(type) {
		case *ast.BlockStmt:
			b.List = fsFilterStmts(b.List)
		case *ast.CaseClause:
			b.Body = fsFilterStmts(b.Body)
		case *ast.CommClause:
			b.Body = fsFilterStmts(b.Body)
		}
		return true
	})
}

// fsRename alpha-renames everything declared inside fn (receiver, parameters, results, locals, labels).
func fsRename(fn *ast.FuncDecl) {
	names := map[*ast.Object]string{}
	n := 0
	inside := func(o *ast.Object) bool {
		if o == nil || o.Decl == nil {
			return false
		}
		if o.Kind != ast.Var && o.Kind != ast.Lbl && o.Kind != ast.Con && o.Kind != ast.Typ && o.Kind != ast.Fun {
			return false
		}
		dn, ok := o.Decl.(ast.Node)
		if !ok {
			return false
		}
		return dn.Pos() >= fn.Pos() && dn.End() <= fn.End() && dn != ast.Node(fn)
	}
	// field names used as keys of composite literals are resolved by go/parser to a local of the
	// same name when there is one: they are not uses of that local
	keys := map[*ast.Ident]bool{}
	ast.Inspect(fn, func(x ast.Node) bool {
		if cl, ok := x.(*ast.CompositeLit); ok {
			for _, el := range cl.Elts {
				if kv, ok := el.(*ast.KeyValueExpr); ok {
					if id, ok := kv.Key.(*ast.Ident); ok {
						keys[id] = true
					}
				}
			}
		}
		return true
	})
	ast.Inspect(fn, func(x ast.Node) bool {
		id, ok := x.(*ast.Ident)
		if !ok || id.Obj == nil || id.Name == "_" || keys[id] {
			return true
		}
		if !inside(id.Obj) {
			return true
		}
		nm, ok := names[id.Obj]
		if !ok {
			n++
			nm = fmt.Sprintf("v%d", n)
			names[id.Obj] = nm
		}
		id.Name = nm
		return true
	})
}

func fsRecvName(fn *ast.FuncDecl) string {
	if fn.Recv == nil || len(fn.Recv.List) == 0 {
		return ""
	}
	t := fn.Recv.List[0].Type
	for {
		switch x := t.(type) {
		case *ast.StarExpr:
			t = x.X
			continue
		case *ast.IndexExpr:
			t = x.X
			continue
		case *ast.Ident:
			return x.Name
		}
		return ""
	}
}

func fsPrint(fset *token.FileSet, n ast.Node) string {
	var b strings.Builder
	cfg := printer.Config{Mode: printer.UseSpaces | printer.TabIndent, Tabwidth: 8}
	cfg.Fprint(&b, fset, n)
	// layout-insensitive: one space between tokens as printed, no blank lines
	var lines []string
	for _, l := range strings.Split(b.String(), "\n") {
		l = strings.TrimSpace(l)
		if l != "" {
			lines = append(lines, l)
		}
	}
	return strings.Join(lines, "\n")
}

func funcSkel(prop string, ents []fsEntry, repo, out string) error {
	type item struct{ name, text string }
	var items []item
	for _, e := range ents {
		fset := token.NewFileSet()
		// no parser.ParseComments: comments are not part of the AST that is printed
		f, err := parser.ParseFile(fset, filepath.Join(repo, e.File), nil, 0)
		if err != nil {
			return err
		}
		want := map[string]bool{}
		for _, fn := range e.Funcs {
			want[fn] = false
		}
		all := len(e.Funcs) == 0
		for _, d := range f.Decls {
			switch dd := d.(type) {
			case *ast.FuncDecl:
				recv := fsRecvName(dd)
				full := dd.Name.Name
				if recv != "" {
					full = recv + "." + dd.Name.Name
				}
				sel := all
				if _, ok := want[dd.Name.Name]; ok {
					want[dd.Name.Name] = true
					sel = true
				}
				if _, ok := want[full]; ok {
					want[full] = true
					sel = true
				}
				if !sel || dd.Body == nil {
					continue
				}
				fsStrip(dd)
				fsRename(dd)
				items = append(items, item{e.File + ":" + full, fsPrint(fset, dd)})
			case *ast.GenDecl:
				if dd.Tok != token.TYPE {
					continue
				}
				for _, s := range dd.Specs {
					ts := s.(*ast.TypeSpec)
					key := "type " + ts.Name.Name
					if _, ok := want[key]; ok || all {
						if ok {
							want[key] = true
						}
						items = append(items, item{e.File + ":" + key, fsPrint(fset, ts)})
					}
				}
			}
		}
		for fn, seen := range want {
			if !seen {
				// a mirrored declaration that no longer exists is itself a fact (renamed / removed / moved)
				items = append(items, item{e.File + ":" + fn, "<<not found>>"})
			}
		}
	}
	sort.Slice(items, func(i, j int) bool { return items[i].name < items[j].name })
	var b, txt strings.Builder
	fmt.Fprintf(&b, "-- GENERATED by /verif/tools/extract funcskel:%s from the current /repo working tree. Do not edit.\n", prop)
	fmt.Fprintf(&b, "namespace MaddyVerif.Generated.FuncSkel%s\n\n", prop)
	b.WriteString("/-- (declaration, fingerprint of its normalised text): comments, layout, local names and log/trace statements do not count -/\n")
	b.WriteString("def funcs : List (String × String) := [")
	for i, it := range items {
		h := sha256.Sum256([]byte(it.text))
		if i > 0 {
			b.WriteString(",")
		}
		fmt.Fprintf(&b, "\n  (%s, \"%s\")", c10LeanStr(it.name), hex.EncodeToString(h[:8]))
		fmt.Fprintf(&txt, "==== %s\n%s\n", it.name, it.text)
	}
	b.WriteString("\n]\n\n")
	fmt.Fprintf(&b, "end MaddyVerif.Generated.FuncSkel%s\n", prop)
	if err := os.MkdirAll(filepath.Dir(out), 0o755); err != nil {
		return err
	}
	if err := os.WriteFile(out+".txt", []byte(txt.String()), 0o644); err != nil {
		return err
	}
	old, _ := os.ReadFile(out)
	if string(old) == b.String() {
		return nil // keep the time stamp: nothing downstream has to be rebuilt
	}
	return os.WriteFile(out, []byte(b.String()), 0o644)
}
