package main

// metaenc: the statement skeleton of the queue's metadata (de)serialisation and the list of every
// call in internal/target/queue (non-test files) that writes a file — for C10.  Output: Lean data.

import (
	"fmt"
	"go/ast"
	"go/parser"
	"go/printer"
	"go/token"
	"os"
	"path/filepath"
	"sort"
	"strings"
)

func c10LeanStrList(name, doc string, xs []string) string {
	var b strings.Builder
	fmt.Fprintf(&b, "/-- %s -/\ndef %s : List String := [", doc, name)
	for i, x := range xs {
		if i > 0 {
			b.WriteString(",")
		}
		b.WriteString("\n  " + c10LeanStr(x))
	}
	b.WriteString("\n]\n\n")
	return b.String()
}

func c10LeanStr(s string) string {
	return "\"" + strings.NewReplacer("\\", "\\\\", "\"", "\\\"").Replace(s) + "\""
}

// mentions reports whether identifier name occurs in n.
func c10Mentions(n ast.Node, name string) bool {
	found := false
	ast.Inspect(n, func(x ast.Node) bool {
		if id, ok := x.(*ast.Ident); ok && id.Name == name {
			found = true
		}
		return !found
	})
	return found
}

// stmtSkeleton lists, in source order, the simple statements of fn's body (at any nesting depth)
// that mention ident; an `if init; cond {}` contributes its init statement.
func c10StmtSkeleton(fset *token.FileSet, fn *ast.FuncDecl, ident string) []string {
	var out []string
	// guard: the conditions / loops a statement is nested in (a statement that became conditional,
	// or moved into a switch, is a different skeleton)
	var walk func(list []ast.Stmt, guard string)
	walk = func(list []ast.Stmt, guard string) {
		for _, s := range list {
			switch st := s.(type) {
			case *ast.IfStmt:
				if st.Init != nil && c10Mentions(st.Init, ident) {
					out = append(out, guard+c10NodeStr(fset, st.Init))
				}
				cond := c10NodeStr(fset, st.Cond)
				walk(st.Body.List, guard+"[if "+cond+"] ")
				if eb, ok := st.Else.(*ast.BlockStmt); ok {
					walk(eb.List, guard+"[else of "+cond+"] ")
				} else if ei, ok := st.Else.(*ast.IfStmt); ok {
					walk([]ast.Stmt{ei}, guard+"[else of "+cond+"] ")
				}
			case *ast.BlockStmt:
				walk(st.List, guard)
			case *ast.ForStmt:
				walk(st.Body.List, guard+"[loop] ")
			case *ast.RangeStmt:
				walk(st.Body.List, guard+"[loop] ")
			case *ast.SwitchStmt:
				for _, c := range st.Body.List {
					if cc, ok := c.(*ast.CaseClause); ok {
						walk(cc.Body, guard+"[case] ")
					}
				}
			case *ast.TypeSwitchStmt:
				for _, c := range st.Body.List {
					if cc, ok := c.(*ast.CaseClause); ok {
						walk(cc.Body, guard+"[case] ")
					}
				}
			case *ast.SelectStmt:
				for _, c := range st.Body.List {
					if cc, ok := c.(*ast.CommClause); ok {
						walk(cc.Body, guard+"[case] ")
					}
				}
			case *ast.LabeledStmt:
				walk([]ast.Stmt{st.Stmt}, guard)
			case *ast.AssignStmt, *ast.ExprStmt, *ast.ReturnStmt, *ast.DeclStmt, *ast.DeferStmt, *ast.GoStmt, *ast.IncDecStmt:
				if c10Mentions(s, ident) {
					out = append(out, guard+c10NodeStr(fset, s))
				}
			}
		}
	}
	if fn.Body != nil {
		walk(fn.Body.List, "")
	}
	return out
}

func c10NodeStr(fset *token.FileSet, n ast.Node) string {
	var b strings.Builder
	printer.Fprint(&b, fset, n)
	return strings.Join(strings.Fields(b.String()), " ")
}

// The subcommand is dispatched here so that this file is self-contained; main.go's switch may
// also list it (`case "metaenc": err = metaEnc(os.Args[2], os.Args[3])`) - then this hook can go.
func init() {
	if len(os.Args) >= 4 && os.Args[1] == "metaenc" {
		if err := metaEnc(os.Args[2], os.Args[3]); err != nil {
			fmt.Fprintln(os.Stderr, "extract:", err)
			os.Exit(1)
		}
		os.Exit(0)
	}
}

var c10WriterCalls = map[string]bool{
	"os.Create": true, "os.OpenFile": true, "os.WriteFile": true, "os.Rename": true, "os.Link": true, "os.Symlink": true,
	"io.Copy": true, "io.WriteString": true, "textproto.WriteHeader": true, "json.NewEncoder": true, "json.Marshal": true,
	"ioutil.WriteFile": true, "os.CreateTemp": true, "fmt.Fprintf": true, "fmt.Fprint": true, "fmt.Fprintln": true,
}

// method names through which bytes reach an io.Writer / file, whatever the receiver
var c10WriterMethods = map[string]bool{"Write": true, "WriteString": true, "WriteAt": true, "ReadFrom": true, "WriteTo": true, "Encode": true, "Truncate": true}

func metaEnc(repo, out string) error {
	fset := token.NewFileSet()
	qdir := filepath.Join(repo, "internal/target/queue")
	ents, err := os.ReadDir(qdir)
	if err != nil {
		return err
	}
	var names []string
	for _, e := range ents {
		if strings.HasSuffix(e.Name(), ".go") && !strings.HasSuffix(e.Name(), "_test.go") {
			names = append(names, e.Name())
		}
	}
	sort.Strings(names)
	var update, read []string
	var writers []string
	haveUpdate, haveRead := false, false
	for _, n := range names {
		f, err := parser.ParseFile(fset, filepath.Join(qdir, n), nil, 0)
		if err != nil {
			return err
		}
		for _, d := range f.Decls {
			fn, ok := d.(*ast.FuncDecl)
			if !ok || fn.Body == nil {
				continue
			}
			switch fn.Name.Name {
			case "updateMetadataOnDisk":
				update = c10StmtSkeleton(fset, fn, "metaCopy")
				haveUpdate = true
			case "readMessageMeta":
				read = c10StmtSkeleton(fset, fn, "meta")
				haveRead = true
			}
			ast.Inspect(fn.Body, func(x ast.Node) bool {
				call, ok := x.(*ast.CallExpr)
				if !ok {
					return true
				}
				if sel, ok := call.Fun.(*ast.SelectorExpr); ok {
					if pkg, ok := sel.X.(*ast.Ident); ok && c10WriterCalls[pkg.Name+"."+sel.Sel.Name] {
						writers = append(writers, fn.Name.Name+": "+c10NodeStr(fset, call))
					} else if c10WriterMethods[sel.Sel.Name] {
						writers = append(writers, fn.Name.Name+": "+c10NodeStr(fset, call))
					}
				}
				return true
			})
		}
	}
	if !haveUpdate || !haveRead {
		return fmt.Errorf("updateMetadataOnDisk / readMessageMeta not found in %s", qdir)
	}
	// MsgMetadata.DeepCopy
	mf, err := parser.ParseFile(fset, filepath.Join(repo, "framework/module/msgmetadata.go"), nil, 0)
	if err != nil {
		return err
	}
	var deep []string
	haveDeep := false
	for _, d := range mf.Decls {
		if fn, ok := d.(*ast.FuncDecl); ok && fn.Name.Name == "DeepCopy" && fn.Recv != nil && fn.Body != nil {
			for _, s := range fn.Body.List {
				deep = append(deep, c10NodeStr(fset, s))
			}
			haveDeep = true
		}
	}
	if !haveDeep {
		return fmt.Errorf("MsgMetadata.DeepCopy not found")
	}
	var b strings.Builder
	b.WriteString("-- GENERATED by /verif/tools/extract metaenc from the current /repo working tree. Do not edit.\n")
	b.WriteString("namespace MaddyVerif.Generated.MetaEnc\n\n")
	b.WriteString(c10LeanStrList("updateSkeleton", "statements of queue.updateMetadataOnDisk that mention `metaCopy`, in order", update))
	b.WriteString(c10LeanStrList("readSkeleton", "statements of queue.readMessageMeta that mention `meta`, in order", read))
	b.WriteString(c10LeanStrList("deepCopyBody", "body of module.MsgMetadata.DeepCopy", deep))
	b.WriteString(c10LeanStrList("writers", "every call in internal/target/queue (non-test) that can create, rename or write a file: `function: call`", writers))
	b.WriteString("end MaddyVerif.Generated.MetaEnc\n")
	return writeIfChanged(out, b.String())
}
