// extract: regenerates Lean data files from the *current* /repo working tree.
// Stdlib only (go/ast, go/parser, go/printer). Usage: extract <cmd> <repo> <outdir>
package main

import (
	"fmt"
	"os"
)

func main() {
	if len(os.Args) < 4 {
		fmt.Fprintln(os.Stderr, "usage: extract <smtplits|...> <repo> <out.lean>")
		os.Exit(2)
	}
	var err error
	switch os.Args[1] {
	case "smtplits":
		err = smtpLits(os.Args[2], os.Args[3])
	default:
		err = fmt.Errorf("unknown command %q", os.Args[1])
	}
	if err != nil {
		fmt.Fprintln(os.Stderr, "extract:", err)
		os.Exit(1)
	}
}
