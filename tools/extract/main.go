// extract: regenerates Lean data files from the *current* /repo working tree.
// Stdlib only (go/ast, go/parser, go/printer). Usage: extract <cmd> <repo> <out.lean>
// Each subcommand lives in its own file and registers itself in `commands` from init().
package main

import (
	"fmt"
	"os"
	"sort"
)

var commands = map[string]func(repo, out string) error{}

func main() {
	if len(os.Args) < 4 {
		var names []string
		for n := range commands {
			names = append(names, n)
		}
		sort.Strings(names)
		fmt.Fprintln(os.Stderr, "usage: extract <cmd> <repo> <out.lean>; commands:", names)
		os.Exit(2)
	}
	f, ok := commands[os.Args[1]]
	if !ok {
		fmt.Fprintf(os.Stderr, "extract: unknown command %q\n", os.Args[1])
		os.Exit(2)
	}
	if err := f(os.Args[2], os.Args[3]); err != nil {
		fmt.Fprintln(os.Stderr, "extract:", err)
		os.Exit(1)
	}
}
