package main

// extract spoolskel: the ordered file-system call skeleton of the spool procedures of
// internal/target/queue/queue.go for property C02 -> lean/MaddyVerif/Generated/SpoolSkel.lean
//
// For each of storeNewMessage, updateMetadataOnDisk, removeFromDisk, readDiskQueue, openMessage,
// readMessageMeta, tryRemoveDanglingFile, discardBroken the calls are listed in source order:
//
//   os.Create/Open/Remove/Rename/Stat/ReadDir(<path>)   with the file suffix of the path
//   <file>.Sync()                                      with the suffix of the file variable
//   f(…<file>…)                                        a call that is handed a file: "Write" for
//                                                      WriteHeader / io.Copy(dst) / Encode, "Read" for readers
//   q.<method>(…)                                      calls of the other listed procedures ("Call")
//
// each with two flags: E = inside the body of an `if` on `err != nil` / `os.IsNotExist(err)`
// (error or clean-up branch), W = inside the Windows-only branch.

import (
	"fmt"
	"go/ast"
	"go/parser"
	"go/token"
	"os"
	"path/filepath"
	"strings"
)

// The subcommand dispatches itself, so that main.go needs no change for it
// (equivalent switch line for main.go: `case "spoolskel": err = spoolSkel(os.Args[2], os.Args[3])`).
func init() { commands["spoolskel"] = spoolSkel }

var spoolFuncs = []string{"storeNewMessage", "updateMetadataOnDisk", "removeFromDisk", "readDiskQueue",
	"openMessage", "readMessageMeta", "tryRemoveDanglingFile", "discardBroken"}

// control flow around them: which procedure is called where, and when the time wheel gets the slot
// ("Queue.tryDelivery" etc.: receiver type, method)
var spoolCallers = [][2]string{{"Queue", "tryDelivery"}, {"queueDelivery", "Body"}, {"queueDelivery", "Abort"}, {"queueDelivery", "Commit"}}

var spoolCallTargets = []string{"deliver", "emitDSN"}

type spoolCall struct {
	kind, arg string
	e, w      bool
}

type spoolWalker struct {
	vars  map[string]ast.Expr // local variable -> defining expression (paths)
	files map[string]string   // file variable -> suffix
	out   []spoolCall
	funcs map[string]bool
}

// literals concatenates the string literals found in e, resolving local path variables.
func (sw *spoolWalker) literals(e ast.Expr, depth int) string {
	if depth > 6 {
		return ""
	}
	var b strings.Builder
	ast.Inspect(e, func(n ast.Node) bool {
		switch x := n.(type) {
		case *ast.BasicLit:
			if x.Kind == token.STRING {
				b.WriteString(strings.Trim(x.Value, "\"`"))
			}
		case *ast.Ident:
			if def, ok := sw.vars[x.Name]; ok {
				b.WriteString(sw.literals(def, depth+1))
			}
		}
		return true
	})
	return b.String()
}

func isErrCond(e ast.Expr) bool {
	found := false
	ast.Inspect(e, func(n ast.Node) bool {
		switch x := n.(type) {
		case *ast.BinaryExpr:
			if x.Op == token.NEQ {
				if id, ok := x.X.(*ast.Ident); ok && id.Name == "err" {
					if nl, ok := x.Y.(*ast.Ident); ok && nl.Name == "nil" {
						found = true
					}
				}
			}
		case *ast.CallExpr:
			if sel, ok := x.Fun.(*ast.SelectorExpr); ok && sel.Sel.Name == "IsNotExist" {
				found = true
			}
		}
		return true
	})
	return found
}

// windowsCond: +1 for `runtime.GOOS == "windows"`, -1 for `!= "windows"`, 0 otherwise.
func windowsCond(e ast.Expr) int {
	be, ok := e.(*ast.BinaryExpr)
	if !ok {
		return 0
	}
	lit, ok := be.Y.(*ast.BasicLit)
	if !ok || lit.Value != "\"windows\"" {
		return 0
	}
	if sel, ok := be.X.(*ast.SelectorExpr); !ok || sel.Sel.Name != "GOOS" {
		return 0
	}
	switch be.Op {
	case token.EQL:
		return 1
	case token.NEQ:
		return -1
	}
	return 0
}

func (sw *spoolWalker) fileArg(args []ast.Expr) (string, int) {
	for i, a := range args {
		if id, ok := a.(*ast.Ident); ok {
			if suf, ok := sw.files[id.Name]; ok {
				return suf, i
			}
		}
	}
	return "", -1
}

func (sw *spoolWalker) call(c *ast.CallExpr, e, w bool) (osCreateSuffix string) {
	// arguments first (evaluation order)
	for _, a := range c.Args {
		sw.expr(a, e, w)
	}
	sel, ok := c.Fun.(*ast.SelectorExpr)
	if !ok {
		return ""
	}
	// chained call such as json.NewEncoder(file).Encode(x)
	if inner, ok := sel.X.(*ast.CallExpr); ok {
		if suf, _ := sw.fileArg(inner.Args); suf != "" {
			kind := "Read"
			if sel.Sel.Name == "Encode" {
				kind = "Write"
			}
			sw.out = append(sw.out, spoolCall{kind, suf, e, w})
			return ""
		}
		sw.call(inner, e, w)
		return ""
	}
	name := sel.Sel.Name
	if inner, ok := sel.X.(*ast.SelectorExpr); ok {
		// qd.q.storeNewMessage(…), q.wheel.Add(…), qd.q.wheel.Add(…)
		if name == "Add" && inner.Sel.Name == "wheel" {
			sw.out = append(sw.out, spoolCall{"WheelAdd", "", e, w})
			return ""
		}
		if inner.Sel.Name == "q" && sw.funcs[name] {
			sw.out = append(sw.out, spoolCall{"Call:" + name, "", e, w})
		}
		return ""
	}
	recv, _ := sel.X.(*ast.Ident)
	if recv == nil {
		return ""
	}
	switch {
	case recv.Name == "os":
		switch name {
		case "Create", "Open", "Remove", "Stat", "ReadDir", "OpenFile":
			suf := ""
			if len(c.Args) > 0 {
				suf = sw.literals(c.Args[0], 0)
			}
			sw.out = append(sw.out, spoolCall{name, suf, e, w})
			if name == "Create" || name == "Open" || name == "OpenFile" {
				return suf
			}
		case "Rename":
			a, b := "", ""
			if len(c.Args) == 2 {
				a, b = sw.literals(c.Args[0], 0), sw.literals(c.Args[1], 0)
			}
			sw.out = append(sw.out, spoolCall{name, a + ">" + b, e, w})
		}
	case recv.Name == "q" && sw.funcs[name]:
		arg := ""
		if len(c.Args) > 0 {
			arg = sw.literals(c.Args[0], 0)
		}
		sw.out = append(sw.out, spoolCall{"Call:" + name, arg, e, w})
	default:
		if suf, ok := sw.files[recv.Name]; ok {
			if name == "Sync" {
				sw.out = append(sw.out, spoolCall{"Sync", suf, e, w})
			}
			return ""
		}
		if suf, idx := sw.fileArg(c.Args); suf != "" {
			kind := "Read"
			if name == "WriteHeader" || (name == "Copy" && idx == 0) {
				kind = "Write"
			}
			if name == "NewReader" || name == "NewDecoder" || name == "NewEncoder" {
				return "" // wrapping only; the use is recorded where the wrapper is used
			}
			sw.out = append(sw.out, spoolCall{kind, suf, e, w})
		}
	}
	return ""
}

func (sw *spoolWalker) expr(x ast.Expr, e, w bool) string {
	switch v := x.(type) {
	case *ast.CallExpr:
		return sw.call(v, e, w)
	case *ast.BinaryExpr:
		sw.expr(v.X, e, w)
		sw.expr(v.Y, e, w)
	case *ast.UnaryExpr:
		sw.expr(v.X, e, w)
	case *ast.ParenExpr:
		sw.expr(v.X, e, w)
	case *ast.SelectorExpr:
		sw.expr(v.X, e, w)
	}
	return ""
}

func (sw *spoolWalker) assign(lhs []ast.Expr, rhs []ast.Expr, e, w bool) {
	for i, r := range rhs {
		created := sw.expr(r, e, w)
		if i < len(lhs) {
			if id, ok := lhs[i].(*ast.Ident); ok && id.Name != "_" {
				if created != "" {
					sw.files[id.Name] = created
				} else if c, ok := r.(*ast.CallExpr); ok && sw.wraps(c) != "" {
					sw.files[id.Name] = sw.wraps(c) // bufio.NewReader(file) and the like: an alias of the file
				} else if _, isCall := r.(*ast.CallExpr); isCall || isStringy(r) {
					sw.vars[id.Name] = r
				}
			}
		}
	}
}

func (sw *spoolWalker) wraps(c *ast.CallExpr) string {
	sel, ok := c.Fun.(*ast.SelectorExpr)
	if !ok || (sel.Sel.Name != "NewReader" && sel.Sel.Name != "NewDecoder" && sel.Sel.Name != "NewEncoder") {
		return ""
	}
	suf, _ := sw.fileArg(c.Args)
	return suf
}

func isStringy(e ast.Expr) bool {
	switch v := e.(type) {
	case *ast.BasicLit:
		return v.Kind == token.STRING
	case *ast.BinaryExpr:
		return v.Op == token.ADD
	}
	return false
}

func (sw *spoolWalker) stmt(s ast.Stmt, e, w bool) {
	switch v := s.(type) {
	case nil:
	case *ast.BlockStmt:
		for _, st := range v.List {
			sw.stmt(st, e, w)
		}
	case *ast.ExprStmt:
		sw.expr(v.X, e, w)
	case *ast.AssignStmt:
		sw.assign(v.Lhs, v.Rhs, e, w)
	case *ast.DeclStmt:
		if gd, ok := v.Decl.(*ast.GenDecl); ok {
			for _, sp := range gd.Specs {
				if vs, ok := sp.(*ast.ValueSpec); ok {
					lhs := make([]ast.Expr, len(vs.Names))
					for i, n := range vs.Names {
						lhs[i] = n
					}
					sw.assign(lhs, vs.Values, e, w)
				}
			}
		}
	case *ast.IfStmt:
		sw.stmt(v.Init, e, w)
		sw.expr(v.Cond, e, w)
		be, bw := e, w
		ee, ew := e, w
		if isErrCond(v.Cond) {
			be = true
		}
		switch windowsCond(v.Cond) {
		case 1:
			bw = true
		case -1:
			ew = true
		}
		sw.stmt(v.Body, be, bw)
		sw.stmt(v.Else, ee, ew)
	case *ast.ForStmt:
		sw.stmt(v.Init, e, w)
		sw.stmt(v.Body, e, w)
	case *ast.RangeStmt:
		sw.expr(v.X, e, w)
		sw.stmt(v.Body, e, w)
	case *ast.ReturnStmt:
		for _, r := range v.Results {
			sw.expr(r, e, w)
		}
	case *ast.DeferStmt:
		// deferred Close calls are not part of the ordered skeleton
	case *ast.SwitchStmt:
		sw.stmt(v.Init, e, w)
		sw.stmt(v.Body, e, w)
	case *ast.CaseClause:
		for _, st := range v.Body {
			sw.stmt(st, e, w)
		}
	}
}

func spoolSkel(repo, out string) error {
	path := filepath.Join(repo, "internal", "target", "queue", "queue.go")
	fset := token.NewFileSet()
	f, err := parser.ParseFile(fset, path, nil, 0)
	if err != nil {
		return err
	}
	funcs := map[string]bool{}
	for _, n := range spoolFuncs {
		funcs[n] = true
	}
	for _, n := range spoolCallTargets {
		funcs[n] = true
	}
	var b strings.Builder
	b.WriteString("/- GENERATED by /verif/tools/extract spoolskel from internal/target/queue/queue.go — do not edit. -/\n")
	b.WriteString("namespace MaddyVerif.Generated.SpoolSkel\n\n")
	b.WriteString("/-- one call: kind, file suffix (or argument), in an error/clean-up branch, in the Windows-only branch -/\n")
	b.WriteString("structure Call where\n  kind : String\n  arg : String\n  err : Bool\n  win : Bool\nderiving DecidableEq, Repr\n\n")
	for _, name := range spoolFuncs {
		var fd *ast.FuncDecl
		for _, d := range f.Decls {
			if x, ok := d.(*ast.FuncDecl); ok && x.Name.Name == name && x.Recv != nil {
				fd = x
			}
		}
		if fd == nil {
			return fmt.Errorf("method %s not found in %s", name, path)
		}
		sw := &spoolWalker{vars: map[string]ast.Expr{}, files: map[string]string{}, funcs: funcs}
		sw.stmt(fd.Body, false, false)
		fmt.Fprintf(&b, "def %s : List Call := [", name)
		for i, c := range sw.out {
			if i > 0 {
				b.WriteString(",")
			}
			fmt.Fprintf(&b, "\n  ⟨%q, %q, %v, %v⟩", c.kind, c.arg, c.e, c.w)
		}
		b.WriteString("]\n\n")
	}
	for _, rc := range spoolCallers {
		var fd *ast.FuncDecl
		for _, d := range f.Decls {
			x, ok := d.(*ast.FuncDecl)
			if !ok || x.Name.Name != rc[1] || x.Recv == nil || len(x.Recv.List) != 1 {
				continue
			}
			t := x.Recv.List[0].Type
			if st, ok := t.(*ast.StarExpr); ok {
				t = st.X
			}
			if id, ok := t.(*ast.Ident); ok && id.Name == rc[0] {
				fd = x
			}
		}
		if fd == nil {
			return fmt.Errorf("method %s.%s not found in %s", rc[0], rc[1], path)
		}
		sw := &spoolWalker{vars: map[string]ast.Expr{}, files: map[string]string{}, funcs: funcs}
		sw.stmt(fd.Body, false, false)
		fmt.Fprintf(&b, "def %s_%s : List Call := [", rc[0], rc[1])
		for i, c := range sw.out {
			if i > 0 {
				b.WriteString(",")
			}
			fmt.Fprintf(&b, "\n  ⟨%q, %q, %v, %v⟩", c.kind, c.arg, c.e, c.w)
		}
		b.WriteString("]\n\n")
	}
	b.WriteString("end MaddyVerif.Generated.SpoolSkel\n")
	content := b.String()
	if old, err := os.ReadFile(out); err == nil && string(old) == content {
		return nil
	}
	if err := os.MkdirAll(filepath.Dir(out), 0o777); err != nil {
		return err
	}
	tmp := fmt.Sprintf("%s.tmp%d", out, os.Getpid())
	if err := os.WriteFile(tmp, []byte(content), 0o666); err != nil {
		return err
	}
	return os.Rename(tmp, out)
}
