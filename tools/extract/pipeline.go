package main

// extract pipeline: facts of internal/msgpipeline/config.go and msgpipeline.go for property C04
// -> lean/MaddyVerif/Generated/Pipeline.lean
//
//   * the case lists of the `switch node.Name` of parseMsgPipelineRootCfg / SrcCfg / RcptCfg, in
//     source order (the directive grammar the model's `LNode` / `Item` types were written from);
//   * whether the rule loops keep the first declaration (`if _, ok := m[rule]; ok { continue }`);
//   * the condition under which parseMsgPipelineRcptCfg refuses a block without a decision;
//   * the order in which srcBlockForAddr / rcptBlockForAddr consult tables, the rule map with the
//     whole key, the rule map with the domain, and the default block.

import (
	"bytes"
	"fmt"
	"go/ast"
	"go/parser"
	"go/printer"
	"go/token"
	"os"
	"path/filepath"
	"strconv"
	"strings"
)

// registers itself in main.go's command registry
func init() { commands["pipeline"] = c04PipelineFacts }

func c04Func(f *ast.File, name string) *ast.FuncDecl {
	for _, d := range f.Decls {
		if fd, ok := d.(*ast.FuncDecl); ok && fd.Name.Name == name {
			return fd
		}
	}
	return nil
}

func c04Src(fset *token.FileSet, n ast.Node) string {
	var b bytes.Buffer
	printer.Fprint(&b, fset, n)
	return strings.Join(strings.Fields(b.String()), " ")
}

func c04LeanStr(s string) string { return strconv.Quote(s) }

func c04LeanList(xs []string) string {
	q := make([]string, len(xs))
	for i, x := range xs {
		q[i] = c04LeanStr(x)
	}
	return "[" + strings.Join(q, ", ") + "]"
}

// case lists of the first `switch node.Name { … }` of fn; a default clause is the list ["<default>"]
func c04Cases(fset *token.FileSet, fn *ast.FuncDecl) ([][]string, error) {
	var sw *ast.SwitchStmt
	ast.Inspect(fn.Body, func(n ast.Node) bool {
		if sw != nil {
			return false
		}
		if s, ok := n.(*ast.SwitchStmt); ok && s.Tag != nil && c04Src(fset, s.Tag) == "node.Name" {
			sw = s
			return false
		}
		return true
	})
	if sw == nil {
		return nil, fmt.Errorf("%s: no `switch node.Name`", fn.Name.Name)
	}
	var out [][]string
	for _, st := range sw.Body.List {
		cc := st.(*ast.CaseClause)
		if cc.List == nil {
			out = append(out, []string{"<default>"})
			continue
		}
		var names []string
		for _, e := range cc.List {
			bl, ok := e.(*ast.BasicLit)
			if !ok || bl.Kind != token.STRING {
				return nil, fmt.Errorf("%s: case expression %s is not a string literal", fn.Name.Name, c04Src(fset, e))
			}
			s, _ := strconv.Unquote(bl.Value)
			names = append(names, s)
		}
		out = append(out, names)
	}
	return out, nil
}

// number of `if _, ok := <x>.<mapName>[rule]; ok { continue }` statements in fn
func c04FirstWins(fn *ast.FuncDecl, mapName string) int {
	n := 0
	ast.Inspect(fn.Body, func(x ast.Node) bool {
		is, ok := x.(*ast.IfStmt)
		if !ok || is.Init == nil || is.Else != nil {
			return true
		}
		as, ok := is.Init.(*ast.AssignStmt)
		if !ok || len(as.Rhs) != 1 {
			return true
		}
		ix, ok := as.Rhs[0].(*ast.IndexExpr)
		if !ok {
			return true
		}
		sel, ok := ix.X.(*ast.SelectorExpr)
		if !ok || sel.Sel.Name != mapName {
			return true
		}
		if id, ok := is.Cond.(*ast.Ident); !ok || id.Name != "ok" {
			return true
		}
		if len(is.Body.List) == 1 {
			if br, ok := is.Body.List[0].(*ast.BranchStmt); ok && br.Tok == token.CONTINUE {
				n++
			}
		}
		return true
	})
	return n
}

// conditions of the top-level `if … { return nil, <error> }` statements that follow the loop of fn
func c04TrailingRefusals(fset *token.FileSet, fn *ast.FuncDecl) []string {
	var out []string
	seenLoop := false
	for _, st := range fn.Body.List {
		switch s := st.(type) {
		case *ast.RangeStmt:
			seenLoop = true
		case *ast.IfStmt:
			if !seenLoop || len(s.Body.List) != 1 {
				continue
			}
			if rs, ok := s.Body.List[0].(*ast.ReturnStmt); ok && len(rs.Results) == 2 && c04Src(fset, rs.Results[0]) == "nil" {
				out = append(out, c04Src(fset, s.Cond))
			}
		}
	}
	return out
}

// the order in which a block-selection function consults its sources
func c04LookupOrder(fn *ast.FuncDecl, tables, rules, dflt string) []string {
	var out []string
	ast.Inspect(fn.Body, func(x ast.Node) bool {
		switch n := x.(type) {
		case *ast.RangeStmt:
			if sel, ok := n.X.(*ast.SelectorExpr); ok && sel.Sel.Name == tables {
				out = append(out, "tables")
			}
		case *ast.IndexExpr:
			if sel, ok := n.X.(*ast.SelectorExpr); ok && sel.Sel.Name == rules {
				if id, ok := n.Index.(*ast.Ident); ok {
					out = append(out, "rules["+id.Name+"]")
				} else {
					out = append(out, "rules[?]")
				}
			}
		case *ast.SelectorExpr:
			if n.Sel.Name == dflt {
				out = append(out, "default")
			}
		}
		return true
	})
	return out
}

func c04PipelineFacts(repo, out string) error {
	fset := token.NewFileSet()
	cfgPath := filepath.Join(repo, "internal/msgpipeline/config.go")
	mpPath := filepath.Join(repo, "internal/msgpipeline/msgpipeline.go")
	cf, err := parser.ParseFile(fset, cfgPath, nil, 0)
	if err != nil {
		return err
	}
	mf, err := parser.ParseFile(fset, mpPath, nil, 0)
	if err != nil {
		return err
	}
	var b strings.Builder
	b.WriteString("-- GENERATED by /verif/tools/extract pipeline from the current /repo working tree. Do not edit.\n")
	b.WriteString("namespace MaddyVerif.Generated.Pipeline\n\n")
	for _, it := range []struct{ lean, fn string }{
		{"rootCases", "parseMsgPipelineRootCfg"},
		{"srcCases", "parseMsgPipelineSrcCfg"},
		{"rcptCases", "parseMsgPipelineRcptCfg"},
	} {
		fn := c04Func(cf, it.fn)
		if fn == nil {
			return fmt.Errorf("%s not found in %s", it.fn, cfgPath)
		}
		cases, err := c04Cases(fset, fn)
		if err != nil {
			return err
		}
		fmt.Fprintf(&b, "/-- case lists of `switch node.Name` in %s, in source order -/\n", it.fn)
		fmt.Fprintf(&b, "def %s : List (List String) := [\n", it.lean)
		for i, c := range cases {
			sep := ","
			if i == len(cases)-1 {
				sep = ""
			}
			fmt.Fprintf(&b, "  %s%s\n", c04LeanList(c), sep)
		}
		b.WriteString("]\n\n")
	}
	root := c04Func(cf, "parseMsgPipelineRootCfg")
	src := c04Func(cf, "parseMsgPipelineSrcCfg")
	rcpt := c04Func(cf, "parseMsgPipelineRcptCfg")
	fmt.Fprintf(&b, "/-- number of `if _, ok := cfg.perSource[rule]; ok { continue }` guards in parseMsgPipelineRootCfg -/\n")
	fmt.Fprintf(&b, "def sourceFirstWinsGuards : Nat := %d\n\n", c04FirstWins(root, "perSource"))
	fmt.Fprintf(&b, "/-- number of `if _, ok := src.perRcpt[rule]; ok { continue }` guards in parseMsgPipelineSrcCfg -/\n")
	fmt.Fprintf(&b, "def destinationFirstWinsGuards : Nat := %d\n\n", c04FirstWins(src, "perRcpt"))
	fmt.Fprintf(&b, "/-- conditions of the `if … { return nil, err }` statements after the loop of parseMsgPipelineRcptCfg -/\n")
	fmt.Fprintf(&b, "def rcptTrailingRefusals : List String := %s\n\n", c04LeanList(c04TrailingRefusals(fset, rcpt)))
	for _, it := range []struct{ lean, fn, tables, rules, dflt string }{
		{"sourceLookupOrder", "srcBlockForAddr", "sourceIn", "perSource", "defaultSource"},
		{"destinationLookupOrder", "rcptBlockForAddr", "rcptIn", "perRcpt", "defaultRcpt"},
	} {
		fn := c04Func(mf, it.fn)
		if fn == nil {
			return fmt.Errorf("%s not found in %s", it.fn, mpPath)
		}
		fmt.Fprintf(&b, "/-- what %s consults, in source order -/\n", it.fn)
		fmt.Fprintf(&b, "def %s : List String := %s\n\n", it.lean, c04LeanList(c04LookupOrder(fn, it.tables, it.rules, it.dflt)))
	}
	b.WriteString("end MaddyVerif.Generated.Pipeline\n")
	content := b.String()
	if old, err := os.ReadFile(out); err == nil && string(old) == content {
		return nil
	}
	if err := os.MkdirAll(filepath.Dir(out), 0o755); err != nil {
		return err
	}
	tmp := out + ".tmp"
	if err := os.WriteFile(tmp, []byte(content), 0o644); err != nil {
		return err
	}
	return os.Rename(tmp, out)
}
